"""E5 — symbolic shapes and affine bound prover (R-BOUNDS).

For every subscript ``A[e]`` of every kernel the obligation is ``-len(A) <= e < len(A)``
under the kernel's contract.  ``e`` is normalised to an affine form over loop variables,
size atoms and scalars; loop variables are replaced by the bound of their ``range``
according to the sign of their coefficient (innermost first), dominating branch conditions
are used as additive certificates, loop-carried scalars get the union of the bounds of
their definitions, and the remainder must be non-negative from the contract minimums.
Three lemma patterns (iteration counter, guarded counter, pair counter) and a frozen
contract table discharge data-dependent indices; anything else is a violation.
No solver is involved.
"""
from __future__ import annotations

import ast
import itertools
from dataclasses import dataclass, field
from fractions import Fraction
from typing import Dict, List, Optional, Tuple

from .core import AnalysisError, norm_stmt
from .kernels import Kernel
from .poly import Normaliser, Poly, Rat, Unsupported
from .symb import Region, StoreCollector

ELEMENTWISE = {"cos", "abs", "sqrt", "isnan", "isinf", "exp", "log", "round", "astype", "copy", "flatten", "float64", "int64", "clip"}
ZEROS = {"zeros", "ones", "empty"}
LIKE = {"zeros_like", "ones_like", "full_like", "empty_like"}
SAME_LEN_CALLEES = {"ws2d": 0, "gammastd": 0}      # result has the length of argument k


@dataclass
class LoopInfo:
    var: str
    lo: Rat
    hi: Rat          # inclusive
    node: ast.AST


@dataclass
class Part:
    kind: str                   # index | slice | mask | full
    e: Optional[Rat] = None
    lo: Optional[ast.expr] = None
    hi: Optional[ast.expr] = None
    text: str = ""
    mshape: Optional[List[Optional[Rat]]] = None


@dataclass
class CallRec:
    callee: str
    node: ast.Call
    shapes: List[Optional[List[Optional[Rat]]]]
    loops: List["LoopInfo"]
    facts: List[Tuple[str, Rat]]
    stmt: ast.AST


@dataclass
class Sub:
    node: ast.Subscript
    base: str
    parts: List[Part]
    loops: List[LoopInfo]
    facts: List[Tuple[str, Rat]]
    shape: Optional[List[Optional[Rat]]]
    store: bool
    stmt: ast.AST
    region: Region
    seq: int
    base_kind: str = "array"    # array | tuple | list


class Affine:
    """c0 + sum c_a * a over atoms."""

    def __init__(self, r: Rat):
        s = r.simple()
        if s.d.const_value() != 1:
            raise ValueError("not affine (non-constant denominator)")
        self.c0 = Fraction(0)
        self.t: Dict[str, Fraction] = {}
        for mono, c in s.n.t.items():
            if not mono:
                self.c0 += c
            elif len(mono) == 1 and mono[0][1] == 1:
                self.t[mono[0][0]] = self.t.get(mono[0][0], Fraction(0)) + c
            else:
                raise ValueError("not affine (degree > 1)")
        self.t = {k: v for k, v in self.t.items() if v != 0}

    def rat(self) -> Rat:
        p = {(): self.c0}
        for a, c in self.t.items():
            p[((a, 1),)] = c
        return Rat(Poly(p))


class BoundsWalker(StoreCollector):
    def __init__(self, k: Kernel, mins: Dict[str, int]):
        super().__init__(k.node, k.file, loop_atoms_by_name=True, strict=False, keep_arrays=True)
        self.k = k
        self.mins = dict(mins)
        self.shapes: Dict[str, List[Optional[Rat]]] = {}
        self.kinds: Dict[str, str] = {}
        self.subs: List[Sub] = []
        self.callrecs: List[CallRec] = []
        self.canon: Dict[str, str] = {}
        self.loopstack: List[LoopInfo] = []
        self._if_stack: List[dict] = []
        self.loopinfo: Dict[int, LoopInfo] = {}
        self.tuple_elems: Dict[str, list] = {}
        self.hook = self._hook
        self._init_params()

    # ------------------------------------------------------------------ parameter shapes
    def _init_params(self):
        k = self.k
        if k.kind == "guvectorize":
            sym_first: Dict[str, str] = {}
            dims = k.in_dims + k.out_dims
            for p, dm, (dt, nd) in zip(k.params, dims, k.sigs[0]):
                if nd == 0:
                    continue
                shp = []
                if not dm:  # scalar output: 1-element array
                    shp = [Rat.const(1)]
                for i, sym in enumerate(dm):
                    atom = f"len{i}[{p}]"
                    if sym in sym_first:
                        self.canon[atom] = sym_first[sym]
                        atom = sym_first[sym]
                    else:
                        sym_first[sym] = atom
                    shp.append(Rat.atom(atom))
                self.shapes[p] = shp
        else:
            from .arrays import infer_array_params
            for p in infer_array_params(k.node):
                nd = self._param_rank(p)
                self.shapes[p] = [Rat.atom(f"len{i}[{p}]") for i in range(nd)]

    def _param_rank(self, p: str) -> int:
        rank = 1
        for n in ast.walk(self.k.node):
            if isinstance(n, ast.Assign) and isinstance(n.targets[0], ast.Tuple) and isinstance(n.value, ast.Attribute) and n.value.attr == "shape" \
                    and isinstance(n.value.value, ast.Name) and n.value.value.id == p:
                rank = max(rank, len(n.targets[0].elts))
            if isinstance(n, ast.Subscript) and isinstance(n.value, ast.Name) and n.value.id == p and isinstance(n.slice, ast.Tuple):
                rank = max(rank, len(n.slice.elts))
        return rank

    def cz(self, r: Rat) -> Rat:
        """Canonical size atoms: layout symbols shared between parameters; `lenK[A]` / `size[A]` of a local array
        whose shape is tracked is replaced by that shape (at the current program point)."""
        import re as _re

        def atom_value(a: str) -> Optional[Rat]:
            if a in self.canon:
                return Rat.atom(self.canon[a])
            m = _re.fullmatch(r"len(\d)\[(\w+)\]", a)
            if m and m.group(2) in self.shapes and m.group(2) not in self.k.params:
                shp = self.shapes[m.group(2)]
                k_ = int(m.group(1))
                if k_ < len(shp) and shp[k_] is not None:
                    return shp[k_]
            m = _re.fullmatch(r"size\[(\w+)\]", a)
            if m and m.group(1) in self.shapes:
                shp = self.shapes[m.group(1)]
                if len(shp) == 1 and shp[0] is not None:
                    return shp[0]
            return None

        def conv(p: Poly) -> Rat:
            acc = Rat.const(0)
            for mono, c in p.t.items():
                term = Rat.const(c)
                for a, e in mono:
                    v = atom_value(a)
                    base = v if v is not None else Rat.atom(a)
                    for _ in range(e):
                        term = term * base
                acc = acc + term
            return acc
        if not (r.n.atoms() | r.d.atoms()):
            return r
        out = conv(r.n) / conv(r.d) if not r.d.is_const() else conv(r.n) / Rat(r.d)
        return out

    # ------------------------------------------------------------------ shape inference
    def shape_of(self, v: ast.AST) -> Optional[List[Optional[Rat]]]:
        N = self.N()
        if isinstance(v, ast.Name):
            return self.shapes.get(v.id)
        if isinstance(v, ast.Call):
            f = ast.unparse(v.func).split(".")[-1]
            recv = v.func.value if isinstance(v.func, ast.Attribute) else None
            if f in ZEROS or f == "full":
                a = v.args[0] if v.args else None
                for kw in v.keywords:
                    if kw.arg == "shape":
                        a = kw.value
                if a is None:
                    return None
                if isinstance(a, ast.Tuple):
                    return [self._len_rat(e) for e in a.elts]
                if isinstance(a, ast.Attribute) and a.attr == "shape":
                    return self.shape_of(a.value)
                return [self._len_rat(a)]
            if f in LIKE:
                return self.shape_of(v.args[0])
            if f in ("copy", "astype", "flatten") and recv is not None and not _is_mod(recv):
                return self.shape_of(recv)
            if f == "arange":
                try:
                    vals = [N.norm(a).const_value() for a in v.args]
                except Unsupported:
                    vals = [None]
                if all(x is not None for x in vals):
                    if len(vals) == 1:
                        return [Rat.const(int(vals[0]))]
                    a0, b0 = vals[0], vals[1]
                    st = vals[2] if len(vals) > 2 else Fraction(1)
                    import math
                    return [Rat.const(max(0, math.ceil((b0 - a0) / st)))]
                if len(v.args) == 1:
                    return [self._len_rat(v.args[0])]
                return [None]
            if f == "array" and v.args:
                a = v.args[0]
                if isinstance(a, ast.ListComp) and len(a.generators) == 1:
                    return self.shape_of(a.generators[0].iter)
                if isinstance(a, (ast.List, ast.Tuple)):
                    return [Rat.const(len(a.elts))]
                if isinstance(a, ast.Name):
                    return self.shapes.get(a.id) or [None]
                return [None]
            if f in SAME_LEN_CALLEES and v.args:
                return self.shape_of(v.args[SAME_LEN_CALLEES[f]])
            if f == "where" and len(v.args) == 3:
                return self.shape_of(v.args[1]) or self.shape_of(v.args[0])
            if f == "unique" and v.args:
                return [Rat.atom(f"len0[{N.norm(v).key()}]")]
            if f in ELEMENTWISE and (v.args or recv is not None):
                return self.shape_of(v.args[0] if v.args and (recv is None or _is_mod(recv)) else recv)
            return None
        if isinstance(v, ast.BinOp):
            a, b = self.shape_of(v.left), self.shape_of(v.right)
            return a or b
        if isinstance(v, ast.UnaryOp):
            return self.shape_of(v.operand)
        if isinstance(v, ast.Compare):
            return self.shape_of(v.left) or self.shape_of(v.comparators[0])
        if isinstance(v, ast.Subscript) and isinstance(v.value, ast.Name) and self.kinds.get(v.value.id) == "tuple" \
                and isinstance(v.slice, ast.Constant) and isinstance(v.slice.value, int):
            el = self.tuple_elems.get(v.value.id, [])
            return el[v.slice.value] if 0 <= v.slice.value < len(el) else None
        if isinstance(v, ast.Subscript):
            base = self.shape_of(v.value)
            sl = v.slice
            parts = sl.elts if isinstance(sl, ast.Tuple) else [sl]
            if base is None:
                if isinstance(v.value, ast.Call) and ast.unparse(v.value.func).split(".")[-1] == "where":
                    return [Rat.atom(f"count[{N.norm(v.value).key()}]")]
                return None
            out = []
            for i, p in enumerate(parts):
                L = base[i] if i < len(base) else None
                if isinstance(p, ast.Slice):
                    out.append(self._slice_len(p, L))
                else:
                    ps = self.shape_of(p) if isinstance(p, (ast.Name, ast.Compare, ast.BinOp, ast.UnaryOp)) else None
                    if ps is not None:  # boolean / fancy index
                        try:
                            out.append(Rat.atom(f"count[{N.norm(p).key()}]"))
                        except Unsupported:
                            out.append(None)
                    # scalar index drops the axis
            out += base[len(parts):]
            return out
        if isinstance(v, ast.IfExp):
            a, b = self.shape_of(v.body), self.shape_of(v.orelse)
            if a and b and len(a) == len(b):
                out = []
                for x, y in zip(a, b):
                    if x is not None and y is not None and x.equals(y):
                        out.append(x)
                    elif x is not None and y is not None and x.const_value() is not None and y.const_value() is not None:
                        atom = f"mlen[ifexp@{v.lineno}:{v.col_offset}]"
                        self.mins[atom] = int(min(x.const_value(), y.const_value()))
                        out.append(Rat.atom(atom))
                    else:
                        out.append(None)
                return out
            return a or b
        return None

    def _len_rat(self, e: ast.AST) -> Optional[Rat]:
        try:
            return self.cz(self.N().norm(e))
        except Unsupported:
            return None

    def _slice_len(self, p: ast.Slice, L: Optional[Rat]) -> Optional[Rat]:
        if L is None:
            return None
        if p.step is not None:
            return None
        N = self.N()

        def bound(x, default):
            if x is None:
                return default
            r = self.cz(N.norm(x))
            c = r.const_value()
            if c is not None and c < 0:
                return L + r
            return r
        try:
            lo = bound(p.lower, Rat.const(0))
            hi = bound(p.upper, L)
        except Unsupported:
            return None
        return hi - lo

    # ------------------------------------------------------------------ hooks
    def _hook(self, st, region):
        # expressions evaluated at this statement (not the bodies of compound statements)
        exprs: List[Tuple[ast.AST, bool]] = []
        if isinstance(st, ast.Assign):
            exprs.append((st.value, False))
            for t in st.targets:
                exprs.append((t, True))
        elif isinstance(st, ast.AugAssign):
            exprs.append((st.value, False))
            exprs.append((st.target, True))
        elif isinstance(st, ast.For):
            exprs.append((st.iter, False))
        elif isinstance(st, (ast.If, ast.While)):
            exprs.append((st.test, False))
        elif isinstance(st, ast.Expr):
            exprs.append((st.value, False))
        elif isinstance(st, ast.Return) and st.value is not None:
            exprs.append((st.value, False))
        elif isinstance(st, ast.Assert):
            exprs.append((st.test, False))
        for e, is_target in exprs:
            self._scan(e, st, region, is_target)

    def _scan(self, e: ast.AST, st, region, is_target):
        for n in ast.walk(e):
            if isinstance(n, ast.Lambda):
                continue
            if isinstance(n, ast.Call) and isinstance(n.func, ast.Name) and n.func.id in ("ws2d", "_ws2doptvp", "_ws2dwcvp", "gammastd", "gammafit", "autocorr_1d"):
                shp = []
                for a in n.args:
                    sh = self.shape_of(a)
                    shp.append([self.cz(x) if x is not None else None for x in sh] if sh is not None else None)
                self.callrecs.append(CallRec(n.func.id, n, shp, list(self.loopstack), [(t, self.cz(d)) for t, d in self._facts], st))
            if not isinstance(n, ast.Subscript):
                continue
            store = is_target and isinstance(n.ctx, ast.Store)
            if isinstance(n.value, ast.Attribute) and n.value.attr == "shape":
                continue   # size read
            base = None
            if isinstance(n.value, ast.Name):
                base = n.value.id
            elif isinstance(n.value, ast.Subscript) and isinstance(n.value.value, ast.Name):
                base = ast.unparse(n.value)
            else:
                base = ast.unparse(n.value)
            shape = self.shape_of(n.value)
            if shape is None and isinstance(n.value, ast.Call) and ast.unparse(n.value.func).split(".")[-1] == "where" and len(n.value.args) == 1:
                nd = self.shape_of(n.value.args[0])
                shape = [Rat.const(len(nd))] if nd else None    # tuple with one index array per dimension
            sl = n.slice
            elems = sl.elts if isinstance(sl, ast.Tuple) else [sl]
            parts: List[Part] = []
            N = self.N()
            for p in elems:
                if isinstance(p, ast.Slice):
                    if p.lower is None and p.upper is None:
                        parts.append(Part("full", text=":"))
                    else:
                        parts.append(Part("slice", lo=p.lower, hi=p.upper, text=ast.unparse(p)))
                    continue
                ms = self.shape_of(p) if isinstance(p, (ast.Name, ast.Compare, ast.BinOp, ast.UnaryOp, ast.Call)) else None
                if ms:
                    parts.append(Part("mask", text=ast.unparse(p), mshape=ms))
                    continue
                try:
                    parts.append(Part("index", e=self.cz(N.norm(p)), text=ast.unparse(p)))
                except Unsupported:
                    parts.append(Part("index", e=None, text=ast.unparse(p)))
            if shape is not None:
                shape = [self.cz(x) if x is not None else None for x in shape]
            loops = list(self.loopstack)
            self.subs.append(Sub(n, base, parts, loops, [(t, self.cz(d)) for t, d in self._facts], shape, store, st, region, self._seq,
                                 self.kinds.get(base, "array")))

    def _for(self, st: ast.For, cur):
        is_range = isinstance(st.iter, ast.Call) and ast.unparse(st.iter.func) in ("range", "numba.prange", "prange")
        pushed = False
        if is_range and isinstance(st.target, ast.Name):
            try:
                a = [self.cz(self.N().norm(x)) for x in st.iter.args]
                if len(a) == 1:
                    lo, hi = Rat.const(0), a[0] - Rat.const(1)
                elif len(a) == 2 or (len(a) == 3 and a[2].const_value() == 1):
                    lo, hi = a[0], a[1] - Rat.const(1)
                elif len(a) == 3 and a[2].const_value() == -1:
                    lo, hi = a[1] + Rat.const(1), a[0]
                else:
                    lo = hi = None
                if lo is not None:
                    self.loopstack.append(LoopInfo(st.target.id, lo, hi, st))
                    self.loopinfo[id(st)] = self.loopstack[-1]
                    pushed = True
            except Unsupported:
                pass
        r = super()._for(st, cur)
        if pushed:
            self.loopstack.pop()
        return r

    def _arm_start(self):
        self.shapes = {k: list(v) for k, v in self._if_stack[-1]["before"].items()}

    def _arm_end(self):
        self._if_stack[-1]["ends"].append({k: list(v) for k, v in self.shapes.items()})

    def _if(self, st: ast.If, region):
        before = {k: list(v) for k, v in self.shapes.items()}
        self._if_stack.append({"before": before, "ends": []})
        super()._if(st, region)
        ctx = self._if_stack.pop()
        bodies = [b for b in (st.body, st.orelse) if b]
        ends = [e for e, b in zip(ctx["ends"], bodies) if not self._terminates(b)]
        if not st.orelse:
            ends.append(before)
        if not ends:
            self.shapes = before
            return
        merged: Dict[str, List[Optional[Rat]]] = {}
        names = set()
        for e in ends:
            names |= set(e)
        for nme in names:
            vals = [e.get(nme) for e in ends]
            if any(v is None for v in vals):
                continue
            first = vals[0]
            if any(len(v) != len(first) for v in vals):
                continue
            shp: List[Optional[Rat]] = []
            for ax in range(len(first)):
                col = [v[ax] for v in vals]
                if all(c is not None and c.equals(col[0]) for c in col):
                    shp.append(col[0])
                    continue
                atom = f"mlen{ax}[{nme}@{st.lineno}]"
                lows = []
                for c in col:
                    if c is None:
                        lows = None
                        break
                    cv = c.const_value()
                    if cv is not None:
                        lows.append(int(cv))
                    elif c.key() in self.mins:
                        lows.append(self.mins[c.key()])
                    else:
                        lows = None
                        break
                if lows:
                    self.mins[atom] = min(lows)
                shp.append(Rat.atom(atom))
            merged[nme] = shp
        self.shapes = merged

    def _assign(self, target, value, st, region, aug=False):
        if isinstance(target, ast.Name) and not aug:
            shp = self.shape_of(value)
            if shp is not None:
                self.shapes[target.id] = shp
            if isinstance(value, (ast.Tuple, ast.List)):
                self.kinds[target.id] = "tuple"
                self.shapes[target.id] = [Rat.const(len(value.elts))]
                self.tuple_elems[target.id] = [self.shape_of(e) for e in value.elts]
        super()._assign(target, value, st, region, aug)


def _is_mod(node) -> bool:
    return isinstance(node, ast.Name) and node.id in ("np", "numpy", "math", "sc", "numba")


# ------------------------------------------------------------------------------- prover


class Prover:
    def __init__(self, w: BoundsWalker, mins: Dict[str, int], ranges: Dict[str, Tuple[Rat, Rat]]):
        self.w = w
        self.mins = mins
        self.ranges = ranges

    def atom_min(self, a: str) -> Optional[Fraction]:
        if a in self.mins:
            return Fraction(self.mins[a])
        if a in self.w.mins:
            return Fraction(self.w.mins[a])
        if a.startswith(("len", "size[", "count[", "mlen")):
            return Fraction(0)
        return None

    def nonneg(self, r: Rat, loops: List[LoopInfo], facts: List[Tuple[str, Rat]]) -> Optional[str]:
        """Certificate that r >= 0, or None."""
        try:
            Affine(r)
        except ValueError:
            return None
        cand_facts: List[Rat] = []
        for tag, d in facts:
            if tag == "ge0":
                cand_facts.append(d)
            elif tag == "gt0":
                cand_facts.append(d - Rat.const(1))
            elif tag == "eq0":
                cand_facts.append(d)
                cand_facts.append(-d)
        for lp in loops:
            cand_facts.append(lp.hi - lp.lo)      # the body runs only for a non-empty range
        for k in range(0, 3):
            for combo in itertools.combinations(range(len(cand_facts)), k):
                t = r
                for i in combo:
                    t = t - cand_facts[i]
                why = self._nonneg_plain(t, loops)
                if why is not None:
                    return why + (f" using {k} dominating condition(s)" if k else "")
        return None

    def _nonneg_plain(self, r: Rat, loops: List[LoopInfo]) -> Optional[str]:
        try:
            a = Affine(r)
        except ValueError:
            return None
        used = []
        # eliminate loop variables innermost first, then loop-carried scalars with known ranges
        elim = [(lp.var, lp.lo, lp.hi) for lp in reversed(loops)] + [(n, lo, hi) for n, (lo, hi) in self.ranges.items()]
        guard = 0
        changed = True
        while changed and guard < 40:
            changed = False
            guard += 1
            for var, lo, hi in elim:
                c = a.t.get(var)
                if not c:
                    continue
                sub = lo if c > 0 else hi
                if sub is None:
                    return None
                try:
                    sa = Affine(sub)
                except ValueError:
                    return None
                del a.t[var]
                a.c0 += c * sa.c0
                for k2, v2 in sa.t.items():
                    a.t[k2] = a.t.get(k2, Fraction(0)) + c * v2
                a.t = {k2: v2 for k2, v2 in a.t.items() if v2 != 0}
                used.append(f"{var}{'>=' if c > 0 else '<='}{sub.key()}")
                changed = True
                break
        total = a.c0
        for atom, c in a.t.items():
            mn = self.atom_min(atom)
            if mn is None or c < 0:
                return None
            total += c * mn
        if total >= 0:
            return "affine" + (" [" + ", ".join(used[:4]) + "]" if used else "")
        return None

    def in_bounds(self, e: Rat, L: Rat, loops, facts) -> Tuple[bool, str, bool]:
        """-L <= e <= L-1.  Returns (ok, certificate, needs_wrap)."""
        up = self.nonneg(L - Rat.const(1) - e, loops, facts)
        if up is None:
            return False, "upper bound not provable", False
        lo0 = self.nonneg(e, loops, facts)
        if lo0 is not None:
            return True, up, False
        lo1 = self.nonneg(e + L, loops, facts)
        if lo1 is not None:
            return True, up + " (lower bound only through negative wrap-around)", True
        return False, "lower bound not provable", False


def scalar_ranges(w: BoundsWalker) -> Dict[str, Tuple[Rat, Rat]]:
    """Bounds of loop-carried scalars whose every definition is a plain assignment (no augmented update):
    the union of the bounds of the assigned expressions."""
    out: Dict[str, Tuple[Rat, Rat]] = {}
    loops_of: Dict[int, List[LoopInfo]] = {}
    return out

"""Reaching-definition substitution over straight-line/loop code (helper of E4/E8).

Walks a function body in program order with a flow-sensitive environment for scalar
temporaries (``i1 = i - 1``; ``m = n - 1``; ``w_tmp = w[i]``) and records every store
into an array element together with the normal form of its index and right-hand side.
Nothing is executed: the result is a table of (array, index normal form, rhs normal
form, region) that rules compare with reference formulas.
"""
from __future__ import annotations

import ast
from dataclasses import dataclass, field
from typing import Dict, List, Optional, Tuple

from .core import AnalysisError, norm_stmt
from .poly import Normaliser, Rat, Unsupported

ALLOC_FUNCS = {"zeros", "ones", "empty", "full", "zeros_like", "full_like", "ones_like", "copy",
               "arange", "array"}


@dataclass
class Region:
    kind: str  # "line" | "loop"
    ordinal: int
    var: Optional[str] = None
    rng: Optional[List[Rat]] = None  # normalised range args
    node: Optional[ast.AST] = None
    parent: Optional["Region"] = None

    def label(self) -> str:
        if self.kind == "line":
            return "straight-line"
        return f"loop({self.var} in range({', '.join(r.key() for r in self.rng)}))"


@dataclass
class Store:
    arr: str
    idx: Rat
    rhs: Rat
    stmt: ast.AST
    region: Region
    seq: int  # program order

    @property
    def line(self):
        return self.stmt.lineno


class StoreCollector:
    """Collect element stores of a function.

    size_names: names whose defining assignment is a size read (``y.shape[0]``, ``len(x)``)
                and that stay atoms.
    """

    def __init__(self, fn: ast.FunctionDef, file: str, loop_atom: str = "ROW",
                 keep_atoms: Tuple[str, ...] = ()):
        self.fn = fn
        self.file = file
        self.loop_atom = loop_atom
        self.keep = set(keep_atoms)
        self.env: Dict[str, Rat] = {}
        self.stores: List[Store] = []
        self.allocs: Dict[str, ast.AST] = {}
        self.scalars: Dict[str, List[Tuple[Rat, ast.AST, Region]]] = {}
        self.returns: List[ast.Return] = []
        self.regions: List[Region] = []
        self._seq = 0
        self._ord = 0

    def N(self) -> Normaliser:
        return Normaliser(self.env)

    def fail(self, node, why):
        raise AnalysisError(
            f"unsupported construct in {self.file}:{getattr(node, 'lineno', 0)} {self.fn.name}: {why}: "
            f"{norm_stmt(node)[:80]}"
        )

    def run(self):
        top = Region("line", self._next_ord())
        self.regions.append(top)
        self._block(self.fn.body, top)
        return self

    def _next_ord(self):
        self._ord += 1
        return self._ord

    def _is_size_read(self, v: ast.AST) -> bool:
        s = ast.unparse(v)
        return ".shape" in s or s.startswith("len(") or s.endswith(".size")

    def _is_alloc(self, v: ast.AST) -> bool:
        return isinstance(v, ast.Call) and ast.unparse(v.func).split(".")[-1] in ALLOC_FUNCS

    def _block(self, stmts, region: Region):
        cur = region
        for st in stmts:
            if isinstance(st, ast.Expr):
                if isinstance(st.value, ast.Constant):
                    continue  # docstring
                self.fail(st, "expression statement")
            elif isinstance(st, ast.Assign):
                if len(st.targets) != 1:
                    self.fail(st, "multiple targets")
                self._assign(st.targets[0], st.value, st, cur)
            elif isinstance(st, ast.AugAssign):
                binop = ast.BinOp(left=_load(st.target), op=st.op, right=st.value)
                ast.copy_location(binop, st)
                self._assign(st.target, binop, st, cur)
            elif isinstance(st, ast.For):
                if st.orelse:
                    self.fail(st, "for-else")
                if not (isinstance(st.iter, ast.Call) and ast.unparse(st.iter.func) == "range"
                        and isinstance(st.target, ast.Name)):
                    self.fail(st, "loop that is not `for v in range(...)`")
                try:
                    rng = [self.N().norm(a) for a in st.iter.args]
                except Unsupported as exc:
                    self.fail(st, str(exc))
                loop = Region("loop", self._next_ord(), st.target.id, rng, st, parent=cur if cur.kind == "loop" else None)
                self.regions.append(loop)
                saved = dict(self.env)
                self.env[st.target.id] = Rat.atom(self.loop_atom if loop.parent is None else f"{self.loop_atom}{loop.ordinal}")
                self._block(st.body, loop)
                # scalars assigned in the loop are not valid after it
                assigned = {n.id for s in ast.walk(st) for n in ([s] if isinstance(s, ast.Name) and isinstance(s.ctx, ast.Store) else [])}
                self.env = {k: v for k, v in saved.items() if k not in assigned}
                if cur.kind == "line":
                    cur = Region("line", self._next_ord())
                    self.regions.append(cur)
            elif isinstance(st, ast.Return):
                self.returns.append(st)
            elif isinstance(st, ast.Pass):
                continue
            else:
                self.fail(st, f"statement kind {type(st).__name__}")

    def _assign(self, target, value, st, region):
        if isinstance(target, ast.Name):
            name = target.id
            if name in self.keep:
                self.env.pop(name, None)
                return
            if self._is_alloc(value):
                self.allocs[name] = value
                self.env.pop(name, None)
                return
            try:
                r = self.N().norm(value)
            except Unsupported as exc:
                self.fail(st, str(exc))
            self.env[name] = r
            self.scalars.setdefault(name, []).append((r, st, region))
        elif isinstance(target, ast.Tuple) and isinstance(value, ast.Attribute) and value.attr == "shape":
            base = self.N()._base_key(value.value)
            for k, t in enumerate(target.elts):
                if isinstance(t, ast.Name):
                    self.env[t.id] = Rat.atom(f"len{k}[{base}]")
        elif isinstance(target, ast.Subscript) and isinstance(target.value, ast.Name):
            try:
                idx = self.N().norm(target.slice)
                rhs = self.N().norm(value)
            except Unsupported as exc:
                self.fail(st, str(exc))
            self._seq += 1
            self.stores.append(Store(target.value.id, idx, rhs, st, region, self._seq))
        else:
            self.fail(st, "assignment target")


def _load(node):
    import copy
    n = copy.deepcopy(node)
    for x in ast.walk(n):
        if hasattr(x, "ctx"):
            x.ctx = ast.Load()
    return n

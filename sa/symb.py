"""Reaching-definition substitution over structured code (helper of E4/E8).

Walks a function body in program order with a flow-sensitive environment for scalar
temporaries (``i1 = i - 1``; ``m = n - 1``; ``w_tmp = w[i]``) and records every store
into an array element together with the normal form of its index and right-hand side,
the enclosing loops and the branch conditions it sits under.  A value stored into a
cell is substituted into later reads of the same cell *within the same block*
(``y[ix] = f(...)`` followed by ``y[ix] = g(y[ix])`` composes to ``g(f(...))``).
Nothing is executed: the result is a table of normal forms that rules compare with
reference formulas.
"""
from __future__ import annotations

import ast
import copy
from dataclasses import dataclass, field
from typing import Dict, List, Optional, Tuple

from .core import AnalysisError, norm_stmt
from .poly import Normaliser, Rat, Unsupported, cmp_key

ALLOC_FUNCS = {"zeros", "ones", "empty", "full", "zeros_like", "full_like", "ones_like", "copy",
               "arange", "array"}


@dataclass
class Region:
    kind: str  # "line" | "loop"
    ordinal: int
    var: Optional[str] = None
    rng: Optional[List[Rat]] = None  # normalised range args (None for iteration over an array)
    node: Optional[ast.AST] = None
    parent: Optional["Region"] = None
    iter_key: Optional[str] = None

    def label(self) -> str:
        if self.kind == "line":
            return "straight-line"
        if self.rng is None:
            return f"loop({self.var} in {self.iter_key})"
        return f"loop({self.var} in range({', '.join(r.key() for r in self.rng)}))"

    def chain(self) -> List["Region"]:
        out, r = [], self
        while r is not None:
            if r.kind == "loop":
                out.append(r)
            r = r.parent
        return list(reversed(out))


@dataclass
class Store:
    arr: str
    idx: Rat
    rhs: Rat
    stmt: ast.AST
    region: Region
    seq: int  # program order
    guards: Tuple[str, ...] = ()
    idx_key: str = ""
    aug: bool = False

    @property
    def line(self):
        return self.stmt.lineno


@dataclass
class ScalarDef:
    name: str
    rhs: Rat
    stmt: ast.AST
    region: Region
    guards: Tuple[str, ...]
    seq: int
    aug: bool = False


@dataclass
class CallEvent:
    func: str
    node: ast.Call
    stmt: ast.AST
    region: Region
    guards: Tuple[str, ...]
    seq: int
    args: List[str] = field(default_factory=list)


@dataclass
class ExitEvent:
    kind: str  # return | break | continue
    stmt: ast.AST
    region: Region
    guards: Tuple[str, ...]
    seq: int
    value: Optional[Rat] = None
    values: Optional[List[Rat]] = None  # elements of a returned tuple


NEG = {"eq0": "ne0", "ne0": "eq0", "lt0": "ge0", "ge0": "lt0", "le0": "gt0", "gt0": "le0"}


def _single_atom(k: str) -> bool:
    """k is `tag[...]` with the bracket opened after the tag closing at the very end."""
    i = k.find("[")
    if i < 0 or not k.endswith("]"):
        return False
    depth = 0
    for j in range(i, len(k)):
        if k[j] == "[":
            depth += 1
        elif k[j] == "]":
            depth -= 1
            if depth == 0:
                return j == len(k) - 1
    return False


IMPLIES = {"lt0": ("le0", "ne0"), "gt0": ("ge0", "ne0"), "eq0": ("le0", "ge0")}


def minimal_guards(guards) -> List[str]:
    """The guards without those implied by another guard on the same expression (x < 0 implies x <= 0 and x != 0; x == 0 implies x >= 0, x <= 0):
    an `elif` or a nested test adds such redundant facts without changing when the statement runs."""
    gs = list(dict.fromkeys(guards))
    drop = set()
    for g in gs:
        if not _single_atom(g):
            continue
        tag, rest = g.split("[", 1)
        for weaker in IMPLIES.get(tag, ()):
            w = f"{weaker}[{rest}"
            if w in gs:
                drop.add(w)
            # the same fact written on the negated expression: -x > 0 ... (not attempted)
    return [g for g in gs if g not in drop]


def canon_quant(k: str) -> str:
    """`all[P]` over one comparison atom is written `not[any[not P]]` so that `(x == nd).all()` and `(x != nd).any()` meet in one form."""
    if k.startswith("all[") and k.endswith("]") and _single_atom(k):
        inner = k[4:-1]
        if _single_atom(inner) and inner.split("[", 1)[0] in NEG:
            return f"not[any[{negate_key(inner)}]]"
    # a count of a comparison mask compared with zero: `(m).sum() == 0` is `not m.any()`, `(m).sum() > 0` is `m.any()`
    for tag, form in (("eq0[sum[", "not[any[{}]]"), ("gt0[sum[", "any[{}]"), ("ne0[sum[", "any[{}]"), ("le0[sum[", "not[any[{}]]")):
        if k.startswith(tag) and k.endswith("]]") and _single_atom(k):
            inner = k[len(tag):-2]
            if _single_atom(inner) and inner.split("[", 1)[0] in NEG:
                return form.format(inner)
    return k


def negate_key(k: str) -> str:
    if _single_atom(k):
        tag, rest = k.split("[", 1)
        if tag in NEG:
            return NEG[tag] + "[" + rest
        if tag == "not":
            return k[4:-1]
    return f"not[{k}]"


class StoreCollector:
    """Collect element stores, scalar definitions, calls and exits of a function."""

    def __init__(self, fn: ast.FunctionDef, file: str, loop_atom: str = "ROW",
                 keep_atoms: Tuple[str, ...] = (), strict: bool = True, loop_atoms_by_name: bool = False,
                 track_cells: bool = True, array_params=None, keep_arrays: bool = False):
        self.fn = fn
        self.file = file
        self.loop_atom = loop_atom
        self.keep = set(keep_atoms)
        self.strict = strict
        self.by_name = loop_atoms_by_name
        self.track_cells = track_cells
        # array-valued names are mutable objects: they are never copy-propagated (their definitions are recorded instead)
        self.arrays = set()
        if keep_arrays:
            from .arrays import array_names, infer_array_params
            ap = set(array_params) if array_params is not None else infer_array_params(fn)
            self.arrays, _ = array_names(fn, ap)
        self.env: Dict[str, Rat] = {}
        self.cells: Dict[str, Rat] = {}
        self.stores: List[Store] = []
        self.allocs: Dict[str, ast.AST] = {}
        self.alloc_stmts: Dict[str, ast.AST] = {}
        self.scalars: Dict[str, List[ScalarDef]] = {}
        self.calls: List[CallEvent] = []
        self.exits: List[ExitEvent] = []
        self.returns: List[ast.Return] = []
        self.regions: List[Region] = []
        self.arrays_assigned: Dict[str, List[Tuple[Rat, ast.AST, Tuple[str, ...], int]]] = {}
        self._seq = 0
        self._ord = 0
        self._guards: List[str] = []
        self._facts: List[Tuple[str, Rat]] = []      # (tag, d) meaning `d <tag> 0`, parallel information to _guards
        self._fact_marks: List[int] = []
        self.hook = None                              # hook(expr_or_stmt, region) called before each statement / loop header / test
        # names that are mutated in place (element stores, out= arguments) are array variables: never copy-propagated
        self.mutated = set()
        for n in ast.walk(fn):
            if isinstance(n, (ast.Assign, ast.AugAssign)):
                for t in (n.targets if isinstance(n, ast.Assign) else [n.target]):
                    for tt in (t.elts if isinstance(t, ast.Tuple) else [t]):
                        if isinstance(tt, ast.Subscript) and isinstance(tt.value, ast.Name):
                            self.mutated.add(tt.value.id)
            elif isinstance(n, ast.Call) and ast.unparse(n.func).split(".")[-1] == "round" and len(n.args) == 3 \
                    and isinstance(n.args[2], ast.Name):
                self.mutated.add(n.args[2].id)

    # ------------------------------------------------------------------ normaliser with cell substitution
    def N(self) -> Normaliser:
        def on_sub(node, nrm):
            if isinstance(node.value, ast.Name) and not isinstance(node.slice, ast.Slice):
                try:
                    key = self._cell_key(node, nrm)
                except Unsupported:
                    return None
                if key in self.cells:
                    return self.cells[key]
            return None
        return Normaliser(self.env, on_sub=on_sub if self.track_cells else None)

    def _cell_key(self, node: ast.Subscript, nrm: Normaliser) -> str:
        base = nrm._base_key(node.value)
        sl = node.slice
        parts = sl.elts if isinstance(sl, ast.Tuple) else [sl]
        return f"{base}[{','.join(nrm.idx_key(p) for p in parts)}]"

    def fail(self, node, why):
        raise AnalysisError(
            f"unsupported construct in {self.file}:{getattr(node, 'lineno', 0)} {self.fn.name}: {why}: "
            f"{norm_stmt(node)[:80]}"
        )

    def run(self):
        top = Region("line", self._next_ord())
        self.regions.append(top)
        self._block(self.fn.body, top)
        return self

    def _next_ord(self):
        self._ord += 1
        return self._ord

    def _next_seq(self):
        self._seq += 1
        return self._seq

    def _is_alloc(self, v: ast.AST) -> bool:
        return isinstance(v, ast.Call) and ast.unparse(v.func).split(".")[-1] in ALLOC_FUNCS

    def _test_keys(self, test: ast.expr, arm: bool) -> List[str]:
        N = self.N()

        def key(t):
            try:
                if isinstance(t, ast.Compare) and len(t.ops) == 1:
                    return cmp_key(t.ops[0], N.norm(t.left), N.norm(t.comparators[0]))
                return N.norm(t).key()
            except Unsupported:
                return ast.unparse(t)

        def interp(t, a) -> List[str]:
            if isinstance(t, ast.BoolOp):
                if (isinstance(t.op, ast.And) and a) or (isinstance(t.op, ast.Or) and not a):
                    out = []
                    for v in t.values:
                        out += interp(v, a)
                    return out
                parts = sorted(key(v) for v in t.values)
                k = ("and" if isinstance(t.op, ast.And) else "or") + "[" + ";".join(parts) + "]"
                return [k if a else negate_key(k)]
            if isinstance(t, ast.UnaryOp) and isinstance(t.op, ast.Not):
                return interp(t.operand, not a)
            k = canon_quant(key(t))
            return [k if a else negate_key(k)]
        return interp(test, arm)

    def _test_facts(self, test: ast.expr, arm: bool) -> List[Tuple[str, Rat]]:
        """Affine facts `d <tag> 0` (tag in ge0/gt0/eq0/ne0) implied by a branch condition (integer-safe orientation)."""
        N = self.N()
        out: List[Tuple[str, Rat]] = []

        def one(t, a):
            if isinstance(t, ast.BoolOp):
                if (isinstance(t.op, ast.And) and a) or (isinstance(t.op, ast.Or) and not a):
                    for v in t.values:
                        one(v, a)
                return
            if isinstance(t, ast.UnaryOp) and isinstance(t.op, ast.Not):
                one(t.operand, not a)
                return
            if not (isinstance(t, ast.Compare) and len(t.ops) == 1):
                return
            try:
                d = N.norm(t.left) - N.norm(t.comparators[0])
            except Unsupported:
                return
            op = type(t.ops[0])
            if not a:
                op = {ast.Lt: ast.GtE, ast.LtE: ast.Gt, ast.Gt: ast.LtE, ast.GtE: ast.Lt, ast.Eq: ast.NotEq, ast.NotEq: ast.Eq}.get(op)
            if op is ast.GtE:
                out.append(("ge0", d))
            elif op is ast.Gt:
                out.append(("gt0", d))
            elif op is ast.LtE:
                out.append(("ge0", -d))
            elif op is ast.Lt:
                out.append(("gt0", -d))
            elif op is ast.Eq:
                out.append(("eq0", d))
            elif op is ast.NotEq:
                out.append(("ne0", d))
        one(test, arm)
        return out

    def _terminates(self, stmts) -> bool:
        return bool(stmts) and isinstance(stmts[-1], (ast.Return, ast.Continue, ast.Break, ast.Raise))

    def _block(self, stmts, region: Region):
        cur = region
        pushed = 0
        pushed_f = 0
        for st in stmts:
            if self.hook is not None:
                self.hook(st, cur)
            if isinstance(st, ast.Expr):
                if isinstance(st.value, ast.Constant):
                    continue  # docstring
                if isinstance(st.value, ast.Call):
                    self._call(st.value, st, cur)
                    continue
                self.fail(st, "expression statement")
            elif isinstance(st, ast.Assign):
                for tgt in st.targets:
                    self._assign(tgt, st.value, st, cur)
            elif isinstance(st, ast.AugAssign):
                binop = ast.BinOp(left=_load(st.target), op=st.op, right=st.value)
                ast.copy_location(binop, st)
                ast.fix_missing_locations(binop)
                self._assign(st.target, binop, st, cur, aug=True)
            elif isinstance(st, ast.For):
                cur = self._for(st, cur)
            elif isinstance(st, ast.If):
                self._if(st, cur)
                # an arm that leaves the block makes the complement hold for the rest of the block
                if self._terminates(st.body) and not st.orelse:
                    ks = self._test_keys(st.test, False)
                    self._guards.extend(ks)
                    pushed += len(ks)
                    fs = self._test_facts(st.test, False)
                    self._facts.extend(fs)
                    pushed_f += len(fs)
                elif st.orelse and self._terminates(st.orelse) and not self._terminates(st.body):
                    ks = self._test_keys(st.test, True)
                    self._guards.extend(ks)
                    pushed += len(ks)
                    fs = self._test_facts(st.test, True)
                    self._facts.extend(fs)
                    pushed_f += len(fs)
            elif isinstance(st, ast.Return):
                self.returns.append(st)
                val = None
                if st.value is not None:
                    try:
                        val = self.N().norm(st.value)
                    except Unsupported:
                        val = None
                vals = None
                if isinstance(st.value, ast.Tuple):
                    try:
                        vals = [self.N().norm(e) for e in st.value.elts]
                    except Unsupported:
                        vals = None
                self.exits.append(ExitEvent("return", st, cur, tuple(self._guards), self._next_seq(), val, vals))
            elif isinstance(st, (ast.Break, ast.Continue)):
                self.exits.append(ExitEvent("break" if isinstance(st, ast.Break) else "continue", st, cur,
                                            tuple(self._guards), self._next_seq()))
            elif isinstance(st, (ast.Pass, ast.Assert)):
                continue
            else:
                if self.strict:
                    self.fail(st, f"statement kind {type(st).__name__}")
        for _ in range(pushed):
            self._guards.pop()
        for _ in range(pushed_f):
            self._facts.pop()

    def _if(self, st: ast.If, region: Region):
        for arm, body in ((True, st.body), (False, st.orelse)):
            if not body:
                continue
            ks = self._test_keys(st.test, arm)
            self._guards.extend(ks)
            fs = self._test_facts(st.test, arm)
            self._facts.extend(fs)
            saved_env = dict(self.env)
            saved_cells = dict(self.cells)
            arm_start = getattr(self, "_arm_start", None)
            if arm_start is not None:
                arm_start()
            self._block(body, region)
            arm_end = getattr(self, "_arm_end", None)
            if arm_end is not None:
                arm_end()
            assigned = _assigned_names(body)
            self.env = {k: v for k, v in saved_env.items() if k not in assigned}
            self.cells = saved_cells
            for _ in ks:
                self._guards.pop()
            for _ in fs:
                self._facts.pop()
        # cells written in an arm are unknown afterwards
        written = set()
        for s in ast.walk(st):
            if isinstance(s, (ast.Assign, ast.AugAssign)):
                for t in (s.targets if isinstance(s, ast.Assign) else [s.target]):
                    if isinstance(t, ast.Subscript) and isinstance(t.value, ast.Name):
                        written.add(t.value.id)
        self.cells = {k: v for k, v in self.cells.items() if k.split("[")[0] not in written}

    def _for(self, st: ast.For, cur: Region) -> Region:
        if st.orelse:
            self.fail(st, "for-else")
        if not isinstance(st.target, ast.Name):
            self.fail(st, "loop target is not a name")
        rng = None
        iter_key = None
        is_range = isinstance(st.iter, ast.Call) and ast.unparse(st.iter.func) in ("range", "numba.prange", "prange")
        try:
            if is_range:
                rng = [self.N().norm(a) for a in st.iter.args]
            else:
                iter_key = self.N().norm(st.iter).key()
        except Unsupported as exc:
            self.fail(st, str(exc))
        loop = Region("loop", self._next_ord(), st.target.id, rng, st, parent=cur if cur.kind == "loop" else cur.parent,
                      iter_key=iter_key)
        self.regions.append(loop)
        saved = dict(self.env)
        saved_cells = dict(self.cells)
        assigned = _assigned_names(st.body) | {st.target.id}
        # values assigned in the body are loop-carried: unknown at loop entry
        self.env = {k: v for k, v in self.env.items() if k not in assigned}
        written = {t.value.id for s in ast.walk(st) if isinstance(s, (ast.Assign, ast.AugAssign))
                   for t in (s.targets if isinstance(s, ast.Assign) else [s.target])
                   if isinstance(t, ast.Subscript) and isinstance(t.value, ast.Name)}
        self.cells = {k: v for k, v in self.cells.items() if k.split("[")[0] not in written}
        if self.by_name:
            atom = st.target.id
        else:
            atom = self.loop_atom if not loop.chain()[:-1] else f"{self.loop_atom}{len(loop.chain())}"
        if is_range:
            self.env[st.target.id] = Rat.atom(atom)
        else:
            self.env[st.target.id] = Rat.atom(f"elem[{iter_key}]")
        self._block(st.body, loop)
        self.env = {k: v for k, v in saved.items() if k not in assigned}
        self.cells = {k: v for k, v in saved_cells.items() if k.split("[")[0] not in written}
        nxt = Region("line", self._next_ord(), parent=cur.parent if cur.kind == "line" else cur)
        if cur.kind == "line":
            self.regions.append(nxt)
            return nxt
        return cur

    def _call(self, call: ast.Call, st, region):
        f = ast.unparse(call.func).split(".")[-1]
        args = []
        for a in call.args:
            try:
                args.append(self.N().norm(a).key())
            except Unsupported:
                args.append(ast.unparse(a))
        self.calls.append(CallEvent(f, call, st, region, tuple(self._guards), self._next_seq(), args))
        # np.round(a, 0, out) writes `out`
        if f == "round" and len(call.args) == 3 and isinstance(call.args[2], ast.Name):
            nm = call.args[2].id
            self.cells = {k: v for k, v in self.cells.items() if k.split("[")[0] != nm}
        if f == "append" and isinstance(call.func, ast.Attribute) and isinstance(call.func.value, ast.Name):
            self.env.pop(call.func.value.id, None)

    def _assign(self, target, value, st, region, aug=False):
        if isinstance(target, ast.Name):
            name = target.id
            if name in self.keep:
                self.env.pop(name, None)
                return
            if (self._is_alloc(value) or name in self.mutated or name in self.arrays) and not aug:
                self.allocs[name] = value
                self.alloc_stmts[name] = st
                self.env.pop(name, None)
                self.cells = {k: v for k, v in self.cells.items() if k.split("[")[0] != name}
                try:
                    r = self.N().norm(value)
                    self.arrays_assigned.setdefault(name, []).append((r, st, tuple(self._guards), self._next_seq()))
                except Unsupported:
                    pass
                return
            try:
                r = self.N().norm(value)
            except Unsupported as exc:
                if self.strict:
                    self.fail(st, str(exc))
                self.env.pop(name, None)
                return
            self.env[name] = r
            self.cells = {k: v for k, v in self.cells.items() if k.split("[")[0] != name}
            self.scalars.setdefault(name, []).append(ScalarDef(name, r, st, region, tuple(self._guards), self._next_seq(), aug))
        elif isinstance(target, ast.Tuple) and isinstance(value, ast.Attribute) and value.attr == "shape":
            base = self.N()._base_key(value.value)
            for k, t in enumerate(target.elts):
                if isinstance(t, ast.Name):
                    self.env[t.id] = Rat.atom(f"len{k}[{base}]")
        elif isinstance(target, ast.Tuple) and isinstance(value, ast.Tuple) and len(target.elts) == len(value.elts):
            vals = []
            for v in value.elts:
                try:
                    vals.append(self.N().norm(v))
                except Unsupported as exc:
                    self.fail(st, str(exc))
            for t, r in zip(target.elts, vals):
                if isinstance(t, ast.Name):
                    self.env[t.id] = r
                    self.scalars.setdefault(t.id, []).append(ScalarDef(t.id, r, st, region, tuple(self._guards), self._next_seq()))
                elif isinstance(t, ast.Subscript) and isinstance(t.value, ast.Name):
                    idx = self.N().norm(t.slice) if not isinstance(t.slice, (ast.Slice, ast.Tuple)) else Rat.atom(self.N().idx_key(t.slice))
                    self.stores.append(Store(t.value.id, idx, r, st, region, self._next_seq(), tuple(self._guards),
                                             self._idxkey(t)))
        elif isinstance(target, ast.Tuple) and isinstance(value, ast.Call):
            # tuple unpacking of a call result: name_k = item_k[call]
            try:
                r = self.N().norm(value)
            except Unsupported as exc:
                self.fail(st, str(exc))
            for k, t in enumerate(target.elts):
                item = Rat.atom(f"item{k}[{r.key()}]")
                if isinstance(t, ast.Name):
                    self.env[t.id] = item
                    self.scalars.setdefault(t.id, []).append(ScalarDef(t.id, item, st, region, tuple(self._guards), self._next_seq()))
                elif isinstance(t, ast.Subscript) and isinstance(t.value, ast.Name):
                    idx = self.N().norm(t.slice) if not isinstance(t.slice, (ast.Slice, ast.Tuple)) else Rat.atom(self.N().idx_key(t.slice))
                    self.stores.append(Store(t.value.id, idx, item, st, region, self._next_seq(), tuple(self._guards),
                                             self._idxkey(t)))
        elif isinstance(target, ast.Subscript) and isinstance(target.value, ast.Name):
            try:
                N = self.N()
                sl = target.slice
                if isinstance(sl, (ast.Slice, ast.Tuple)):
                    idx = Rat.atom(N.idx_key(sl) if isinstance(sl, ast.Slice) else ",".join(N.idx_key(p) for p in sl.elts))
                else:
                    idx = N.norm(sl)
                rhs = N.norm(value)
            except Unsupported as exc:
                if self.strict:
                    self.fail(st, str(exc))
                return
            key = self._idxkey(target)
            self.stores.append(Store(target.value.id, idx, rhs, st, region, self._next_seq(), tuple(self._guards), key, aug))
            base = self.N()._base_key(target.value)
            if not isinstance(target.slice, ast.Slice) and not (isinstance(target.slice, ast.Tuple) and any(
                    isinstance(p, ast.Slice) for p in target.slice.elts)):
                # other cells of the same array may alias only if their keys are equal: keep distinct keys,
                # drop cells whose index is not a syntactically different constant
                self.cells = {k: v for k, v in self.cells.items() if k.split("[")[0] != base or self._distinct(k, f"{base}[{key}]")}
                self.cells[f"{base}[{key}]"] = rhs
            else:
                self.cells = {k: v for k, v in self.cells.items() if k.split("[")[0] != base}
        else:
            if self.strict:
                self.fail(st, "assignment target")

    def _idxkey(self, target: ast.Subscript) -> str:
        N = self.N()
        sl = target.slice
        parts = sl.elts if isinstance(sl, ast.Tuple) else [sl]
        return ",".join(N.idx_key(p) for p in parts)

    @staticmethod
    def _distinct(k1: str, k2: str) -> bool:
        """Two cell keys certainly denote different cells (both constant indices, different)."""
        i1, i2 = k1.split("[", 1)[1][:-1], k2.split("[", 1)[1][:-1]
        try:
            return [int(x) for x in i1.split(",")] != [int(x) for x in i2.split(",")]
        except ValueError:
            return False


def _assigned_names(stmts) -> set:
    out = set()
    for s in stmts:
        for n in ast.walk(s):
            if isinstance(n, ast.Name) and isinstance(n.ctx, ast.Store):
                out.add(n.id)
    return out


def _load(node):
    n = copy.deepcopy(node)
    for x in ast.walk(n):
        if hasattr(x, "ctx"):
            x.ctx = ast.Load()
    return n

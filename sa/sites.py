"""E9 — accessor -> kernel call-site table (apply_ufunc / map_blocks / direct calls)."""
from __future__ import annotations

import ast
from dataclasses import dataclass, field
from typing import Dict, List, Optional

from .core import AnalysisError, Repo
from .kernels import Kernel

ACC = "hdc.algo.accessors"
AFILE = "hdc/algo/accessors.py"


@dataclass
class Site:
    cls: str
    method: str
    kernel: str
    mode: str  # "apply_ufunc" | "map_blocks" | "direct"
    call: ast.Call
    args: List[ast.expr]  # data arguments bound to kernel parameters (positional, in order)
    kwargs: Dict[str, ast.expr]  # kernel kwargs (apply_ufunc kwargs={...} / map_blocks extra kwargs / direct keywords)
    opts: Dict[str, ast.expr]  # wrapper options (input_core_dims, dask, output_dtypes, ...)
    fn: ast.FunctionDef = None

    @property
    def line(self):
        return self.call.lineno

    def where(self):
        return f"{self.cls}.{self.method}"


UNRESOLVED: List[str] = []     # apply_ufunc / map_blocks calls whose kernel argument is not a direct reference (filled by load_sites)

MAP_BLOCKS_OPTS = {"dtype", "drop_axis", "new_axis", "chunks", "name", "meta", "token", "enforce_ndim", "align_arrays"}


def kernel_ref(node: ast.AST, kernels: Dict[str, Kernel]) -> Optional[str]:
    if isinstance(node, ast.Attribute) and isinstance(node.value, ast.Name) and node.value.id == "ops" and node.attr in kernels:
        return node.attr
    if isinstance(node, ast.Name) and node.id in kernels:
        return node.id
    return None


def load_sites(repo: Repo, kernels: Dict[str, Kernel]) -> List[Site]:
    m = repo.mod(ACC)
    sites: List[Site] = []
    for cls in m.tree.body:
        if not isinstance(cls, ast.ClassDef):
            continue
        for fn in cls.body:
            if not isinstance(fn, ast.FunctionDef):
                continue
            for c in ast.walk(fn):
                if not isinstance(c, ast.Call):
                    continue
                fname = ast.unparse(c.func)
                if fname in ("xarray.apply_ufunc", "apply_ufunc", "xr.apply_ufunc"):
                    k = kernel_ref(c.args[0], kernels) if c.args else None
                    if k is None:
                        # the kernel is chosen through a variable: the site cannot be bound here; the properties that need a site of this
                        # method miss it (their own floors / anchors report it), the others are not concerned
                        UNRESOLVED.append(f"{cls.name}.{fn.name}:{c.lineno}")
                        continue
                    opts = {kw.arg: kw.value for kw in c.keywords if kw.arg}
                    kwargs = {}
                    if isinstance(opts.get("kwargs"), ast.Dict):
                        kwargs = {kk.value: vv for kk, vv in zip(opts["kwargs"].keys, opts["kwargs"].values)
                                  if isinstance(kk, ast.Constant)}
                    sites.append(Site(cls.name, fn.name, k, "apply_ufunc", c, list(c.args[1:]), kwargs, opts, fn))
                elif fname in ("da.map_blocks", "dask.array.map_blocks"):
                    k = kernel_ref(c.args[0], kernels) if c.args else None
                    if k is None:
                        UNRESOLVED.append(f"{cls.name}.{fn.name}:{c.lineno}")
                        continue
                    opts = {kw.arg: kw.value for kw in c.keywords if kw.arg in MAP_BLOCKS_OPTS}
                    kwargs = {kw.arg: kw.value for kw in c.keywords if kw.arg and kw.arg not in MAP_BLOCKS_OPTS}
                    sites.append(Site(cls.name, fn.name, k, "map_blocks", c, list(c.args[1:]), kwargs, opts, fn))
                else:
                    k = kernel_ref(c.func, kernels)
                    if k is not None:
                        kwargs = {kw.arg: kw.value for kw in c.keywords if kw.arg}
                        sites.append(Site(cls.name, fn.name, k, "direct", c, list(c.args), kwargs, {}, fn))
    return sites


def const_list(node: Optional[ast.AST]):
    """Literal list-of-lists of strings/names -> python structure of source strings."""
    if node is None:
        return None
    if isinstance(node, (ast.List, ast.Tuple)):
        return [const_list(e) for e in node.elts]
    if isinstance(node, ast.Constant):
        return node.value
    return ast.unparse(node)

"""E3 — statement-level control-flow graph with dominators for the statement kinds
the repository uses (Assign, AugAssign, AnnAssign, Expr, If, For, While, Break, Continue,
Return, Raise, Assert, Pass, Try (conservative), With, nested defs summarised as a node).
"""
from __future__ import annotations

import ast
from typing import Callable, Dict, Iterable, List, Optional, Set

from .core import AnalysisError


class Node:
    __slots__ = ("id", "stmt", "kind", "succ", "pred", "label")

    def __init__(self, id, stmt, kind):
        self.id = id
        self.stmt = stmt  # ast node (statement, or If/For/While for heads)
        self.kind = kind  # "entry" | "exit" | "stmt" | "if" | "for" | "while" | "raise-exit"
        self.succ: List[tuple] = []  # (node, edge label)
        self.pred: List["Node"] = []

    def __repr__(self):
        s = ""
        if self.stmt is not None:
            s = ast.unparse(self.stmt).split("\n")[0][:50]
        return f"<{self.id}:{self.kind} {s}>"

    @property
    def line(self):
        return getattr(self.stmt, "lineno", 0)


class CFG:
    def __init__(self, fn: ast.FunctionDef):
        self.fn = fn
        self.nodes: List[Node] = []
        self.entry = self._new(None, "entry")
        self.exit = self._new(None, "exit")
        self.raise_exit = self._new(None, "raise-exit")
        self.of_stmt: Dict[int, Node] = {}
        ends = self._block(fn.body, [(self.entry, "")], None, None)
        for n, lab in ends:
            self._edge(n, self.exit, lab)
        self._dom = None
        self._pdom = None

    # ------------------------------------------------------------------ build
    def _new(self, stmt, kind):
        n = Node(len(self.nodes), stmt, kind)
        self.nodes.append(n)
        if stmt is not None:
            self.of_stmt[id(stmt)] = n
        return n

    def _edge(self, a: Node, b: Node, label=""):
        a.succ.append((b, label))
        b.pred.append(a)

    def _block(self, stmts, preds, loop_head, loop_exits):
        """preds: list of (node, label) that flow into the first statement. Returns list of open ends."""
        cur = preds
        for st in stmts:
            if not cur:
                break  # unreachable code after return/break
            cur = self._stmt(st, cur, loop_head, loop_exits)
        return cur

    def _stmt(self, st, preds, loop_head, loop_exits):
        if isinstance(st, ast.If):
            n = self._new(st, "if")
            for p, lab in preds:
                self._edge(p, n, lab)
            t = self._block(st.body, [(n, "true")], loop_head, loop_exits)
            f = self._block(st.orelse, [(n, "false")], loop_head, loop_exits) if st.orelse else [(n, "false")]
            return t + f
        if isinstance(st, (ast.For, ast.While)):
            n = self._new(st, "for" if isinstance(st, ast.For) else "while")
            for p, lab in preds:
                self._edge(p, n, lab)
            exits: List[tuple] = []
            body_end = self._block(st.body, [(n, "body")], n, exits)
            for p, lab in body_end:
                self._edge(p, n, "back")
            out = [(n, "exit")]
            if st.orelse:
                out = self._block(st.orelse, out, loop_head, loop_exits)
            return out + exits
        if isinstance(st, ast.Break):
            n = self._new(st, "stmt")
            for p, lab in preds:
                self._edge(p, n, lab)
            if loop_exits is None:
                raise AnalysisError("break outside loop")
            loop_exits.append((n, "break"))
            return []
        if isinstance(st, ast.Continue):
            n = self._new(st, "stmt")
            for p, lab in preds:
                self._edge(p, n, lab)
            self._edge(n, loop_head, "continue")
            return []
        if isinstance(st, ast.Return):
            n = self._new(st, "stmt")
            for p, lab in preds:
                self._edge(p, n, lab)
            self._edge(n, self.exit, "return")
            return []
        if isinstance(st, ast.Raise):
            n = self._new(st, "stmt")
            for p, lab in preds:
                self._edge(p, n, lab)
            self._edge(n, self.raise_exit, "raise")
            return []
        if isinstance(st, ast.Try):
            # conservative: body statements may jump to any handler
            n = self._new(st, "stmt")
            for p, lab in preds:
                self._edge(p, n, lab)
            body_end = self._block(st.body, [(n, "try")], loop_head, loop_exits)
            ends = list(body_end)
            for h in st.handlers:
                hp = [(n, "except")]
                for sub in ast.walk(ast.Module(body=st.body, type_ignores=[])):
                    nn = self.of_stmt.get(id(sub))
                    if nn is not None:
                        hp.append((nn, "except"))
                ends += self._block(h.body, hp, loop_head, loop_exits)
            if st.orelse:
                ends = [e for e in ends if e not in body_end] + self._block(st.orelse, body_end, loop_head, loop_exits)
            if st.finalbody:
                ends = self._block(st.finalbody, ends, loop_head, loop_exits)
            return ends
        if isinstance(st, ast.With):
            n = self._new(st, "stmt")
            for p, lab in preds:
                self._edge(p, n, lab)
            return self._block(st.body, [(n, "")], loop_head, loop_exits)
        # simple statements (incl. nested FunctionDef/ClassDef as one node)
        n = self._new(st, "stmt")
        for p, lab in preds:
            self._edge(p, n, lab)
        return [(n, "")]

    # ------------------------------------------------------------------ queries
    def node_of(self, stmt) -> Node:
        n = self.of_stmt.get(id(stmt))
        if n is None:
            raise AnalysisError(f"statement not in CFG (unreachable?): {ast.unparse(stmt)[:60]}")
        return n

    def _dominators(self, entry: Node, succ: Callable[[Node], Iterable[Node]], pred: Callable[[Node], Iterable[Node]]):
        # iterative set-based algorithm (functions have < 200 nodes)
        reach = []
        seen = set()
        stack = [entry]
        while stack:
            x = stack.pop()
            if x.id in seen:
                continue
            seen.add(x.id)
            reach.append(x)
            stack.extend(succ(x))
        allids = {n.id for n in reach}
        dom = {n.id: set(allids) for n in reach}
        dom[entry.id] = {entry.id}
        changed = True
        while changed:
            changed = False
            for n in reach:
                if n is entry:
                    continue
                ps = [p for p in pred(n) if p.id in allids]
                new = set(allids)
                for p in ps:
                    new &= dom[p.id]
                new = new | {n.id}
                if new != dom[n.id]:
                    dom[n.id] = new
                    changed = True
        return dom

    def dominators(self):
        if self._dom is None:
            self._dom = self._dominators(self.entry, lambda n: [s for s, _ in n.succ], lambda n: n.pred)
        return self._dom

    def dominates(self, a: Node, b: Node) -> bool:
        d = self.dominators()
        return b.id in d and a.id in d[b.id]

    def reachable_from(self, start: Node, avoid: Optional[Set[int]] = None, edge_ok=None) -> Set[int]:
        """Node ids reachable from `start` (exclusive of start unless on a cycle) without entering `avoid`."""
        avoid = avoid or set()
        seen: Set[int] = set()
        stack = [s for s, lab in start.succ if (edge_ok is None or edge_ok(start, s, lab))]
        while stack:
            x = stack.pop()
            if x.id in seen or x.id in avoid:
                continue
            seen.add(x.id)
            for s, lab in x.succ:
                if edge_ok is None or edge_ok(x, s, lab):
                    stack.append(s)
        return seen

    def must_pass(self, start: Node, through: Set[int], target: Optional[Node] = None) -> bool:
        """Every path from `start` to `target` (default: normal exit) passes a node in `through`."""
        target = target or self.exit
        if start.id in through:
            return True
        return target.id not in self.reachable_from(start, avoid=through)

    def stmt_nodes(self) -> List[Node]:
        return [n for n in self.nodes if n.stmt is not None]

    def guards_of(self, node: Node) -> List[tuple]:
        """Branch conditions that dominate `node` together with the arm taken:
        [(if_node, True|False)] — an if-node dominates with a definite arm when every path
        from it to `node` leaves through the same labelled edge."""
        out = []
        for n in self.nodes:
            if n.kind != "if" or n is node or not self.dominates(n, node):
                continue
            arms = set()
            for s, lab in n.succ:
                if s is node or node.id in self.reachable_from_node_inclusive(s, stop=n):
                    arms.add(lab)
            if len(arms) == 1:
                out.append((n, arms.pop() == "true"))
        return out

    def reachable_from_node_inclusive(self, start: Node, stop: Optional[Node] = None) -> Set[int]:
        seen: Set[int] = set()
        stack = [start]
        while stack:
            x = stack.pop()
            if x.id in seen or (stop is not None and x is stop):
                continue
            seen.add(x.id)
            stack.extend(s for s, _ in x.succ)
        return seen


def enclosing_loops(fn: ast.FunctionDef) -> Dict[int, List[ast.AST]]:
    """id(stmt) -> list of enclosing For/While nodes (outermost first)."""
    out: Dict[int, List[ast.AST]] = {}

    def walk(stmts, stack):
        for st in stmts:
            out[id(st)] = list(stack)
            if isinstance(st, (ast.For, ast.While)):
                walk(st.body, stack + [st])
                walk(st.orelse, stack)
            elif isinstance(st, ast.If):
                walk(st.body, stack)
                walk(st.orelse, stack)
            elif isinstance(st, ast.Try):
                walk(st.body, stack)
                for h in st.handlers:
                    walk(h.body, stack)
                walk(st.orelse, stack)
                walk(st.finalbody, stack)
            elif isinstance(st, ast.With):
                walk(st.body, stack)

    walk(fn.body, [])
    return out

"""Reaching definitions for local names on the statement CFG (helper of several rules)."""
from __future__ import annotations

import ast
from typing import Dict, List, Set, Tuple

from .cfg import CFG, Node


def defs_of_node(n: Node) -> Set[str]:
    """Names (re)bound at this CFG node (whole-name definitions only)."""
    st = n.stmt
    out: Set[str] = set()
    if st is None:
        return out
    if n.kind == "for":
        for t in ast.walk(st.target):
            if isinstance(t, ast.Name):
                out.add(t.id)
        return out
    if n.kind in ("if", "while"):
        for t in ast.walk(st.test):
            if isinstance(t, ast.NamedExpr) and isinstance(t.target, ast.Name):
                out.add(t.target.id)
        return out
    if isinstance(st, ast.Assign):
        for tgt in st.targets:
            for t in ([tgt] if isinstance(tgt, ast.Name) else (tgt.elts if isinstance(tgt, (ast.Tuple, ast.List)) else [])):
                if isinstance(t, ast.Name):
                    out.add(t.id)
                elif isinstance(t, ast.Starred) and isinstance(t.value, ast.Name):
                    out.add(t.value.id)
    elif isinstance(st, ast.AugAssign) and isinstance(st.target, ast.Name):
        out.add(st.target.id)
    elif isinstance(st, ast.AnnAssign) and isinstance(st.target, ast.Name) and st.value is not None:
        out.add(st.target.id)
    elif isinstance(st, (ast.Import, ast.ImportFrom)):
        for a in st.names:
            out.add((a.asname or a.name).split(".")[0])
    elif isinstance(st, (ast.FunctionDef, ast.ClassDef)):
        out.add(st.name)
    for t in ast.walk(st) if not isinstance(st, (ast.FunctionDef, ast.ClassDef, ast.If, ast.For, ast.While, ast.Try, ast.With)) else []:
        if isinstance(t, ast.NamedExpr) and isinstance(t.target, ast.Name):
            out.add(t.target.id)
    return out


class ReachingDefs:
    """IN[n] = set of (name, def-node-id); parameters are defined at the entry node."""

    def __init__(self, cfg: CFG):
        self.cfg = cfg
        params = [a.arg for a in cfg.fn.args.args + cfg.fn.args.kwonlyargs]
        if cfg.fn.args.vararg:
            params.append(cfg.fn.args.vararg.arg)
        if cfg.fn.args.kwarg:
            params.append(cfg.fn.args.kwarg.arg)
        self.gen: Dict[int, Set[str]] = {n.id: defs_of_node(n) for n in cfg.nodes}
        self.gen[cfg.entry.id] = set(params)
        self.IN: Dict[int, Set[Tuple[str, int]]] = {n.id: set() for n in cfg.nodes}
        self.OUT: Dict[int, Set[Tuple[str, int]]] = {n.id: set() for n in cfg.nodes}
        changed = True
        while changed:
            changed = False
            for n in cfg.nodes:
                inn = set()
                for p in n.pred:
                    inn |= self.OUT[p.id]
                g = self.gen[n.id]
                out = {(nm, d) for nm, d in inn if nm not in g} | {(nm, n.id) for nm in g}
                if inn != self.IN[n.id] or out != self.OUT[n.id]:
                    self.IN[n.id], self.OUT[n.id] = inn, out
                    changed = True

    def reaching(self, node: Node, name: str) -> List[Node]:
        """Definition nodes of `name` that reach the *use* at `node` (a self-referencing
        statement such as `x += 1` sees the definitions flowing in)."""
        return [self.cfg.nodes[d] for nm, d in self.IN[node.id] if nm == name]

"""Alpha-renaming of local variables towards the reference names (rename-robustness of every check).

Many rules name a local variable of today's code (`r_weights`, `lambda_range`, `Sxx`, `tix`, ...).  A maintainer who renames a
local changes nothing a user can observe, so a check must not alarm.  Instead of making every rule guess roles, the loader
renames the locals of every function *back* to the names recorded for the reference tree (`ref/names.json`, generated from the
tree the checks were written against by `tools/gen_refnames.py`) whenever it can align them.

Soundness does not depend on the alignment being "right": ANY injective renaming of a function's local variables that does not
collide with its parameters, globals, builtins or attribute names yields an alpha-equivalent program, and every rule is decided
on that equivalent program.  The alignment only decides which equivalent program is looked at; a bad alignment can cost a
spurious report, never a missed one.

Alignment: locals are listed in order of first binding, each with a fingerprint of the binding statement in which every local
name is replaced by a placeholder (so a pure rename keeps all fingerprints).  The two lists (reference, current) are aligned by
longest common subsequence on the fingerprints; aligned pairs with different names are renamed current -> reference, provided
the result stays injective and collision-free.  Inserted or removed temporaries simply stay unaligned.
"""
from __future__ import annotations

import ast
import builtins
import json
from pathlib import Path
from typing import Dict, List, Optional, Set, Tuple

REF = Path(__file__).resolve().parent.parent / "ref" / "names.json"


def _function_nodes(tree: ast.Module):
    """(qualified name, FunctionDef) for top-level functions and methods of top-level classes."""
    for n in tree.body:
        if isinstance(n, ast.FunctionDef):
            yield n.name, n
        elif isinstance(n, ast.ClassDef):
            for m in n.body:
                if isinstance(m, ast.FunctionDef):
                    yield f"{n.name}.{m.name}", m


def _params(fn: ast.FunctionDef) -> Set[str]:
    a = fn.args
    out = {x.arg for x in a.posonlyargs + a.args + a.kwonlyargs}
    if a.vararg:
        out.add(a.vararg.arg)
    if a.kwarg:
        out.add(a.kwarg.arg)
    return out


def _inner_params(fn: ast.FunctionDef) -> Set[str]:
    out: Set[str] = set()
    for n in ast.walk(fn):
        if n is fn:
            continue
        if isinstance(n, (ast.FunctionDef, ast.Lambda)):
            a = n.args
            out |= {x.arg for x in a.posonlyargs + a.args + a.kwonlyargs}
            if isinstance(n, ast.FunctionDef):
                out.add(n.name)
    return out


class _Mask(ast.NodeTransformer):
    def __init__(self, locals_: Set[str]):
        self.locals = locals_

    def visit_Name(self, node):
        if node.id in self.locals:
            return ast.copy_location(ast.Name(id="_", ctx=ast.Load()), node)
        return ast.copy_location(ast.Name(id=node.id, ctx=ast.Load()), node)


def _fingerprint(stmt: ast.AST, locals_: Set[str], role: str) -> str:
    import copy
    s = copy.deepcopy(stmt)
    if isinstance(s, (ast.For, ast.While, ast.If, ast.With, ast.Try)):
        # only the header of a compound statement
        if isinstance(s, ast.For):
            s = ast.Tuple(elts=[s.target, s.iter], ctx=ast.Load())
        elif isinstance(s, ast.With):
            s = ast.Tuple(elts=[i.context_expr for i in s.items], ctx=ast.Load())
        else:
            s = getattr(s, "test", ast.Constant(value=None))
    s = _Mask(locals_).visit(s)
    return role + ":" + ast.dump(s, annotate_fields=False, include_attributes=False)


def local_bindings(fn: ast.FunctionDef) -> List[Tuple[str, str]]:
    """[(name, fingerprint)] of the function's local variables in order of first binding."""
    params = _params(fn)
    skip = _inner_params(fn)
    stores: List[Tuple[int, int, str, ast.AST, str]] = []
    par: Dict[int, ast.AST] = {}
    for p in ast.walk(fn):
        for c in ast.iter_child_nodes(p):
            par[id(c)] = p
    all_locals: Set[str] = set()
    glob: Set[str] = set()
    for n in ast.walk(fn):
        if isinstance(n, (ast.Global, ast.Nonlocal)):
            glob |= set(n.names)
    for n in ast.walk(fn):
        if isinstance(n, ast.Name) and isinstance(n.ctx, ast.Store) and n.id not in params and n.id not in skip and n.id not in glob:
            all_locals.add(n.id)
    for n in ast.walk(fn):
        if isinstance(n, ast.Name) and isinstance(n.ctx, ast.Store) and n.id in all_locals:
            st = n
            while id(st) in par and not isinstance(st, (ast.stmt, ast.comprehension, ast.NamedExpr)):
                st = par[id(st)]
            # position of the name among the store targets of that statement (tuple unpacking)
            tg = [x.id for x in ast.walk(st) if isinstance(x, ast.Name) and isinstance(x.ctx, ast.Store)]
            pos = tg.index(n.id) if n.id in tg else 0
            stores.append((n.lineno, n.col_offset, n.id, st, f"{type(st).__name__}#{pos}", id(n)))
    if getattr(fn, "_verif_spliced", False):
        # statements spliced in from a helper keep the helper's line numbers: order by position in the tree instead
        order: Dict[int, int] = {}

        def dfs(node):
            order[id(node)] = len(order)
            for ch in ast.iter_child_nodes(node):
                dfs(ch)
        dfs(fn)
        stores.sort(key=lambda t: order[t[5]])
    else:
        stores.sort(key=lambda t: (t[0], t[1]))
    stores = [t[:5] for t in stores]
    seen: Set[str] = set()
    out: List[Tuple[str, str]] = []
    for _, _, name, st, role in stores:
        if name in seen:
            continue
        seen.add(name)
        out.append((name, _fingerprint(st, all_locals, role)))
    return out


def _lcs(a: List[str], b: List[str]) -> List[Tuple[int, int]]:
    n, m = len(a), len(b)
    L = [[0] * (m + 1) for _ in range(n + 1)]
    for i in range(n - 1, -1, -1):
        for j in range(m - 1, -1, -1):
            L[i][j] = L[i + 1][j + 1] + 1 if a[i] == b[j] else max(L[i + 1][j], L[i][j + 1])
    out, i, j = [], 0, 0
    while i < n and j < m:
        if a[i] == b[j]:
            out.append((i, j))
            i += 1
            j += 1
        elif L[i + 1][j] >= L[i][j + 1]:
            i += 1
        else:
            j += 1
    return out


def rename_map(fn: ast.FunctionDef, ref: List[List[str]]) -> Dict[str, str]:
    """current local name -> reference name, for the locals that align with a differently named reference local."""
    cur = local_bindings(fn)
    if not cur or not ref:
        return {}
    cur_names = [c[0] for c in cur]
    ref_names = [r[0] for r in ref]
    if set(cur_names) == set(ref_names):
        return {}
    # names present on both sides are anchors: keep them, align only the rest (in order, by fingerprint)
    common = set(cur_names) & set(ref_names)
    cur_rest = [(n, f) for n, f in cur if n not in common]
    ref_rest = [(n, f) for n, f in ref if n not in common]
    pairs = _lcs([f for _, f in ref_rest], [f for _, f in cur_rest])
    mapping: Dict[str, str] = {}
    used_targets: Set[str] = set()
    # every identifier the function mentions (names, attributes are not affected by Name renaming but parameters/globals are)
    mentioned = {n.id for n in ast.walk(fn) if isinstance(n, ast.Name)} | _params(fn) | _inner_params(fn)
    for i, j in pairs:
        rn, cn = ref_rest[i][0], cur_rest[j][0]
        if rn == cn or rn in used_targets or cn in mapping:
            continue
        if rn in mentioned or hasattr(builtins, rn):
            continue  # would capture another variable
        mapping[cn] = rn
        used_targets.add(rn)
    return mapping


class _Rename(ast.NodeTransformer):
    def __init__(self, mapping: Dict[str, str]):
        self.m = mapping

    def visit_Name(self, node):
        if node.id in self.m:
            node.id = self.m[node.id]
        return node


def load_reference() -> Dict[str, Dict[str, List[List[str]]]]:
    if not REF.exists():
        return {}
    return json.loads(REF.read_text())


def canonicalise(dotted: str, tree: ast.Module, reference: Optional[dict] = None) -> Dict[str, Dict[str, str]]:
    """Rename locals of every function of `tree` in place; returns {qualified function: {current: reference}}."""
    reference = load_reference() if reference is None else reference
    refmod = reference.get(dotted, {})
    applied: Dict[str, Dict[str, str]] = {}
    if not refmod:
        return applied
    is_pkg = bool(getattr(tree, "_verif_is_pkg", False))
    strip_local_annotations(tree)
    ni_ = canonical_imports(dotted, tree, refmod.get("<imports>", {}), is_pkg)
    mc_ = inline_module_constants(tree, set(refmod.get("<globals>", [])), set(import_table(dotted, tree, is_pkg)))
    pp_ = getattr(tree, "_verif_params", {})
    if ni_ or mc_ or pp_:
        applied["<module>"] = {f"{ni_} import spellings, constants {mc_}, private params {pp_}": ""}
    inl = inline_new_helpers(tree, {k for k in refmod if not k.startswith('<')}, refmod.get('<calls>'))
    if inl:
        applied["<inlined helpers>"] = {x: "" for x in inl}
    keep_ifexp = refmod.get("<ifexp>", {})
    for q, fn in _function_nodes(tree):
        ref = refmod.get(q)
        if ref is None:
            continue
        nw = while_to_for(fn) + enumerate_to_range(fn) + split_walrus_and(fn)
        nw += sink_final_return(fn, refmod.get("<returns>", {}).get(q, 0))
        if refmod.get("<lambdas>", {}).get(q):
            nw += def_to_lambda(fn, set(refmod.get("<nested>", {}).get(q, [])))
        ni = ifexp_to_if(fn, set(keep_ifexp.get(q, []))) + if_to_ifexp(fn, set(keep_ifexp.get(q, [])))
        ni += whole_array_rhs(fn) + nonzero_to_where(fn) + unit_shape_tuple(fn)
        ni += split_const_tuple_assign(fn) + format_to_fstring(fn) + element_augassign(fn)

        ni += unguard_continue(fn)
        if nw or ni:
            applied.setdefault(q, {})[f"<{nw} while->for, {ni} ifexp->if>"] = ""
        m = rename_map(fn, ref) if ref else {}
        if m:
            _Rename(m).visit(fn)
            applied.setdefault(q, {}).update(m)
        # (after the renaming: "new" means not a reference local under any name)
        nsp = unpack_indexed_tuple(fn, tree, {r[0] for r in ref}) + split_conditional_temp(fn, {r[0] for r in ref})
        if nsp:
            applied.setdefault(q, {})[f"<{nsp} tuple-index / conditional temporaries resolved>"] = ""
            m3 = rename_map(fn, ref) if ref else {}
            if m3:
                _Rename(m3).visit(fn)
                applied[q].update(m3)
        nrc = range_to_counter(fn, refmod.get("<counterloops>", {}).get(q, []))
        if nrc:
            applied.setdefault(q, {})[f"<{nrc} range loops -> element loops with a counter>"] = ""
        nflip = orient_compares(fn, set(refmod.get("<compares>", {}).get(q, [])))
        if nflip:
            applied.setdefault(q, {})[f"<{nflip} comparisons re-oriented>"] = ""
        # one temporary at a time: a definition that becomes equal to a reference definition once its operand is substituted is a renamed
        # reference local (aligned by the next rename_map), not a new temporary
        for _round in range(40):
            tmp = inline_new_temporaries(fn, {r[0] for r in ref}, limit=1)
            if not tmp:
                if loop_to_listcomp(fn, {r[0] for r in ref}):
                    applied.setdefault(q, {})["<list-building loop -> comprehension>"] = ""
                    continue
                break
            applied.setdefault(q, {}).update({f"<inlined temporary {t}>": "" for t in tmp})
            m2 = rename_map(fn, ref) if ref else {}
            if m2:
                _Rename(m2).visit(fn)
                applied[q].update(m2)
            orient_compares(fn, set(refmod.get("<compares>", {}).get(q, [])))
    return applied


# =====================================================================================================================
# Reference-guided structural normalisation: helpers and temporaries that the reference tree does not have are inlined.
# Both are no-ops on the reference tree itself (nothing is "new" there), so the rules keep seeing exactly the code they
# were written against; on a refactored tree they undo "extract helper" / "introduce temporary" / "collect kwargs in a dict".
# Every step is an equivalence-preserving source transformation under stated side conditions; when a side condition
# cannot be established the construct is left alone (the rules then judge the code as written).
# =====================================================================================================================

PURE_CALLS = {"len", "abs", "min", "max", "float", "int", "log", "log10", "sqrt", "exp", "float64", "float32", "int64", "int32", "int16", "bool",
              "np.log", "np.log10", "np.sqrt", "np.exp", "np.abs", "np.sum", "np.float64", "np.float32", "np.arange", "np.dtype", "np.isnan", "np.isinf",
              "np.isfinite", "np.cos", "np.sin", "np.zeros", "np.ones", "numpy.log", "str", "tuple", "dict", "isinstance", "np.diff", "np.any", "np.all",
              "gammainc", "ndtri", "digamma", "erf", "hypot", "np.hypot", "cos", "sin", "isnan", "isinf", "np.where", "np.unique", "np.median", "np.nanmedian",
              "np.searchsorted", "np.sort", "np.log1p", "timedelta", "datetime", "date", "np.datetime64", "np.timedelta64", "sc.gammainc", "sc.ndtri", "sc.digamma", "math.erf", "math.sqrt", "math.log", "range", "enumerate", "zip"}
PURE_METHODS = {"sum", "any", "all", "copy", "astype", "get", "mean", "min", "max", "get_index", "to_index", "notnull", "isnull", "items", "keys", "values"}


def _is_pure(e: ast.AST) -> bool:
    for n in ast.walk(e):
        if isinstance(n, (ast.Yield, ast.YieldFrom, ast.Await, ast.NamedExpr, ast.Lambda)):
            return False
        if isinstance(n, ast.Call):
            f = ast.unparse(n.func)
            if f in PURE_CALLS:
                continue
            if isinstance(n.func, ast.Attribute) and n.func.attr in PURE_METHODS:
                continue
            return False
    return True


def _stores_in(nodes) -> Set[str]:
    """Names assigned, or stored into through a subscript / attribute / augmented assignment, anywhere in `nodes`."""
    out: Set[str] = set()
    for root in nodes:
        for n in ast.walk(root):
            if isinstance(n, ast.Name) and isinstance(n.ctx, (ast.Store, ast.Del)):
                out.add(n.id)
            elif isinstance(n, (ast.Subscript, ast.Attribute)) and isinstance(n.ctx, (ast.Store, ast.Del)):
                b = n
                while isinstance(b, (ast.Subscript, ast.Attribute)):
                    b = b.value
                if isinstance(b, ast.Name):
                    out.add(b.id)
            elif isinstance(n, ast.AugAssign):
                b = n.target
                while isinstance(b, (ast.Subscript, ast.Attribute)):
                    b = b.value
                if isinstance(b, ast.Name):
                    out.add(b.id)
            elif isinstance(n, ast.Call) and ast.unparse(n.func).split(".")[-1] == "round" and len(n.args) == 3 and isinstance(n.args[2], ast.Name):
                out.add(n.args[2].id)       # np.round(a, 0, out)
    return out


class _Subst(ast.NodeTransformer):
    def __init__(self, mapping: Dict[str, ast.AST]):
        self.m = mapping

    def visit_Name(self, node):
        if isinstance(node.ctx, ast.Load) and node.id in self.m:
            import copy
            return ast.copy_location(copy.deepcopy(self.m[node.id]), node)
        return node


def _blocks(fn: ast.AST):
    """Every statement list of `fn` (bodies, orelse, handlers, finalbody), outermost first."""
    for n in ast.walk(fn):
        for fld in ("body", "orelse", "finalbody"):
            b = getattr(n, fld, None)
            if isinstance(b, list) and b and isinstance(b[0], ast.stmt):
                yield n, b
        if isinstance(n, ast.Try):
            for h in n.handlers:
                yield h, h.body


def inline_new_temporaries(fn: ast.FunctionDef, ref_names: Set[str], limit: int = 0) -> List[str]:
    """Forward-substitute locals the reference function does not have: `t = <pure expr>` defined once, read only later in the same
    block (or blocks nested in it), with no operand of the expression re-assigned or stored into in between."""
    done: List[str] = []
    changed = True
    while changed:
        changed = False
        params = _params(fn)
        all_stores: Dict[str, int] = {}
        for n in ast.walk(fn):
            if isinstance(n, ast.Name) and isinstance(n.ctx, (ast.Store, ast.Del)):
                all_stores[n.id] = all_stores.get(n.id, 0) + 1
        for owner, block in _blocks(fn):
            for i, st in enumerate(block):
                if not (isinstance(st, ast.Assign) and len(st.targets) == 1 and isinstance(st.targets[0], ast.Name)):
                    continue
                t = st.targets[0].id
                if t in ref_names or t in params or all_stores.get(t, 0) != 1 or not _is_pure(st.value):
                    continue
                rest = block[i + 1:]
                # every read of t lies in `rest`
                reads_all = [n for n in ast.walk(fn) if isinstance(n, ast.Name) and n.id == t and isinstance(n.ctx, ast.Load)]
                reads_rest = [n for r in rest for n in ast.walk(r) if isinstance(n, ast.Name) and n.id == t and isinstance(n.ctx, ast.Load)]
                if len(reads_all) != len(reads_rest) or not reads_all:
                    continue
                fresh_call = isinstance(st.value, ast.Call) and ast.unparse(st.value.func).split(".")[-1] in (
                    "zeros", "ones", "empty", "full", "copy", "array", "zeros_like", "ones_like", "empty_like", "full_like", "arange", "astype", "list", "dict", "set",
                    "DataArray", "Dataset", "asarray", "ascontiguousarray")
                if fresh_call:
                    # a freshly allocated array has identity too: one read, not re-evaluated per iteration of a loop below the definition
                    def _in_loop(target) -> bool:
                        for r in rest:
                            for lp in ast.walk(r):
                                if isinstance(lp, (ast.For, ast.While, ast.ListComp, ast.SetComp, ast.DictComp, ast.GeneratorExp, ast.Lambda, ast.FunctionDef)) and \
                                        any(x is target for x in ast.walk(lp)):
                                    return True
                        return False
                    if len(reads_rest) != 1 or _in_loop(reads_rest[0]):
                        continue
                if isinstance(st.value, (ast.List, ast.Dict, ast.Set, ast.ListComp, ast.DictComp, ast.SetComp)):
                    # a mutable object has identity: substituting the literal is sound only where each read merely unpacks it (`*t`, `**t`), or for
                    # a single read that is not the receiver of a method call / subscript (which could mutate or alias it)
                    parent_of = {id(ch): p_ for r in rest for p_ in ast.walk(r) for ch in ast.iter_child_nodes(p_)}
                    unpack_only = all(isinstance(parent_of.get(id(n)), ast.Starred) or (isinstance(parent_of.get(id(n)), ast.keyword) and parent_of[id(n)].arg is None)
                                      for n in reads_rest)
                    single_plain = len(reads_rest) == 1 and not isinstance(parent_of.get(id(reads_rest[0])), (ast.Attribute, ast.Subscript)) and not any(
                        isinstance(lp, (ast.For, ast.While, ast.ListComp, ast.SetComp, ast.DictComp, ast.GeneratorExp, ast.Lambda, ast.FunctionDef))
                        and any(x is reads_rest[0] for x in ast.walk(lp)) for r in rest for lp in ast.walk(r))
                    if not (unpack_only or single_plain):
                        continue
                if t in _stores_in(rest) - {t} or any(isinstance(n, (ast.Subscript, ast.Attribute)) and isinstance(n.ctx, ast.Store) and isinstance(n.value, ast.Name) and n.value.id == t
                                                     for r in rest for n in ast.walk(r)):
                    continue
                free = {n.id for n in ast.walk(st.value) if isinstance(n, ast.Name)}
                # operands read only for their shape (`a.shape[k]`, `a.size`, `len(a)`) are not changed by element stores, only by re-binding
                shape_reads = {id(n.value) for n in ast.walk(st.value) if isinstance(n, ast.Attribute) and n.attr in ("shape", "size", "ndim", "dtype") and isinstance(n.value, ast.Name)}
                shape_reads |= {id(n.args[0]) for n in ast.walk(st.value) if isinstance(n, ast.Call) and ast.unparse(n.func) == "len" and len(n.args) == 1 and isinstance(n.args[0], ast.Name)}
                shape_only = {n.id for n in ast.walk(st.value) if isinstance(n, ast.Name) and id(n) in shape_reads} - \
                    {n.id for n in ast.walk(st.value) if isinstance(n, ast.Name) and id(n) not in shape_reads}
                rebinds = {n.id for r in rest for n in ast.walk(r) if isinstance(n, ast.Name) and isinstance(n.ctx, (ast.Store, ast.Del))}
                if (free - shape_only) & _stores_in(rest) or shape_only & rebinds:
                    continue
                # a use inside a nested function / lambda / comprehension would be evaluated later or repeatedly: only plain reads
                nested_ok = True
                for r in rest:
                    for n in ast.walk(r):
                        if isinstance(n, (ast.FunctionDef, ast.Lambda)) and any(isinstance(x, ast.Name) and x.id == t for x in ast.walk(n)):
                            nested_ok = False
                if not nested_ok:
                    continue
                # if the definition sits in a loop body the operands change per iteration: fine, reads are in the same iteration (rest of the block)
                sub = _Subst({t: st.value})
                for k in range(i + 1, len(block)):
                    block[k] = sub.visit(block[k])
                del block[i]
                if not block:
                    block.append(ast.copy_location(ast.Pass(), st))
                done.append(t)
                changed = not (limit and len(done) >= limit)
                break
            else:
                continue
            break
    if done:
        _flatten_fstrings(fn)
        _expand_star_dicts(fn)
        ast.fix_missing_locations(fn)
    return done


def _flatten_fstrings(fn: ast.AST):
    """f"{f'{a:04d}'}{b}" -> f"{a:04d}{b}" (a formatted part that is itself an f-string without conversion / format spec)."""
    for js in ast.walk(fn):
        if isinstance(js, ast.JoinedStr):
            out = []
            for v in js.values:
                if isinstance(v, ast.FormattedValue) and isinstance(v.value, ast.JoinedStr) and v.conversion == -1 and v.format_spec is None:
                    out += list(v.value.values)
                else:
                    out.append(v)
            js.values = out


def _expand_star_dicts(fn: ast.AST):
    """f(a, **{'k': v, ...}) -> f(a, k=v, ...) for literal dicts with string keys (after a kwargs temporary was inlined)."""
    for c in ast.walk(fn):
        if isinstance(c, ast.Call):
            if any(isinstance(a, ast.Starred) and isinstance(a.value, (ast.Tuple, ast.List)) for a in c.args):
                flat = []
                for a in c.args:                       # f(*(a, b), c) -> f(a, b, c)
                    if isinstance(a, ast.Starred) and isinstance(a.value, (ast.Tuple, ast.List)):
                        flat += list(a.value.elts)
                    else:
                        flat.append(a)
                c.args = flat
            new = []
            for k in c.keywords:
                if k.arg is None and isinstance(k.value, ast.Dict) and all(isinstance(x, ast.Constant) and isinstance(x.value, str) for x in k.value.keys):
                    new += [ast.keyword(arg=kk.value, value=vv) for kk, vv in zip(k.value.keys, k.value.values)]
                elif k.arg is None and isinstance(k.value, ast.Call) and ast.unparse(k.value.func) == "dict" and not k.value.args:
                    new += [ast.keyword(arg=kk.arg, value=kk.value) for kk in k.value.keywords]
                else:
                    new.append(k)
            c.keywords = new


def _simple_helper(h: ast.FunctionDef) -> Optional[Tuple[List[ast.stmt], Optional[ast.AST]]]:
    """(body statements without docstring and final return, return expression) when `h` has a single exit at its end."""
    a = h.args
    if a.vararg or a.kwarg or a.kwonlyargs or a.posonlyargs:
        return None
    body = list(h.body)
    if body and isinstance(body[0], ast.Expr) and isinstance(body[0].value, ast.Constant) and isinstance(body[0].value.value, str):
        body = body[1:]
    ret = None
    if body and isinstance(body[-1], ast.Return):
        ret = body[-1].value
        body = body[:-1]
    for st in body:
        for n in ast.walk(st):
            if isinstance(n, (ast.Return, ast.Yield, ast.YieldFrom, ast.Global, ast.Nonlocal)):
                return None
            if isinstance(n, ast.Call) and isinstance(n.func, ast.Name) and n.func.id == h.name:
                return None
    return body, ret


RETVAR = "__verif_ret__"


def _return_tree(h: ast.FunctionDef) -> Optional[List[ast.stmt]]:
    """Body of a helper whose returns all sit in tail position of an if/else tree (guard clauses included), restructured so that every
    `return E` becomes `__verif_ret__ = E` at the end of its arm. None when a return sits anywhere else (inside a loop, a try, ...)."""
    import copy
    a = h.args
    if a.vararg or a.kwarg or a.kwonlyargs or a.posonlyargs:
        return None
    body = list(h.body)
    if body and isinstance(body[0], ast.Expr) and isinstance(body[0].value, ast.Constant) and isinstance(body[0].value.value, str):
        body = body[1:]

    def has_ret(nodes) -> bool:
        return any(isinstance(n, (ast.Return, ast.Yield, ast.YieldFrom)) for s_ in nodes for n in ast.walk(s_))

    def mk(e, at):
        return ast.copy_location(ast.Assign(targets=[ast.Name(id=RETVAR, ctx=ast.Store())], value=e if e is not None else ast.Constant(value=None)), at)

    def conv(stmts) -> Optional[List[ast.stmt]]:
        stmts = [copy.deepcopy(s_) for s_ in stmts]
        for i, st in enumerate(stmts):
            if not has_ret([st]):
                continue
            if isinstance(st, ast.Return):
                return stmts[:i] + [mk(st.value, st)]          # anything after a return is dead
            if isinstance(st, ast.If):
                b_ends = _always_returns(st.body)
                o_ends = _always_returns(st.orelse) if st.orelse else False
                rest = stmts[i + 1:]
                if b_ends and not st.orelse:
                    nb, no = conv(st.body), conv(rest)
                elif b_ends and o_ends:
                    nb, no = conv(st.body), conv(st.orelse)
                    rest = []
                elif o_ends and not has_ret(st.body):
                    nb, no = conv(st.body + rest), conv(st.orelse)
                else:
                    return None
                if nb is None or no is None:
                    return None
                st.body, st.orelse = nb, no
                return stmts[:i] + [st]
            return None
        return stmts + [mk(None, h)]
    return conv(body)


def _always_returns(stmts) -> bool:
    if not stmts:
        return False
    last = stmts[-1]
    if isinstance(last, ast.Return):
        return True
    if isinstance(last, ast.If) and last.orelse:
        return _always_returns(last.body) and _always_returns(last.orelse)
    return False


def beta_reduce(root: ast.AST) -> int:
    """`(lambda p: E)(a)` -> `E[p := a]` when p is read exactly once in E, outside any nested function or comprehension, or a is a name/constant."""
    import copy
    n = 0

    class T(ast.NodeTransformer):
        def visit_Call(self, node):
            self.generic_visit(node)
            f = node.func
            if not (isinstance(f, ast.Lambda) and not node.keywords and len(node.args) == len(f.args.args) and not f.args.vararg and not f.args.kwarg
                    and not f.args.defaults and not f.args.kwonlyargs and not any(isinstance(a, ast.Starred) for a in node.args)):
                return node
            params = [a.arg for a in f.args.args]
            m = {}
            for pn, av in zip(params, node.args):
                reads = [x for x in ast.walk(f.body) if isinstance(x, ast.Name) and x.id == pn]
                nested = [x for y in ast.walk(f.body) if isinstance(y, (ast.Lambda, ast.ListComp, ast.SetComp, ast.DictComp, ast.GeneratorExp)) for x in ast.walk(y)
                          if isinstance(x, ast.Name) and x.id == pn]
                if isinstance(av, (ast.Name, ast.Constant)) or (len(reads) == 1 and not nested and (len(params) == 1 or _is_pure(av))):
                    m[pn] = av
                else:
                    return node
            nonlocal n
            n += 1
            return ast.copy_location(_Subst(m).visit(copy.deepcopy(f.body)), node)
    T().visit(root)
    return n


def inline_new_helpers(tree: ast.Module, ref_funcs: Set[str], ref_calls: Optional[Dict[str, List[str]]] = None) -> List[str]:
    """Calls from reference functions to functions the reference tree does not have are replaced by the helper's body. So is a *new call edge*
    to a module-level function the reference does have (a body de-duplicated onto its existing sibling helper): the callee stays a function of
    its own and is judged on its own as before; the caller is judged with the callee's body in place of the call."""
    import copy
    helpers: Dict[str, Tuple[ast.FunctionDef, int]] = {}   # call name -> (def, number of leading params to skip: self/cls)
    old_helpers: Dict[str, Tuple[ast.FunctionDef, int]] = {}
    if ref_calls is not None:
        for n in tree.body:
            if isinstance(n, ast.FunctionDef) and n.name in ref_funcs:
                old_helpers[n.name] = (n, 0)
    new_only = helpers
    for n in tree.body:
        if isinstance(n, ast.FunctionDef) and n.name not in ref_funcs:
            helpers[n.name] = (n, 0)
        elif isinstance(n, ast.ClassDef):
            for m in n.body:
                if isinstance(m, ast.FunctionDef) and f"{n.name}.{m.name}" not in ref_funcs:
                    static = any(ast.unparse(d) == "staticmethod" for d in m.decorator_list)
                    helpers[f"self.{m.name}"] = (m, 0 if static else 1)
                    helpers[f"{n.name}.{m.name}"] = (m, 0 if static else 1)
                    helpers[f"cls.{m.name}"] = (m, 0 if static else 1)
    if not helpers and not old_helpers:
        return []
    done: List[str] = []
    for q, fn in _function_nodes(tree):
        if q not in ref_funcs:
            continue
        helpers = dict(new_only)
        if ref_calls is not None and q in ref_calls:
            for nm_, rec_ in old_helpers.items():
                # single-exit callees only: delegation to a sibling with several returns (the 3-d Mann-Kendall driver calling the 1-d routine) is
                # read as delegation by the rules that know the sibling
                if nm_ != q and nm_ not in ref_calls[q] and nm_ not in helpers and _simple_helper(rec_[0]) is not None:
                    helpers[nm_] = rec_
        if not helpers:
            continue
        for _round in range(6):
            hit = False
            for owner, block in _blocks(fn):
                for i, st in enumerate(block):
                    header = st
                    if isinstance(st, (ast.If, ast.While)):
                        header = st.test
                        if isinstance(st, ast.While):
                            continue
                    elif isinstance(st, ast.For):
                        header = st.iter
                    elif isinstance(st, (ast.With, ast.Try, ast.FunctionDef, ast.ClassDef)):
                        continue
                    calls = [c for c in ast.walk(header) if isinstance(c, ast.Call) and ast.unparse(c.func) in helpers]
                    if not calls:
                        continue
                    c = calls[0]
                    h, skip = helpers[ast.unparse(c.func)]
                    sh = _simple_helper(h)
                    multi = None
                    if sh is None:
                        # several returns in tail position: possible when the call is the whole right-hand side / returned value / statement
                        whole = (isinstance(st, (ast.Assign, ast.Return, ast.Expr)) and st.value is c
                                 and (not isinstance(st, ast.Assign) or (len(st.targets) == 1 and _is_pure(st.targets[0]))))
                        rt = _return_tree(h) if whole else None
                        if rt is None and not whole and isinstance(st, (ast.Assign, ast.Return, ast.Expr)) and _return_tree(h) is not None:
                            # hoist: `S[h(a)]` -> `t = h(a); S[t]` when the helper has no effects and everything else in S is pure, so that
                            # evaluating the call first changes nothing; the next round inlines `t = h(a)`
                            hb = [x_ for x_ in h.body if not (isinstance(x_, ast.Expr) and isinstance(x_.value, ast.Constant))]
                            effect_free = all(_is_pure(x_) for x_ in hb) and not any(
                                isinstance(n_, (ast.Subscript, ast.Attribute)) and isinstance(n_.ctx, (ast.Store, ast.Del)) for x_ in hb for n_ in ast.walk(x_))
                            par0: Dict[int, ast.AST] = {}
                            for p_ in ast.walk(st):
                                for ch in ast.iter_child_nodes(p_):
                                    par0[id(ch)] = p_
                            cur0, cond0 = c, False
                            while id(cur0) in par0:
                                up0 = par0[id(cur0)]
                                if isinstance(up0, (ast.Lambda, ast.ListComp, ast.SetComp, ast.DictComp, ast.GeneratorExp, ast.IfExp)) or \
                                        (isinstance(up0, ast.BoolOp) and cur0 is not up0.values[0]):
                                    cond0 = True
                                cur0 = up0
                            tname = h.name.strip("_") + "_value"
                            names_here = {n_.id for n_ in ast.walk(fn) if isinstance(n_, ast.Name)} | _params(fn)
                            if effect_free and not cond0 and tname not in names_here and st.value is not None:
                                class _Hoist(ast.NodeTransformer):
                                    def visit_Call(self, node):
                                        if node is c:
                                            return ast.copy_location(ast.Name(id=tname, ctx=ast.Load()), node)
                                        return self.generic_visit(node)
                                probe = copy.deepcopy(st)
                                # purity of the remainder: replace the call by a constant in a copy
                                idx_c = [k_ for k_, n_ in enumerate(ast.walk(st)) if n_ is c][0]
                                pc = list(ast.walk(probe))[idx_c]

                                class _Blank(ast.NodeTransformer):
                                    def visit_Call(self, node):
                                        if node is pc:
                                            return ast.Constant(value=0)
                                        return self.generic_visit(node)
                                probe = _Blank().visit(probe)
                                if _is_pure(probe.value) and (not isinstance(st, ast.Assign) or all(_is_pure(t_) for t_ in st.targets)):
                                    block[i:i + 1] = [ast.copy_location(ast.Assign(targets=[ast.Name(id=tname, ctx=ast.Store())], value=c), st), _Hoist().visit(st)]
                                    ast.fix_missing_locations(fn)
                                    hit = True
                                    break
                        if rt is None:
                            continue
                        sh = (rt, None)
                        multi = st
                    hbody, hret = sh
                    # the call must be evaluated exactly once, unconditionally, when the statement runs
                    par: Dict[int, ast.AST] = {}
                    for p_ in ast.walk(header):
                        for ch in ast.iter_child_nodes(p_):
                            par[id(ch)] = p_
                    cur, cond = c, False
                    while id(cur) in par:
                        up = par[id(cur)]
                        if isinstance(up, (ast.Lambda, ast.ListComp, ast.SetComp, ast.DictComp, ast.GeneratorExp)) or \
                                (isinstance(up, ast.IfExp) and cur is not up.test) or (isinstance(up, ast.BoolOp) and cur is not up.values[0]):
                            cond = True
                        cur = up
                    if cond and hbody:
                        continue
                    params = [a.arg for a in h.args.args][skip:]
                    defaults = h.args.defaults
                    bound: Dict[str, ast.AST] = {}
                    for pn, av in zip(params, c.args):
                        bound[pn] = av
                    for kw in c.keywords:
                        if kw.arg in params:
                            bound[kw.arg] = kw.value
                    for pn, dv in zip(params[len(params) - len(defaults):], defaults):
                        bound.setdefault(pn, dv)
                    if set(bound) != set(params) or len(c.args) > len(params) or any(kw.arg is None for kw in c.keywords):
                        continue
                    hstores = _stores_in(hbody)
                    hlocals = {n.id for s_ in hbody for n in ast.walk(s_) if isinstance(n, ast.Name) and isinstance(n.ctx, ast.Store)} - set(params)
                    caller_names = {n.id for n in ast.walk(fn) if isinstance(n, ast.Name)} | _params(fn)
                    ren: Dict[str, str] = {}
                    # a helper local may keep its name although the caller has a variable of that name when the caller's variable is dead across
                    # the call: the call is not inside a loop and, after it, the caller assigns the name before reading it (or the call assigns it)
                    in_loop = any(isinstance(l_, (ast.For, ast.While)) and any(x is st for x in ast.walk(l_)) for l_ in ast.walk(fn))

                    def dead_across(name) -> bool:
                        if in_loop:
                            return False
                        if isinstance(st, ast.Assign) and any(isinstance(t_, ast.Name) and t_.id == name for t_ in st.targets):
                            # the statement assigns it; the value must not also read the caller's variable of that name
                            return not any(isinstance(n_, ast.Name) and n_.id == name and isinstance(n_.ctx, ast.Load) for n_ in ast.walk(st.value) if n_ is not c)
                        if isinstance(st, ast.Return):
                            # nothing runs after the call. The caller's variable may be an argument: then every read of the parameter it is bound to
                            # must come no later than the helper's first assignment to its own local of that name
                            ps = [pn_ for pn_, av_ in bound.items() if isinstance(av_, ast.Name) and av_.id == name]
                            first_store = next((k_ for k_, hs_ in enumerate(hbody) if name in _stores_in([hs_])), len(hbody))
                            for pn_ in ps:
                                for k_, hs_ in enumerate(hbody + ([ast.Expr(value=hret)] if hret is not None else [])):
                                    if k_ > first_store and any(isinstance(n_, ast.Name) and n_.id == pn_ and isinstance(n_.ctx, ast.Load) for n_ in ast.walk(hs_)):
                                        return False
                            others = [n_ for n_ in ast.walk(st) if isinstance(n_, ast.Name) and n_.id == name and not any(n_ is a_ for a_ in c.args)]
                            return not others
                        if any(isinstance(n_, ast.Name) and n_.id == name for n_ in ast.walk(st)):
                            return False
                        for later in block[i + 1:]:
                            occ = [n_ for n_ in ast.walk(later) if isinstance(n_, ast.Name) and n_.id == name]
                            if not occ:
                                continue
                            return (isinstance(later, ast.Assign) and len(later.targets) == 1 and isinstance(later.targets[0], ast.Name) and later.targets[0].id == name
                                    and not any(isinstance(n_, ast.Name) and n_.id == name for n_ in ast.walk(later.value)))
                        return True
                    for ln in sorted(hlocals):
                        if ln in caller_names and dead_across(ln):
                            continue
                        if ln in caller_names:
                            k = 1
                            while f"{ln}_{k}" in caller_names or f"{ln}_{k}" in hlocals:
                                k += 1
                            ren[ln] = f"{ln}_{k}"
                    body = [copy.deepcopy(s_) for s_ in hbody]
                    rexp = copy.deepcopy(hret) if hret is not None else ast.Constant(value=None)
                    pre: List[ast.stmt] = []
                    subst: Dict[str, ast.AST] = {}
                    for pn in params:
                        av = bound[pn]
                        n_reads = sum(1 for s_ in hbody + ([ast.Expr(value=hret)] if hret is not None else []) for n in ast.walk(s_)
                                      if isinstance(n, ast.Name) and n.id == pn and isinstance(n.ctx, ast.Load))
                        rebound = any(isinstance(n, ast.Name) and n.id == pn and isinstance(n.ctx, ast.Store) for s_ in hbody for n in ast.walk(s_))
                        simple = isinstance(av, (ast.Name, ast.Constant)) or (isinstance(av, ast.Attribute) and isinstance(av.value, ast.Name))
                        if isinstance(av, ast.Lambda) and not hbody:
                            # a function literal is a value without effects; substituting it is safe when none of its free names is captured by a
                            # binder of the helper (parameters of nested lambdas, comprehension variables)
                            lam_bound = {a_.arg for a_ in av.args.args}
                            lam_free = {n_.id for n_ in ast.walk(av.body) if isinstance(n_, ast.Name)} - lam_bound
                            binders = {a_.arg for x_ in ast.walk(ast.Expr(value=hret)) if isinstance(x_, ast.Lambda) for a_ in x_.args.args} if hret is not None else set()
                            binders |= {n_.id for x_ in (ast.walk(ast.Expr(value=hret)) if hret is not None else []) if isinstance(x_, ast.comprehension) for n_ in ast.walk(x_.target) if isinstance(n_, ast.Name)}
                            simple = not (lam_free & binders)
                        if not rebound and (simple or (not hbody and _is_pure(av))):
                            subst[pn] = av
                        else:
                            tgt = pn
                            if tgt in caller_names and not (isinstance(av, ast.Name) and av.id == pn):
                                k = 1
                                while f"{pn}_{k}" in caller_names:
                                    k += 1
                                tgt = f"{pn}_{k}"
                                ren[pn] = tgt
                            if not (isinstance(av, ast.Name) and av.id == tgt):
                                pre.append(ast.copy_location(ast.Assign(targets=[ast.Name(id=tgt, ctx=ast.Store())], value=copy.deepcopy(av)), st))
                    if ren:
                        r_ = _Rename(ren)
                        body = [r_.visit(s_) for s_ in body]
                        rexp = r_.visit(ast.Expr(value=rexp)).value
                    if subst:
                        s_ = _Subst(subst)
                        body = [s_.visit(x) for x in body]
                        rexp = s_.visit(ast.Expr(value=rexp)).value

                    class _Rep(ast.NodeTransformer):
                        def visit_Call(self, node):
                            if node is c:
                                return rexp
                            return self.generic_visit(node)
                    if isinstance(st, ast.If):
                        st.test = _Rep().visit(st.test)
                        new_st = [st]
                    elif isinstance(st, ast.For):
                        st.iter = _Rep().visit(st.iter)
                        new_st = [st]
                    elif isinstance(st, ast.Expr) and st.value is c:
                        new_st = []     # procedure call: the body is the whole effect
                    else:
                        new_st = [_Rep().visit(st)]
                    if multi is not None:
                        # every `__verif_ret__ = E` becomes the caller's statement with E in place of the call
                        new_st = []

                        def finish(stmts):
                            out_ = []
                            for x_ in stmts:
                                if isinstance(x_, ast.Assign) and isinstance(x_.targets[0], ast.Name) and x_.targets[0].id == RETVAR:
                                    if isinstance(multi, ast.Assign):
                                        y_ = ast.copy_location(ast.Assign(targets=copy.deepcopy(multi.targets), value=x_.value), x_)
                                        if isinstance(y_.targets[0], ast.Name) and isinstance(y_.value, ast.Name) and y_.value.id == y_.targets[0].id:
                                            continue
                                    elif isinstance(multi, ast.Return):
                                        y_ = ast.copy_location(ast.Return(value=x_.value), x_)
                                    else:
                                        y_ = ast.copy_location(ast.Expr(value=x_.value), x_)
                                    out_.append(y_)
                                    continue
                                if isinstance(x_, ast.If):
                                    x_.body = finish(x_.body) or [ast.copy_location(ast.Pass(), x_)]
                                    x_.orelse = finish(x_.orelse)
                                out_.append(x_)
                            return out_
                        body = finish(body)
                    new_st = [x_ for x_ in new_st if not (isinstance(x_, ast.Assign) and len(x_.targets) == 1 and isinstance(x_.targets[0], ast.Name)
                                                          and isinstance(x_.value, ast.Name) and x_.value.id == x_.targets[0].id)]
                    block[i:i + 1] = pre + body + new_st
                    for x_ in block:
                        beta_reduce(x_)
                    if not block:
                        block.append(ast.copy_location(ast.Pass(), st))
                    ast.fix_missing_locations(fn)
                    done.append(f"{q} <- {h.name}")
                    fn._verif_spliced = True
                    hit = True
                    break
                if hit:
                    break
            if not hit:
                break
    # helpers whose every call in this module was inlined are verified in their callers' context, not on their own
    inlined = {d.split(" <- ")[1] for d in done}
    for nm in inlined:
        still = [c for c in ast.walk(tree) if isinstance(c, ast.Call) and ast.unparse(c.func).split(".")[-1] == nm]
        if not still:
            for key, (h, _) in new_only.items():
                if h.name == nm:
                    h._verif_inlined = True
    return done


def adopt_imported_helpers(modules: Dict[str, ast.Module], reference: dict) -> List[str]:
    """A new (non-reference) module-level function that a module imports from a sibling module is copied into the importing module, its free
    names re-bound through synthetic imports, and the import dropped: `inline_new_helpers` then treats it like a helper extracted in place.
    Where a function lives changes nothing observable; the copy keeps the decorators."""
    import copy
    done: List[str] = []
    tables = {d: import_table(d, t, bool(getattr(t, "_verif_is_pkg", False))) for d, t in modules.items()}
    tops = {d: {n.name: n for n in t.body if isinstance(n, ast.FunctionDef)} for d, t in modules.items()}
    adopted_from: Dict[Tuple[str, str], int] = {}
    for dotted, tree in modules.items():
        refmod = reference.get(dotted, {})
        if not refmod:
            continue
        ref_imports = refmod.get("<imports>", {})
        is_pkg = bool(getattr(tree, "_verif_is_pkg", False))
        if is_pkg:
            continue
        for st in list(tree.body):
            if not isinstance(st, ast.ImportFrom):
                continue
            home = _abs_module(dotted, st.level, st.module) if st.level else (st.module or "")
            if home not in modules or home == dotted:
                continue
            home_ref = {k for k in reference.get(home, {}) if not k.startswith("<")}
            for al in list(st.names):
                loc = al.asname or al.name
                h = tops[home].get(al.name)
                if h is None or al.name in home_ref or loc in ref_imports or loc in tops[dotted]:
                    continue
                hcopy = copy.deepcopy(h)
                hcopy.name = loc
                # free names of the helper, resolved in its home module
                bound = {a.arg for f_ in ast.walk(hcopy) if isinstance(f_, (ast.FunctionDef, ast.Lambda)) for a in f_.args.args + f_.args.kwonlyargs}
                bound |= {n.id for n in ast.walk(hcopy) if isinstance(n, ast.Name) and isinstance(n.ctx, ast.Store)}
                free = {n.id for n in ast.walk(hcopy) if isinstance(n, ast.Name) and isinstance(n.ctx, ast.Load)} - bound
                here = import_table(dotted, tree, is_pkg)
                here_names = set(here) | set(tops[dotted]) | {n.id for n in ast.walk(tree) if isinstance(n, ast.Name) and isinstance(n.ctx, ast.Store)}
                extra: List[ast.stmt] = []
                ren: Dict[str, str] = {}
                ok = True
                for nm in sorted(free):
                    if nm in tables[home]:
                        q = tables[home][nm]
                    elif nm in tops[home] or any(isinstance(x, ast.Assign) and any(isinstance(t_, ast.Name) and t_.id == nm for t_ in x.targets) for x in modules[home].body):
                        q = f"{home}.{nm}"
                    else:
                        continue      # builtin
                    same = [l_ for l_, q_ in here.items() if q_ == q]
                    if same:
                        if same[0] != nm:
                            ren[nm] = same[0]
                        continue
                    tgt = nm
                    if tgt in here_names:
                        k = 1
                        while f"{nm}_{k}" in here_names:
                            k += 1
                        tgt = f"{nm}_{k}"
                        ren[nm] = tgt
                    here_names.add(tgt)
                    if "." in q:
                        mod_, name_ = q.rsplit(".", 1)
                        extra.append(ast.ImportFrom(module=mod_, names=[ast.alias(name=name_, asname=None if name_ == tgt else tgt)], level=0))
                    else:
                        extra.append(ast.Import(names=[ast.alias(name=q, asname=None if q == tgt else tgt)]))
                    here[tgt] = q
                if not ok:
                    continue
                if ren:
                    class _R(ast.NodeTransformer):
                        def visit_Name(self, node):
                            if isinstance(node.ctx, ast.Load) and node.id in ren:
                                node.id = ren[node.id]
                            return node
                    _R().visit(hcopy)
                st.names.remove(al)
                pos = max((i for i, x in enumerate(tree.body) if isinstance(x, (ast.Import, ast.ImportFrom))), default=-1) + 1
                tree.body[pos:pos] = extra + [hcopy]
                tops[dotted][loc] = hcopy
                adopted_from[(home, al.name)] = adopted_from.get((home, al.name), 0) + 1
                done.append(f"{dotted} adopts {home}.{al.name}")
            if not st.names:
                tree.body.remove(st)
        ast.fix_missing_locations(tree)
    # a helper that is now used only through its adopted copies is judged in its callers' context
    for (home, name), _n in adopted_from.items():
        used = False
        for d, t in modules.items():
            for n in ast.walk(t):
                if isinstance(n, ast.ImportFrom):
                    hm = _abs_module(d, n.level, n.module) if n.level else (n.module or "")
                    if hm == home and any(a.name == name for a in n.names):
                        used = True
            if d == home and any(isinstance(c, ast.Call) and isinstance(c.func, ast.Name) and c.func.id == name for c in ast.walk(t)):
                used = True
        if not used:
            tops[home][name]._verif_inlined = True
    return done


# ------------------------------------------------------------------ generic control-flow normal forms (exact equivalences)

def negate(test: ast.AST) -> ast.AST:
    """Logical negation in simplified form: flipped comparison, De Morgan, double negation removed."""
    import copy
    flip = {ast.Eq: ast.NotEq, ast.NotEq: ast.Eq, ast.Is: ast.IsNot, ast.IsNot: ast.Is, ast.In: ast.NotIn, ast.NotIn: ast.In}
    if isinstance(test, ast.UnaryOp) and isinstance(test.op, ast.Not):
        return copy.deepcopy(test.operand)
    if isinstance(test, ast.Compare) and len(test.ops) == 1 and type(test.ops[0]) in flip:
        # (==, !=, is, is not, in, not in) have exact complements for every operand, NaN included; < and >= do not (NaN)
        return ast.copy_location(ast.Compare(left=copy.deepcopy(test.left), ops=[flip[type(test.ops[0])]()], comparators=copy.deepcopy(test.comparators)), test)
    if isinstance(test, ast.BoolOp):
        op = ast.Or() if isinstance(test.op, ast.And) else ast.And()
        return ast.copy_location(ast.BoolOp(op=op, values=[negate(v) for v in test.values]), test)
    return ast.copy_location(ast.UnaryOp(op=ast.Not(), operand=copy.deepcopy(test)), test)


def while_to_for(fn: ast.FunctionDef) -> int:
    """`i = A` ; `while i >= B: BODY ; i -= 1`  ->  `for i in range(A, B - 1, -1): BODY` (and the ascending twin), when BODY neither assigns
    `i` nor contains `continue`/`break` at its own level, and `i` is not read after the loop before being assigned again."""
    n_done = 0
    for owner, block in _blocks(fn):
        i = 0
        while i + 1 < len(block):
            a, w = block[i], block[i + 1]
            i += 1
            if not (isinstance(a, ast.Assign) and len(a.targets) == 1 and isinstance(a.targets[0], ast.Name) and isinstance(w, ast.While) and not w.orelse):
                continue
            v = a.targets[0].id
            t = w.test
            if not (isinstance(t, ast.Compare) and len(t.ops) == 1 and isinstance(t.left, ast.Name) and t.left.id == v and w.body):
                continue
            last = w.body[-1]
            step = None
            if isinstance(last, ast.AugAssign) and isinstance(last.target, ast.Name) and last.target.id == v and isinstance(last.value, ast.Constant) and last.value.value == 1:
                step = -1 if isinstance(last.op, ast.Sub) else 1 if isinstance(last.op, ast.Add) else None
            elif isinstance(last, ast.Assign) and isinstance(last.targets[0], ast.Name) and last.targets[0].id == v and isinstance(last.value, ast.BinOp) \
                    and isinstance(last.value.left, ast.Name) and last.value.left.id == v and isinstance(last.value.right, ast.Constant) and last.value.right.value == 1:
                step = -1 if isinstance(last.value.op, ast.Sub) else 1 if isinstance(last.value.op, ast.Add) else None
            if step is None:
                continue
            body = w.body[:-1]
            if v in _stores_in(body) or any(isinstance(n, (ast.Continue, ast.Break)) for b in body for n in ast.walk(b)):
                continue
            bound = t.comparators[0]
            if any(isinstance(n, ast.Name) and n.id in _stores_in(body) for n in ast.walk(bound)):
                continue
            op = t.ops[0]
            one = ast.Constant(value=1)
            if step == -1 and isinstance(op, ast.GtE):
                stop = ast.BinOp(left=bound, op=ast.Sub(), right=one)
            elif step == -1 and isinstance(op, ast.Gt):
                stop = bound
            elif step == 1 and isinstance(op, ast.Lt):
                stop = bound
            elif step == 1 and isinstance(op, ast.LtE):
                stop = ast.BinOp(left=bound, op=ast.Add(), right=one)
            else:
                continue
            # i must not be read after the loop (its final value differs between the two forms)
            after = block[i + 1:]
            read_after = False
            for st in after:
                names = [n for n in ast.walk(st) if isinstance(n, ast.Name) and n.id == v]
                if any(isinstance(n.ctx, ast.Load) for n in names):
                    read_after = True
                    break
                if names:
                    break
            if read_after:
                continue
            args = [a.value, stop] + ([ast.UnaryOp(op=ast.USub(), operand=ast.Constant(value=1))] if step == -1 else [])
            # normalise `range(A, B - 1, -1)` with B constant
            if isinstance(stop, ast.BinOp) and isinstance(stop.left, ast.Constant) and isinstance(stop.left.value, int):
                stop2 = ast.Constant(value=stop.left.value + (1 if isinstance(stop.op, ast.Add) else -1))
                args[1] = stop2 if stop2.value >= 0 else ast.UnaryOp(op=ast.USub(), operand=ast.Constant(value=-stop2.value))
            f = ast.For(target=ast.Name(id=v, ctx=ast.Store()), iter=ast.Call(func=ast.Name(id="range", ctx=ast.Load()), args=args, keywords=[]),
                        body=body or [ast.Pass()], orelse=[], type_comment=None)
            ast.copy_location(f, w)
            block[i - 1:i + 1] = [f]
            ast.fix_missing_locations(f)
            n_done += 1
            i -= 1
    return n_done


def ifexp_to_if(fn: ast.FunctionDef, keep_targets: Set[str]) -> int:
    """`T = a if c else b` -> `if c: T = a` / `else: T = b`, except for the targets the reference function itself assigns that way."""
    import copy
    n = 0
    for owner, block in _blocks(fn):
        for i, st in enumerate(block):
            if isinstance(st, ast.Assign) and len(st.targets) == 1 and isinstance(st.value, ast.IfExp) and ast.unparse(st.targets[0]) not in keep_targets:
                t = st.targets[0]
                if not _is_pure(t):
                    continue
                a = ast.copy_location(ast.Assign(targets=[copy.deepcopy(t)], value=st.value.body), st)
                b = ast.copy_location(ast.Assign(targets=[copy.deepcopy(t)], value=st.value.orelse), st)
                block[i] = ast.copy_location(ast.If(test=st.value.test, body=[a], orelse=[b]), st)
                ast.fix_missing_locations(block[i])
                n += 1
    return n


def def_to_lambda(fn: ast.FunctionDef, ref_nested: Set[str]) -> int:
    """A nested `def f(a): return E` that the reference does not have is the reference's `f = lambda a: E` (same closure, same value)."""
    n = 0
    for owner, block in _blocks(fn):
        for i, st in enumerate(block):
            if not isinstance(st, ast.FunctionDef) or st.name in ref_nested or st.decorator_list:
                continue
            a = st.args
            if a.vararg or a.kwarg or a.kwonlyargs or a.posonlyargs or a.defaults:
                continue
            body = list(st.body)
            if body and isinstance(body[0], ast.Expr) and isinstance(body[0].value, ast.Constant) and isinstance(body[0].value.value, str):
                body = body[1:]
            if len(body) != 1 or not isinstance(body[0], ast.Return) or body[0].value is None:
                continue
            lam = ast.Lambda(args=ast.arguments(posonlyargs=[], args=[ast.arg(arg=x.arg) for x in a.args], kwonlyargs=[], kw_defaults=[], defaults=[]), body=body[0].value)
            block[i] = ast.copy_location(ast.Assign(targets=[ast.Name(id=st.name, ctx=ast.Store())], value=lam), st)
            n += 1
    if n:
        ast.fix_missing_locations(fn)
    return n


def _own_returns(fn: ast.FunctionDef) -> int:
    """Return statements of `fn` itself (not of functions nested in it)."""
    n = 0
    stack = list(fn.body)
    while stack:
        x = stack.pop()
        if isinstance(x, (ast.FunctionDef, ast.Lambda, ast.ClassDef)):
            continue
        if isinstance(x, ast.Return):
            n += 1
        stack.extend(ast.iter_child_nodes(x))
    return n


def sink_final_return(fn: ast.FunctionDef, ref_returns: int) -> int:
    """`if c: A else: B` followed by the function's final `return E` is `if c: A; return E else: B; return E` (tail duplication, always an
    equivalence); applied when the reference function has more return statements than this one, i.e. a single-exit rewrite of it."""
    import copy
    cur = _own_returns(fn)
    if cur >= ref_returns or len(fn.body) < 2:
        return 0
    last, prev = fn.body[-1], fn.body[-2]
    if not (isinstance(last, ast.Return) and isinstance(prev, ast.If)):
        return 0

    def push(block: List[ast.stmt]) -> List[ast.stmt]:
        if block and _ends_in_exit_stmt(block[-1]):
            return block
        if block and isinstance(block[-1], ast.If):
            tail = block[-1]
            tail.body = push(tail.body)
            tail.orelse = push(tail.orelse)
            return block
        return block + [copy.deepcopy(last)]
    prev.body = push(prev.body)
    prev.orelse = push(prev.orelse)
    fn.body.pop()
    ast.fix_missing_locations(fn)
    return 1


def _ends_in_exit_stmt(st: ast.stmt) -> bool:
    return isinstance(st, (ast.Return, ast.Raise, ast.Continue, ast.Break))


def counter_loops(fn: ast.FunctionDef) -> List[List[str]]:
    """[[counter, array, element variable]] for `c = 0; for e in A: ...; c += 1` loops (the position counter of an element loop)."""
    out: List[List[str]] = []
    for owner, block in _blocks(fn):
        for i, st in enumerate(block):
            if not (isinstance(st, ast.For) and isinstance(st.target, ast.Name) and st.body and not st.orelse):
                continue
            k0 = 0
            if isinstance(st.iter, ast.Subscript) and isinstance(st.iter.value, ast.Name) and isinstance(st.iter.slice, ast.Slice) and st.iter.slice.upper is None \
                    and st.iter.slice.step is None and isinstance(st.iter.slice.lower, ast.Constant) and isinstance(st.iter.slice.lower.value, int):
                k0 = st.iter.slice.lower.value
            elif not isinstance(st.iter, ast.Name):
                continue
            last = st.body[-1]
            if not (isinstance(last, ast.AugAssign) and isinstance(last.op, ast.Add) and isinstance(last.target, ast.Name)
                    and isinstance(last.value, ast.Constant) and last.value.value == 1):
                continue
            c = last.target.id
            init = [b for b in block[:i] if isinstance(b, ast.Assign) and len(b.targets) == 1 and isinstance(b.targets[0], ast.Name) and b.targets[0].id == c]
            if init and isinstance(init[-1].value, ast.Constant) and init[-1].value.value == k0:
                out.append([c, ast.unparse(st.iter), st.target.id])
    return out


def range_to_counter(fn: ast.FunctionDef, ref_loops: List[List[str]]) -> int:
    """`for c in range(A.shape[0]): ... A[c] ...` where the reference has `c = 0; for e in A: ... e ...; c += 1`: written the reference's way.
    Side conditions: c and A are not re-bound in the body, no `continue` skips the increment, c is dead after the loop, e is unused."""
    n = 0
    for owner, block in _blocks(fn):
        for i, st in enumerate(block):
            if not (isinstance(st, ast.For) and isinstance(st.target, ast.Name) and not st.orelse and isinstance(st.iter, ast.Call)
                    and ast.unparse(st.iter.func) == "range" and len(st.iter.args) in (1, 2) and not st.iter.keywords):
                continue
            c = st.target.id
            bound = ast.unparse(st.iter.args[-1])
            start = 0
            if len(st.iter.args) == 2:
                if not (isinstance(st.iter.args[0], ast.Constant) and isinstance(st.iter.args[0].value, int)):
                    continue
                start = st.iter.args[0].value
            for rc, ra_txt, re_ in ref_loops:
                import re as _re
                m_ = _re.fullmatch(r"(\w+)\[(\d+):\]", ra_txt)
                ra, k0 = (m_.group(1), int(m_.group(2))) if m_ else (ra_txt, 0)
                if not ra.isidentifier() or rc != c or k0 != start or bound not in (f"{ra}.shape[0]", f"len({ra})"):
                    continue
                names = {x.id for x in ast.walk(fn) if isinstance(x, ast.Name)} | _params(fn)
                fetch0 = st.body[0] if st.body else None
                has_fetch = (isinstance(fetch0, ast.Assign) and len(fetch0.targets) == 1 and isinstance(fetch0.targets[0], ast.Name) and fetch0.targets[0].id == re_
                             and ast.unparse(fetch0.value) == f"{ra}[{c}]"
                             and sum(1 for x in ast.walk(fn) if isinstance(x, ast.Name) and x.id == re_ and isinstance(x.ctx, ast.Store)) == 1
                             and not any(isinstance(x, ast.Name) and x.id == re_ for o_ in ast.walk(fn) if o_ is not st and isinstance(o_, ast.stmt) and not any(o_ is y for y in ast.walk(st))
                                         and not any(st is y for y in ast.walk(o_)) for x in ast.walk(o_)))
                if re_ in names and not has_fetch:
                    continue
                if has_fetch:
                    st.body.pop(0)          # `e = A[c]` at the top of the body is what the element loop does by itself
                body_stores = {x.id for b in st.body for x in ast.walk(b) if isinstance(x, ast.Name) and isinstance(x.ctx, (ast.Store, ast.Del))}
                if c in body_stores or ra in body_stores:
                    continue
                if any(isinstance(x, ast.Continue) for b in st.body for x in ast.walk(b)):
                    continue
                # c dead after the loop: the next mention in this block is a plain re-assignment; no mention in enclosing later code otherwise
                dead = None
                for later in block[i + 1:]:
                    occ = [x for x in ast.walk(later) if isinstance(x, ast.Name) and x.id == c]
                    if occ:
                        dead = (isinstance(later, ast.Assign) and len(later.targets) == 1 and isinstance(later.targets[0], ast.Name) and later.targets[0].id == c
                                and not any(isinstance(x, ast.Name) and x.id == c for x in ast.walk(later.value)))
                        dead = dead or (isinstance(later, ast.For) and isinstance(later.target, ast.Name) and later.target.id == c
                                        and not any(isinstance(x, ast.Name) and x.id == c for x in ast.walk(later.iter)))
                        break
                if dead is None:
                    dead = owner is fn
                if not dead:
                    continue
                # loads of A[c] that precede every store into A within the iteration read the element the loop variable holds
                def is_elem(x):
                    return (isinstance(x, ast.Subscript) and isinstance(x.ctx, ast.Load) and isinstance(x.value, ast.Name) and x.value.id == ra
                            and isinstance(x.slice, ast.Name) and x.slice.id == c)

                class _E(ast.NodeTransformer):
                    def visit_Subscript(self, node):
                        if is_elem(node):
                            return ast.copy_location(ast.Name(id=re_, ctx=ast.Load()), node)
                        return self.generic_visit(node)
                for k, b in enumerate(st.body):
                    if ra in _stores_in([b]):
                        if isinstance(b, ast.If) and ra not in _stores_in([ast.Expr(value=b.test)]):
                            b.test = _E().visit(b.test)
                        break
                    st.body[k] = _E().visit(b)
                st.target = ast.Name(id=re_, ctx=ast.Store())
                st.iter = ast.parse(ra_txt, mode="eval").body
                st.body.append(ast.copy_location(ast.AugAssign(target=ast.Name(id=c, ctx=ast.Store()), op=ast.Add(), value=ast.Constant(value=1)), st.body[-1]))
                block.insert(i, ast.copy_location(ast.Assign(targets=[ast.Name(id=c, ctx=ast.Store())], value=ast.Constant(value=start)), st))
                ast.fix_missing_locations(fn)
                n += 1
                return n + range_to_counter(fn, [l for l in ref_loops if l != [rc, ra_txt, re_]])
    return n


_MIRROR = {ast.Lt: ast.Gt, ast.Gt: ast.Lt, ast.LtE: ast.GtE, ast.GtE: ast.LtE, ast.Eq: ast.Eq, ast.NotEq: ast.NotEq}


def orient_compares(fn: ast.FunctionDef, ref_compares: Set[str]) -> int:
    """`b > a` where the reference writes `a < b` (both operands free of effects) is written the reference's way."""
    n = 0
    for c in ast.walk(fn):
        if not (isinstance(c, ast.Compare) and len(c.ops) == 1 and type(c.ops[0]) in _MIRROR):
            continue
        if ast.unparse(c) in ref_compares:
            continue
        if not (_is_pure(c.left) and _is_pure(c.comparators[0])):
            continue
        flipped = ast.Compare(left=c.comparators[0], ops=[_MIRROR[type(c.ops[0])]()], comparators=[c.left])
        if ast.unparse(flipped) in ref_compares:
            c.left, c.ops, c.comparators = flipped.left, flipped.ops, flipped.comparators
            n += 1
    return n


def loop_to_listcomp(fn: ast.FunctionDef, ref_names: Set[str]) -> int:
    """`L = []; for v in IT: L.append(E)` -> `L = [E for v in IT]` for a list L the reference does not have (v unused after the loop)."""
    for owner, block in _blocks(fn):
        for i, st in enumerate(block[:-1]):
            if not (isinstance(st, ast.Assign) and len(st.targets) == 1 and isinstance(st.targets[0], ast.Name) and isinstance(st.value, ast.List) and not st.value.elts):
                continue
            L = st.targets[0].id
            loop = block[i + 1]
            if L in ref_names or not (isinstance(loop, ast.For) and not loop.orelse and len(loop.body) == 1 and isinstance(loop.target, ast.Name)):
                continue
            b = loop.body[0]
            if not (isinstance(b, ast.Expr) and isinstance(b.value, ast.Call) and ast.unparse(b.value.func) == f"{L}.append" and len(b.value.args) == 1 and not b.value.keywords):
                continue
            E = b.value.args[0]
            v = loop.target.id
            if any(isinstance(x, ast.Name) and x.id == L for x in list(ast.walk(E)) + list(ast.walk(loop.iter))):
                continue
            if any(isinstance(x, ast.Name) and x.id == v for later in block[i + 2:] for x in ast.walk(later)):
                continue
            if sum(1 for x in ast.walk(fn) if isinstance(x, ast.Name) and x.id == L and isinstance(x.ctx, ast.Store)) != 1:
                continue
            st.value = ast.ListComp(elt=E, generators=[ast.comprehension(target=ast.Name(id=v, ctx=ast.Store()), iter=loop.iter, ifs=[], is_async=0)])
            del block[i + 1]
            ast.fix_missing_locations(fn)
            return 1
    return 0


def if_to_ifexp(fn: ast.FunctionDef, targets: Set[str]) -> int:
    """`if T: x = A else: x = B` -> `x = A if T else B` for the targets the reference assigns through a conditional expression."""
    n = 0
    for owner, block in _blocks(fn):
        for i, st in enumerate(block):
            if not (isinstance(st, ast.If) and len(st.body) == 1 and len(st.orelse) == 1):
                continue
            a, b = st.body[0], st.orelse[0]
            if not all(isinstance(x, ast.Assign) and len(x.targets) == 1 and isinstance(x.targets[0], ast.Name) for x in (a, b)):
                continue
            if a.targets[0].id != b.targets[0].id or a.targets[0].id not in targets:
                continue
            block[i] = ast.copy_location(ast.Assign(targets=[ast.Name(id=a.targets[0].id, ctx=ast.Store())],
                                                    value=ast.IfExp(test=st.test, body=a.value, orelse=b.value)), st)
            n += 1
    if n:
        ast.fix_missing_locations(fn)
    return n


def split_const_tuple_assign(fn: ast.FunctionDef) -> int:
    """`a, b = 0, 1` -> `a = 0; b = 1` (all targets plain names, all values numeric constants: no element can read a target)."""
    n = 0
    for owner, block in _blocks(fn):
        i = 0
        while i < len(block):
            st = block[i]
            if isinstance(st, ast.Assign) and len(st.targets) == 1 and isinstance(st.targets[0], ast.Tuple) and isinstance(st.value, ast.Tuple) \
                    and len(st.targets[0].elts) == len(st.value.elts) and all(isinstance(t, ast.Name) for t in st.targets[0].elts) \
                    and all(isinstance(v, ast.Constant) and isinstance(v.value, (int, float)) and not isinstance(v.value, bool) or
                            (isinstance(v, ast.UnaryOp) and isinstance(v.op, ast.USub) and isinstance(v.operand, ast.Constant)) for v in st.value.elts):
                new = [ast.copy_location(ast.Assign(targets=[ast.Name(id=t.id, ctx=ast.Store())], value=v), st) for t, v in zip(st.targets[0].elts, st.value.elts)]
                block[i:i + 1] = new
                i += len(new)
                n += 1
                continue
            i += 1
    if n:
        ast.fix_missing_locations(fn)
    return n


def format_to_fstring(fn: ast.AST) -> int:
    """`"{:04d}{}".format(a, b)` -> f"{a:04d}{b}" (literal template, positional arguments, automatic or explicit numbering)."""
    import string
    n = 0

    class T(ast.NodeTransformer):
        def visit_Call(self, node):
            self.generic_visit(node)
            f = node.func
            if not (isinstance(f, ast.Attribute) and f.attr == "format" and isinstance(f.value, ast.Constant) and isinstance(f.value.value, str)
                    and not node.keywords and not any(isinstance(a, ast.Starred) for a in node.args)):
                return node
            parts = []
            auto = 0
            try:
                for lit, field, spec, conv in string.Formatter().parse(f.value.value):
                    if lit:
                        parts.append(ast.Constant(value=lit))
                    if field is None:
                        continue
                    if field == "":
                        ix = auto
                        auto += 1
                    elif field.isdigit():
                        ix = int(field)
                    else:
                        return node
                    if ix >= len(node.args) or (spec and ("{" in spec)):
                        return node
                    parts.append(ast.FormattedValue(value=node.args[ix], conversion=ord(conv) if conv else -1,
                                                    format_spec=ast.JoinedStr(values=[ast.Constant(value=spec)]) if spec else None))
            except ValueError:
                return node
            nonlocal n
            n += 1
            return ast.copy_location(ast.JoinedStr(values=parts), node)
    T().visit(fn)
    if n:
        ast.fix_missing_locations(fn)
    return n


def element_augassign(fn: ast.FunctionDef) -> int:
    """`a[i] = a[i] + E` -> `a[i] += E` for a single element (index without slice, pure): the same read-modify-write of one cell."""
    n = 0
    ops = {ast.Add: ast.Add, ast.Sub: ast.Sub, ast.Mult: ast.Mult, ast.Div: ast.Div}
    for owner, block in _blocks(fn):
        for i, st in enumerate(block):
            if not (isinstance(st, ast.Assign) and len(st.targets) == 1 and isinstance(st.targets[0], ast.Subscript) and isinstance(st.value, ast.BinOp)
                    and type(st.value.op) in ops):
                continue
            t = st.targets[0]
            if any(isinstance(x, ast.Slice) for x in ast.walk(t.slice)) or not _is_pure(t.slice) or not isinstance(t.value, ast.Name):
                continue
            if ast.unparse(st.value.left) == ast.unparse(t):
                block[i] = ast.copy_location(ast.AugAssign(target=t, op=type(st.value.op)(), value=st.value.right), st)
                n += 1
    if n:
        ast.fix_missing_locations(fn)
    return n


def unpack_indexed_tuple(fn: ast.FunctionDef, tree: ast.Module, ref_names: Set[str]) -> int:
    """`r = f(x); a = r[0]; b = r[1]` -> `a, b = f(x)` when f is a function of this module whose every return is a tuple of that length and r is a
    local the reference does not have, read nowhere else."""
    n = 0
    tops = {x.name: x for x in tree.body if isinstance(x, ast.FunctionDef)}
    for owner, block in _blocks(fn):
        for i, st in enumerate(block):
            if not (isinstance(st, ast.Assign) and len(st.targets) == 1 and isinstance(st.targets[0], ast.Name) and isinstance(st.value, ast.Call)
                    and isinstance(st.value.func, ast.Name) and st.value.func.id in tops):
                continue
            r = st.targets[0].id
            if r in ref_names:
                continue
            rets = [x for x in ast.walk(tops[st.value.func.id]) if isinstance(x, ast.Return)]
            if not rets or not all(isinstance(x.value, ast.Tuple) for x in rets) or len({len(x.value.elts) for x in rets}) != 1:
                continue
            k = len(rets[0].value.elts)
            follow = block[i + 1:i + 1 + k]
            if len(follow) != k:
                continue
            ok = all(isinstance(s_, ast.Assign) and len(s_.targets) == 1 and isinstance(s_.value, ast.Subscript) and isinstance(s_.value.value, ast.Name)
                     and s_.value.value.id == r and isinstance(s_.value.slice, ast.Constant) and s_.value.slice.value == j and _is_pure(s_.targets[0])
                     for j, s_ in enumerate(follow))
            reads = sum(1 for x in ast.walk(fn) if isinstance(x, ast.Name) and x.id == r and isinstance(x.ctx, ast.Load))
            stores = sum(1 for x in ast.walk(fn) if isinstance(x, ast.Name) and x.id == r and isinstance(x.ctx, ast.Store))
            if not ok or reads != k or stores != 1:
                continue
            tgt = ast.Tuple(elts=[s_.targets[0] for s_ in follow], ctx=ast.Store())
            block[i:i + 1 + k] = [ast.copy_location(ast.Assign(targets=[tgt], value=st.value), st)]
            ast.fix_missing_locations(fn)
            return 1 + unpack_indexed_tuple(fn, tree, ref_names)
    return n


def split_conditional_temp(fn: ast.FunctionDef, ref_names: Set[str]) -> int:
    """`if c: t = A else: t = B` followed by statements reading t (t new, A and B constants or names): the readers are duplicated into the
    arms with t replaced (`t = 1 if robust else 0; lopt = g[t, 1]` -> `if robust: lopt = g[1, 1] else: lopt = g[0, 1]`)."""
    import copy
    for owner, block in _blocks(fn):
        for i, st in enumerate(block):
            if not (isinstance(st, ast.If) and len(st.body) == 1 and len(st.orelse) == 1):
                continue
            a, b = st.body[0], st.orelse[0]
            if not all(isinstance(x, ast.Assign) and len(x.targets) == 1 and isinstance(x.targets[0], ast.Name) and isinstance(x.value, (ast.Constant, ast.Name)) for x in (a, b)):
                continue
            t = a.targets[0].id
            if t != b.targets[0].id or t in ref_names or t in _params(fn):
                continue
            if sum(1 for x in ast.walk(fn) if isinstance(x, ast.Name) and x.id == t and isinstance(x.ctx, ast.Store)) != 2:
                continue
            rest = block[i + 1:]
            last = max((k for k, r in enumerate(rest) if any(isinstance(x, ast.Name) and x.id == t for x in ast.walk(r))), default=-1)
            all_reads = sum(1 for x in ast.walk(fn) if isinstance(x, ast.Name) and x.id == t and isinstance(x.ctx, ast.Load))
            readers = rest[:last + 1]
            here = sum(1 for r in readers for x in ast.walk(r) if isinstance(x, ast.Name) and x.id == t and isinstance(x.ctx, ast.Load))
            if last < 0 or here != all_reads or len(readers) > 3:
                continue
            srcs = {x.value.id for x in (a, b) if isinstance(x.value, ast.Name)}
            if srcs & _stores_in(readers) or any(isinstance(x, (ast.Return, ast.Break, ast.Continue)) for r in readers[:-1] for x in ast.walk(r)):
                continue
            st.body = [_Subst({t: a.value}).visit(copy.deepcopy(r)) for r in readers]
            st.orelse = [_Subst({t: b.value}).visit(copy.deepcopy(r)) for r in readers]
            del block[i + 1:i + 2 + last]
            ast.fix_missing_locations(fn)
            return 1 + split_conditional_temp(fn, ref_names)
    return 0


def unit_shape_tuple(fn: ast.FunctionDef) -> int:
    """np.zeros((n,)) -> np.zeros(n): a one-element shape tuple and the bare length allocate the same 1-d array."""
    n = 0
    for c in ast.walk(fn):
        if isinstance(c, ast.Call) and ast.unparse(c.func).split(".")[-1] in ("zeros", "ones", "empty", "full") and c.args \
                and isinstance(c.args[0], ast.Tuple) and len(c.args[0].elts) == 1 and not isinstance(c.args[0].elts[0], ast.Starred):
            c.args[0] = c.args[0].elts[0]
            n += 1
    return n


def nonzero_to_where(fn: ast.FunctionDef) -> int:
    """`np.nonzero(c)` -> `np.where(c)` (documented as the same call)."""
    n = 0
    for c in ast.walk(fn):
        if isinstance(c, ast.Call) and isinstance(c.func, ast.Attribute) and c.func.attr == "nonzero" and isinstance(c.func.value, ast.Name) and c.func.value.id in ("np", "numpy") \
                and len(c.args) == 1 and not c.keywords:
            c.func.attr = "where"
            n += 1
    return n


def whole_array_rhs(fn: ast.FunctionDef) -> int:
    """`X[:] = Y` / `X[0:m] = Y` with Y a bare array name -> `... = Y[:]` (NumPy copies the same cells either way)."""
    subscripted = {n.value.id for n in ast.walk(fn) if isinstance(n, ast.Subscript) and isinstance(n.value, ast.Name)}
    # also: names iterated over element-wise, or created by an array constructor (a sequence supports [:] with the same cells)
    subscripted |= {n.iter.id for n in ast.walk(fn) if isinstance(n, (ast.For, ast.comprehension)) and isinstance(n.iter, ast.Name)}
    subscripted |= {st.targets[0].id for st in ast.walk(fn) if isinstance(st, ast.Assign) and isinstance(st.targets[0], ast.Name) and isinstance(st.value, ast.Call)
                    and ast.unparse(st.value.func).split(".")[-1] in ("zeros", "ones", "where", "copy", "full", "full_like", "zeros_like", "array", "arange", "ws2d")}
    n_done = 0
    for st in ast.walk(fn):
        if isinstance(st, ast.Assign) and len(st.targets) == 1 and isinstance(st.targets[0], ast.Subscript) and isinstance(st.targets[0].slice, ast.Slice) \
                and st.targets[0].slice.step is None and isinstance(st.value, ast.Name) and st.value.id in subscripted:
            st.value = ast.copy_location(ast.Subscript(value=st.value, slice=ast.Slice(lower=None, upper=None, step=None), ctx=ast.Load()), st.value)
            ast.fix_missing_locations(st)
            n_done += 1
    return n_done


def unguard_continue(fn: ast.FunctionDef) -> int:
    """Loop body `... ; if c: S ; continue ; REST`  ->  `... ; if c: S else: REST` (exact: `continue` at the end of an if-body that is a direct
    statement of the loop body only skips REST). With S empty: `if not c: REST`. Applied recursively to blocks in tail position."""
    n = 0

    def process(block: List[ast.stmt]):
        nonlocal n
        i = 0
        while i < len(block):
            st = block[i]
            if isinstance(st, ast.If) and st.body and isinstance(st.body[-1], ast.Continue) and not st.orelse:
                pre = st.body[:-1]
                if not any(isinstance(x, (ast.Continue, ast.Break)) for b_ in pre for x in ast.walk(b_)):
                    rest = block[i + 1:]
                    if not rest:
                        st.body = pre or [ast.copy_location(ast.Pass(), st)]
                    elif pre:
                        st.body = pre
                        st.orelse = rest
                        del block[i + 1:]
                    else:
                        st.test = negate(st.test)
                        st.body = rest
                        del block[i + 1:]
                    ast.fix_missing_locations(st)
                    n += 1
            i += 1
        # tail position: the last statement's branches are still "the rest of the loop body"
        if block and isinstance(block[-1], ast.If):
            process(block[-1].body)
            if block[-1].orelse:
                process(block[-1].orelse)
    for loop in ast.walk(fn):
        if isinstance(loop, (ast.For, ast.While)):
            process(loop.body)
    return n


# ------------------------------------------------------------------ imports, module constants, enumerate, private parameters, keyword calls

def _abs_module(dotted: str, level: int, module: Optional[str]) -> str:
    """Absolute module name of a (possibly relative) `from ... import`, seen from module `dotted` (a package's __init__ is the package)."""
    if level == 0:
        return module or ""
    parts = dotted.split(".")
    base = parts[: len(parts) - level] if not dotted.endswith("__init__") else parts[: len(parts) - level + 1]
    return ".".join(base + ([module] if module else []))


def import_table(dotted: str, tree: ast.AST, is_pkg: bool = False) -> Dict[str, str]:
    """local name -> qualified origin ('numba.njit', 'numpy', 'hdc.algo.ops.ws2d.ws2d') for every import statement of the module."""
    out: Dict[str, str] = {}
    for n in ast.walk(tree):
        if isinstance(n, ast.Import):
            for a in n.names:
                if a.asname:
                    out[a.asname] = a.name
                else:
                    out[a.name.split(".")[0]] = a.name.split(".")[0]
        elif isinstance(n, ast.ImportFrom):
            parts = dotted.split(".")
            if n.level:
                base = parts[: len(parts) - n.level + (1 if is_pkg else 0)]
                mod = ".".join(base + ([n.module] if n.module else []))
            else:
                mod = n.module or ""
            for a in n.names:
                out[a.asname or a.name] = f"{mod}.{a.name}"
    return out


def _norm_q(q: str) -> str:
    for a, b in (("numba.core.types.", "numba."), ("numba.types.", "numba."), ("numba.extending.", "numba."), ("numpy.core.", "numpy."), ("scipy.special._ufuncs.", "scipy.special.")):
        if q.startswith(a):
            q = b + q[len(a):]
    return q


def canonical_imports(dotted: str, tree: ast.Module, ref_imports: Dict[str, str], is_pkg: bool = False) -> int:
    """Re-spell every reference to an imported object the way the reference module spells it (`nb.njit` -> `njit`, `numpy.zeros` -> `np.zeros`,
    `math.log` -> `log`, `whittaker(...)` -> `ws2d(...)`). Which name an import is bound to changes nothing a user can observe."""
    cur = import_table(dotted, tree, is_pkg)
    if not cur or cur == ref_imports:
        return 0
    ref_by_q: Dict[str, str] = {}
    for loc, q in ref_imports.items():
        ref_by_q.setdefault(_norm_q(q), loc)
    n_done = 0
    # names bound as variables somewhere (function parameters / locals / module assignments) are not import references there; keep it simple:
    # a name that is both imported and assigned anywhere in the module is left alone
    assigned = {n.id for n in ast.walk(tree) if isinstance(n, ast.Name) and isinstance(n.ctx, ast.Store)}
    assigned |= {a.arg for f in ast.walk(tree) if isinstance(f, (ast.FunctionDef, ast.Lambda)) for a in f.args.args + f.args.kwonlyargs}

    def spell(q: str) -> Optional[ast.AST]:
        qn = _norm_q(q)
        if qn in ref_by_q:
            return ast.Name(id=ref_by_q[qn], ctx=ast.Load())
        parts = qn.split(".")
        for cut in range(len(parts) - 1, 0, -1):
            pref = ".".join(parts[:cut])
            if pref in ref_by_q:
                node: ast.AST = ast.Name(id=ref_by_q[pref], ctx=ast.Load())
                for attr in parts[cut:]:
                    node = ast.Attribute(value=node, attr=attr, ctx=ast.Load())
                return node
        return None

    class T(ast.NodeTransformer):
        def visit_Attribute(self, node):
            chain = []
            cur_ = node
            while isinstance(cur_, ast.Attribute):
                chain.append(cur_.attr)
                cur_ = cur_.value
            if isinstance(cur_, ast.Name) and cur_.id in cur and cur_.id not in assigned and isinstance(node.ctx, ast.Load):
                q = cur[cur_.id] + "." + ".".join(reversed(chain))
                # try the longest prefix that the reference can spell, keep the remaining attributes
                parts = q.split(".")
                for cut in range(len(parts), len(cur[cur_.id].split(".")) - 1, -1):
                    sp = spell(".".join(parts[:cut]))
                    if sp is not None:
                        for attr in parts[cut:]:
                            sp = ast.Attribute(value=sp, attr=attr, ctx=ast.Load())
                        if ast.unparse(sp) != ast.unparse(node):
                            nonlocal n_done
                            n_done += 1
                        return ast.copy_location(sp, node)
                return node
            return self.generic_visit(node)

        def visit_Name(self, node):
            if isinstance(node.ctx, ast.Load) and node.id in cur and node.id not in assigned:
                sp = spell(cur[node.id])
                if sp is not None and ast.unparse(sp) != node.id:
                    nonlocal n_done
                    n_done += 1
                    return ast.copy_location(sp, node)
            return node
    for i, st in enumerate(tree.body):
        if isinstance(st, (ast.Import, ast.ImportFrom)):
            continue
        tree.body[i] = T().visit(st)
    if n_done:
        # the names now used must be bound: add the reference's import statements (absolute form) in front
        extra: List[ast.stmt] = []
        for loc, q in sorted(ref_imports.items()):
            if loc in cur and cur[loc] == q:
                continue
            if "." in q:
                mod, name = q.rsplit(".", 1)
                extra.append(ast.ImportFrom(module=mod, names=[ast.alias(name=name, asname=None if name == loc else loc)], level=0))
            else:
                extra.append(ast.Import(names=[ast.alias(name=q, asname=None if q == loc else loc)]))
        pos = 1 if tree.body and isinstance(tree.body[0], ast.Expr) and isinstance(getattr(tree.body[0], "value", None), ast.Constant) else 0
        tree.body[pos:pos] = extra
        ast.fix_missing_locations(tree)
    return n_done


def _const_expr(e: ast.AST, imports: Set[str]) -> bool:
    for n in ast.walk(e):
        if isinstance(n, (ast.Constant, ast.Tuple, ast.List, ast.UnaryOp, ast.BinOp, ast.USub, ast.UAdd, ast.Add, ast.Sub, ast.Mult, ast.Div, ast.Pow, ast.Load,
                          ast.Attribute, ast.Subscript, ast.Slice, ast.operator, ast.unaryop, ast.expr_context)):
            continue
        if isinstance(n, ast.Name) and n.id in imports:
            continue
        if isinstance(n, ast.Call) and ast.unparse(n.func).split(".")[-1] in IMMUTABLE_CTORS and not any(isinstance(a, ast.Starred) for a in n.args):
            continue        # an immutable value built once from constants (timedelta(microseconds=1), np.float64(0.9), log(10))
        if isinstance(n, ast.keyword):
            continue
        return False
    return True


IMMUTABLE_CTORS = {"timedelta", "float", "int", "float64", "float32", "int16", "int32", "int64", "uint8", "sqrt", "log", "log10", "exp", "dtype", "frozenset", "date", "datetime",
                   "datetime64", "timedelta64", "Fraction"}


def inline_module_constants(tree: ast.Module, ref_globals: Set[str], imports: Set[str]) -> List[str]:
    """Module-level `NAME = <literal expression>` the reference module does not have is substituted wherever it is read
    (named constants for literals, hoisted signature lists and layout strings)."""
    import copy
    consts: Dict[str, ast.AST] = {}
    counts: Dict[str, int] = {}
    for n in ast.walk(tree):
        if isinstance(n, ast.Name) and isinstance(n.ctx, (ast.Store, ast.Del)):
            counts[n.id] = counts.get(n.id, 0) + 1
    for f in ast.walk(tree):
        if isinstance(f, (ast.FunctionDef, ast.Lambda)):
            for a in f.args.args + f.args.kwonlyargs:
                counts[a.arg] = counts.get(a.arg, 0) + 1
        if isinstance(f, ast.Global):
            for nm in f.names:
                counts[nm] = counts.get(nm, 0) + 2
    order = []
    for st in tree.body:
        tgt = None
        if isinstance(st, ast.Assign) and len(st.targets) == 1 and isinstance(st.targets[0], ast.Name):
            tgt, val = st.targets[0].id, st.value
        elif isinstance(st, ast.AnnAssign) and isinstance(st.target, ast.Name) and st.value is not None:
            tgt, val = st.target.id, st.value
        if tgt is None or tgt in ref_globals or tgt == "__all__" or counts.get(tgt, 0) != 1:
            continue
        # earlier constants may appear in later ones
        val2 = _Subst(consts).visit(copy.deepcopy(val)) if consts else val
        if _const_expr(val2, imports):
            consts[tgt] = val2
            order.append(tgt)
    if not consts:
        return []
    sub = _Subst(consts)
    for i, st in enumerate(tree.body):
        if isinstance(st, (ast.Assign, ast.AnnAssign)) and (st.targets[0].id if isinstance(st, ast.Assign) and isinstance(st.targets[0], ast.Name) else
                                                            getattr(getattr(st, "target", None), "id", None)) in consts:
            continue
        tree.body[i] = _FoldLiteralSeq().visit(sub.visit(st))
    ast.fix_missing_locations(tree)
    return order


class _FoldLiteralSeq(ast.NodeTransformer):
    """Constant folding made necessary by substituted constants: `len((a, b))` -> 2, `list((a, b))` -> `[a, b]`, `tuple([a, b])` -> `(a, b)`
    (the builtins applied to a literal display whose elements are free of effects; a fresh list is built either way)."""

    def visit_Call(self, node):
        self.generic_visit(node)
        if isinstance(node.func, ast.Name) and node.func.id in ("len", "list", "tuple") and len(node.args) == 1 and not node.keywords \
                and isinstance(node.args[0], (ast.Tuple, ast.List)) and not any(isinstance(e, ast.Starred) for e in node.args[0].elts) \
                and all(_is_pure(e) for e in node.args[0].elts):
            elts = node.args[0].elts
            if node.func.id == "len":
                return ast.copy_location(ast.Constant(value=len(elts)), node)
            if node.func.id == "list":
                return ast.copy_location(ast.List(elts=elts, ctx=ast.Load()), node)
            return ast.copy_location(ast.Tuple(elts=elts, ctx=ast.Load()), node)
        return node


def strip_local_annotations(tree: ast.AST) -> int:
    """`x: T = v` inside a function -> `x = v` (annotations of local variables are never evaluated); a bare `x: T` declaration is dropped."""
    n = 0
    for f in ast.walk(tree):
        if not isinstance(f, (ast.FunctionDef, ast.AsyncFunctionDef)):
            continue
        for owner in ast.walk(f):
            for field in ("body", "orelse", "finalbody"):
                block = getattr(owner, field, None)
                if not isinstance(block, list):
                    continue
                for i, st in enumerate(list(block)):
                    if isinstance(st, ast.AnnAssign) and isinstance(st.target, ast.Name) and st.simple:
                        if st.value is not None:
                            block[block.index(st)] = ast.copy_location(ast.Assign(targets=[ast.Name(id=st.target.id, ctx=ast.Store())], value=st.value), st)
                        elif len(block) > 1:
                            block.remove(st)
                        else:
                            block[block.index(st)] = ast.copy_location(ast.Pass(), st)
                        n += 1
    if n:
        ast.fix_missing_locations(tree)
    return n


def split_walrus_and(fn: ast.FunctionDef) -> int:
    """`if A and B: S` (no else) with an assignment expression in B -> `if A: if B: S` (short-circuit evaluation is exactly this nesting; the
    reference spells its only walrus tests that way)."""
    n = 0
    for st in ast.walk(fn):
        if isinstance(st, ast.If) and not st.orelse and isinstance(st.test, ast.BoolOp) and isinstance(st.test.op, ast.And) \
                and any(isinstance(x, ast.NamedExpr) for v in st.test.values[1:] for x in ast.walk(v)):
            first, rest = st.test.values[0], st.test.values[1:]
            inner_test = rest[0] if len(rest) == 1 else ast.BoolOp(op=ast.And(), values=rest)
            inner = ast.copy_location(ast.If(test=inner_test, body=st.body, orelse=[]), st)
            st.test = first
            st.body = [inner]
            n += 1
    if n:
        ast.fix_missing_locations(fn)
    return n


def enumerate_to_range(fn: ast.FunctionDef) -> int:
    """`for i, x in enumerate(X)` -> `for i in range(len(X)): x = X[i]; ...` (the element is fetched at the start of the iteration either way)."""
    n_done = 0
    for loop in ast.walk(fn):
        if not (isinstance(loop, ast.For) and isinstance(loop.target, ast.Tuple) and len(loop.target.elts) == 2 and all(isinstance(e, ast.Name) for e in loop.target.elts)
                and isinstance(loop.iter, ast.Call) and isinstance(loop.iter.func, ast.Name) and loop.iter.func.id == "enumerate" and len(loop.iter.args) == 1
                and not loop.iter.keywords and isinstance(loop.iter.args[0], (ast.Name, ast.Attribute))):
            continue
        iv, xv = loop.target.elts[0].id, loop.target.elts[1].id
        seq = loop.iter.args[0]
        base = seq
        while isinstance(base, ast.Attribute):
            base = base.value
        if not isinstance(base, ast.Name) or base.id in {n.id for b in loop.body for n in ast.walk(b) if isinstance(n, ast.Name) and isinstance(n.ctx, ast.Store)}:
            continue
        import copy
        fetch = ast.Assign(targets=[ast.Name(id=xv, ctx=ast.Store())],
                           value=ast.Subscript(value=copy.deepcopy(seq), slice=ast.Name(id=iv, ctx=ast.Load()), ctx=ast.Load()))
        ast.copy_location(fetch, loop)
        loop.target = ast.copy_location(ast.Name(id=iv, ctx=ast.Store()), loop.target)
        loop.iter = ast.copy_location(ast.Call(func=ast.Name(id="range", ctx=ast.Load()),
                                               args=[ast.Call(func=ast.Name(id="len", ctx=ast.Load()), args=[copy.deepcopy(seq)], keywords=[])], keywords=[]), loop.iter)
        loop.body.insert(0, fetch)
        ast.fix_missing_locations(loop)
        n_done += 1
    return n_done


def align_private_params(tree: ast.Module, ref_params: Dict[str, List[str]], all_trees: Optional[List[ast.Module]] = None) -> Dict[str, Dict[str, str]]:
    """Parameters of private functions (leading underscore) renamed by a maintainer are renamed back: names present on both sides stay, the others
    pair up in order. Keyword arguments at the call sites inside the module follow. (A reordering of the parameters is left as it is.)"""
    out: Dict[str, Dict[str, str]] = {}
    for q, fn in _function_nodes(tree):
        name = q.split(".")[-1]
        if not name.startswith("_") or name.startswith("__") or q not in ref_params:
            continue
        cur = [a.arg for a in fn.args.args]
        ref = ref_params[q]
        if cur == ref or len(cur) != len(ref):
            continue
        if set(cur) == set(ref) and not fn.args.defaults and not fn.args.vararg and not fn.args.kwarg:
            # same names in another order: restore the reference order at the definition and at every positional call site
            calls = [c for t_ in (all_trees or [tree]) for c in ast.walk(t_) if isinstance(c, ast.Call) and ast.unparse(c.func).split(".")[-1] == name]
            if all(len(c.args) == len(cur) and not c.keywords and not any(isinstance(a_, ast.Starred) for a_ in c.args) for c in calls):
                perm = [cur.index(r) for r in ref]
                fn.args.args = [fn.args.args[k] for k in perm]
                for c in calls:
                    c.args = [c.args[k] for k in perm]
                out[q] = {"<reordered>": ",".join(ref)}
            continue
        common = set(cur) & set(ref)
        cr = [c for c in cur if c not in common]
        rr = [r for r in ref if r not in common]
        if len(cr) != len(rr):
            continue
        used = {n.id for n in ast.walk(fn) if isinstance(n, ast.Name)} | set(cur)
        m = {c: r for c, r in zip(cr, rr) if r not in used}
        if not m:
            continue
        for a in fn.args.args:
            if a.arg in m:
                a.arg = m[a.arg]
        _Rename(m).visit(fn)
        for t_ in (all_trees or [tree]):
            for c in ast.walk(t_):
                if isinstance(c, ast.Call) and ast.unparse(c.func).split(".")[-1] == name:
                    for kw in c.keywords:
                        if kw.arg in m:
                            kw.arg = m[kw.arg]
        out[q] = m
    return out


def keyword_calls(tree: ast.AST) -> List[str]:
    return sorted({f"{ast.unparse(c.func).split('.')[-1]}:{k.arg}" for c in ast.walk(tree) if isinstance(c, ast.Call) for k in c.keywords if k.arg})


def positional_calls(tree: ast.Module, sigs: Dict[str, List[str]], keep: Optional[Set[str]] = None) -> int:
    """`f(a, w=b, lmda=c)` -> `f(a, c, b)` for functions of the package called by keyword where the reference calls by position."""
    n_done = 0
    for c in ast.walk(tree):
        if not isinstance(c, ast.Call) or not c.keywords or any(k.arg is None for k in c.keywords) or any(isinstance(a, ast.Starred) for a in c.args):
            continue
        name = ast.unparse(c.func).split(".")[-1]
        params = sigs.get(name)
        if not params or len(c.args) > len(params):
            continue
        kw = {k.arg: k.value for k in c.keywords}
        partial = bool(params) and params[-1] == "*"        # leading parameters of a library call; further keywords are left alone
        if partial:
            params = params[:-1]
            if len(c.args) > len(params):
                continue
        elif not set(kw) <= set(params[len(c.args):]):
            continue
        new_args = list(c.args)
        for pn in params[len(c.args):]:
            if pn in kw and not (keep and f"{name}:{pn}" in keep):
                new_args.append(kw.pop(pn))
            else:
                break
        if len(new_args) == len(c.args):
            continue
        c.args = new_args
        c.keywords = [k for k in c.keywords if k.arg in kw]
        n_done += 1
    return n_done


def ifexp_targets(fn: ast.FunctionDef) -> List[str]:
    return sorted({ast.unparse(st.targets[0]) for st in ast.walk(fn) if isinstance(st, ast.Assign) and len(st.targets) == 1 and isinstance(st.value, ast.IfExp)})


def snapshot(tree: ast.Module, dotted: str = "", is_pkg: bool = False) -> Dict[str, List[List[str]]]:
    out = {q: [list(x) for x in local_bindings(fn)] for q, fn in _function_nodes(tree)}
    out["<ifexp>"] = {q: ifexp_targets(fn) for q, fn in _function_nodes(tree) if ifexp_targets(fn)}
    out["<imports>"] = import_table(dotted, tree, is_pkg)
    out["<kwcalls>"] = keyword_calls(tree)
    out["<params>"] = {q: [a.arg for a in fn.args.args] for q, fn in _function_nodes(tree)}
    out["<compares>"] = {q: sorted({ast.unparse(c) for c in ast.walk(fn) if isinstance(c, ast.Compare) and len(c.ops) == 1 and type(c.ops[0]) in _MIRROR})
                         for q, fn in _function_nodes(tree)}
    out["<compares>"] = {q: v for q, v in out["<compares>"].items() if v}
    out["<returns>"] = {q: _own_returns(fn) for q, fn in _function_nodes(tree)}
    out["<counterloops>"] = {q: counter_loops(fn) for q, fn in _function_nodes(tree) if counter_loops(fn)}
    out["<lambdas>"] = {q: sorted({t.id for st in ast.walk(fn) if isinstance(st, ast.Assign) and isinstance(st.value, ast.Lambda) for t in st.targets if isinstance(t, ast.Name)})
                        for q, fn in _function_nodes(tree)}
    out["<lambdas>"] = {q: v for q, v in out["<lambdas>"].items() if v}
    out["<nested>"] = {q: sorted({n.name for n in ast.walk(fn) if isinstance(n, ast.FunctionDef) and n is not fn}) for q, fn in _function_nodes(tree)}
    out["<nested>"] = {q: v for q, v in out["<nested>"].items() if v}
    modfuncs = {n.name for n in tree.body if isinstance(n, ast.FunctionDef)}
    out["<calls>"] = {q: sorted({c.func.id for c in ast.walk(fn) if isinstance(c, ast.Call) and isinstance(c.func, ast.Name) and c.func.id in modfuncs})
                      for q, fn in _function_nodes(tree)}
    out["<globals>"] = sorted({t.id for st in tree.body if isinstance(st, ast.Assign) for t in st.targets if isinstance(t, ast.Name)}
                              | {st.target.id for st in tree.body if isinstance(st, ast.AnnAssign) and isinstance(st.target, ast.Name)})
    return out

"""Alpha-renaming of local variables towards the reference names (rename-robustness of every check).

Many rules name a local variable of today's code (`r_weights`, `lambda_range`, `Sxx`, `tix`, ...).  A maintainer who renames a
local changes nothing a user can observe, so a check must not alarm.  Instead of making every rule guess roles, the loader
renames the locals of every function *back* to the names recorded for the reference tree (`ref/names.json`, generated from the
tree the checks were written against by `tools/gen_refnames.py`) whenever it can align them.

Soundness does not depend on the alignment being "right": ANY injective renaming of a function's local variables that does not
collide with its parameters, globals, builtins or attribute names yields an alpha-equivalent program, and every rule is decided
on that equivalent program.  The alignment only decides which equivalent program is looked at; a bad alignment can cost a
spurious report, never a missed one.

Alignment: locals are listed in order of first binding, each with a fingerprint of the binding statement in which every local
name is replaced by a placeholder (so a pure rename keeps all fingerprints).  The two lists (reference, current) are aligned by
longest common subsequence on the fingerprints; aligned pairs with different names are renamed current -> reference, provided
the result stays injective and collision-free.  Inserted or removed temporaries simply stay unaligned.
"""
from __future__ import annotations

import ast
import builtins
import json
from pathlib import Path
from typing import Dict, List, Optional, Set, Tuple

REF = Path(__file__).resolve().parent.parent / "ref" / "names.json"


def _function_nodes(tree: ast.Module):
    """(qualified name, FunctionDef) for top-level functions and methods of top-level classes."""
    for n in tree.body:
        if isinstance(n, ast.FunctionDef):
            yield n.name, n
        elif isinstance(n, ast.ClassDef):
            for m in n.body:
                if isinstance(m, ast.FunctionDef):
                    yield f"{n.name}.{m.name}", m


def _params(fn: ast.FunctionDef) -> Set[str]:
    a = fn.args
    out = {x.arg for x in a.posonlyargs + a.args + a.kwonlyargs}
    if a.vararg:
        out.add(a.vararg.arg)
    if a.kwarg:
        out.add(a.kwarg.arg)
    return out


def _inner_params(fn: ast.FunctionDef) -> Set[str]:
    out: Set[str] = set()
    for n in ast.walk(fn):
        if n is fn:
            continue
        if isinstance(n, (ast.FunctionDef, ast.Lambda)):
            a = n.args
            out |= {x.arg for x in a.posonlyargs + a.args + a.kwonlyargs}
            if isinstance(n, ast.FunctionDef):
                out.add(n.name)
    return out


class _Mask(ast.NodeTransformer):
    def __init__(self, locals_: Set[str]):
        self.locals = locals_

    def visit_Name(self, node):
        if node.id in self.locals:
            return ast.copy_location(ast.Name(id="_", ctx=ast.Load()), node)
        return ast.copy_location(ast.Name(id=node.id, ctx=ast.Load()), node)


def _fingerprint(stmt: ast.AST, locals_: Set[str], role: str) -> str:
    import copy
    s = copy.deepcopy(stmt)
    if isinstance(s, (ast.For, ast.While, ast.If, ast.With, ast.Try)):
        # only the header of a compound statement
        if isinstance(s, ast.For):
            s = ast.Tuple(elts=[s.target, s.iter], ctx=ast.Load())
        elif isinstance(s, ast.With):
            s = ast.Tuple(elts=[i.context_expr for i in s.items], ctx=ast.Load())
        else:
            s = getattr(s, "test", ast.Constant(value=None))
    s = _Mask(locals_).visit(s)
    return role + ":" + ast.dump(s, annotate_fields=False, include_attributes=False)


def local_bindings(fn: ast.FunctionDef) -> List[Tuple[str, str]]:
    """[(name, fingerprint)] of the function's local variables in order of first binding."""
    params = _params(fn)
    skip = _inner_params(fn)
    stores: List[Tuple[int, int, str, ast.AST, str]] = []
    par: Dict[int, ast.AST] = {}
    for p in ast.walk(fn):
        for c in ast.iter_child_nodes(p):
            par[id(c)] = p
    all_locals: Set[str] = set()
    glob: Set[str] = set()
    for n in ast.walk(fn):
        if isinstance(n, (ast.Global, ast.Nonlocal)):
            glob |= set(n.names)
    for n in ast.walk(fn):
        if isinstance(n, ast.Name) and isinstance(n.ctx, ast.Store) and n.id not in params and n.id not in skip and n.id not in glob:
            all_locals.add(n.id)
    for n in ast.walk(fn):
        if isinstance(n, ast.Name) and isinstance(n.ctx, ast.Store) and n.id in all_locals:
            st = n
            while id(st) in par and not isinstance(st, (ast.stmt, ast.comprehension, ast.NamedExpr)):
                st = par[id(st)]
            # position of the name among the store targets of that statement (tuple unpacking)
            tg = [x.id for x in ast.walk(st) if isinstance(x, ast.Name) and isinstance(x.ctx, ast.Store)]
            pos = tg.index(n.id) if n.id in tg else 0
            stores.append((n.lineno, n.col_offset, n.id, st, f"{type(st).__name__}#{pos}"))
    stores.sort(key=lambda t: (t[0], t[1]))
    seen: Set[str] = set()
    out: List[Tuple[str, str]] = []
    for _, _, name, st, role in stores:
        if name in seen:
            continue
        seen.add(name)
        out.append((name, _fingerprint(st, all_locals, role)))
    return out


def _lcs(a: List[str], b: List[str]) -> List[Tuple[int, int]]:
    n, m = len(a), len(b)
    L = [[0] * (m + 1) for _ in range(n + 1)]
    for i in range(n - 1, -1, -1):
        for j in range(m - 1, -1, -1):
            L[i][j] = L[i + 1][j + 1] + 1 if a[i] == b[j] else max(L[i + 1][j], L[i][j + 1])
    out, i, j = [], 0, 0
    while i < n and j < m:
        if a[i] == b[j]:
            out.append((i, j))
            i += 1
            j += 1
        elif L[i + 1][j] >= L[i][j + 1]:
            i += 1
        else:
            j += 1
    return out


def rename_map(fn: ast.FunctionDef, ref: List[List[str]]) -> Dict[str, str]:
    """current local name -> reference name, for the locals that align with a differently named reference local."""
    cur = local_bindings(fn)
    if not cur or not ref:
        return {}
    cur_names = [c[0] for c in cur]
    ref_names = [r[0] for r in ref]
    if set(cur_names) == set(ref_names):
        return {}
    # names present on both sides are anchors: keep them, align only the rest (in order, by fingerprint)
    common = set(cur_names) & set(ref_names)
    cur_rest = [(n, f) for n, f in cur if n not in common]
    ref_rest = [(n, f) for n, f in ref if n not in common]
    pairs = _lcs([f for _, f in ref_rest], [f for _, f in cur_rest])
    mapping: Dict[str, str] = {}
    used_targets: Set[str] = set()
    # every identifier the function mentions (names, attributes are not affected by Name renaming but parameters/globals are)
    mentioned = {n.id for n in ast.walk(fn) if isinstance(n, ast.Name)} | _params(fn) | _inner_params(fn)
    for i, j in pairs:
        rn, cn = ref_rest[i][0], cur_rest[j][0]
        if rn == cn or rn in used_targets or cn in mapping:
            continue
        if rn in mentioned or hasattr(builtins, rn):
            continue  # would capture another variable
        mapping[cn] = rn
        used_targets.add(rn)
    return mapping


class _Rename(ast.NodeTransformer):
    def __init__(self, mapping: Dict[str, str]):
        self.m = mapping

    def visit_Name(self, node):
        if node.id in self.m:
            node.id = self.m[node.id]
        return node


def load_reference() -> Dict[str, Dict[str, List[List[str]]]]:
    if not REF.exists():
        return {}
    return json.loads(REF.read_text())


def canonicalise(dotted: str, tree: ast.Module, reference: Optional[dict] = None) -> Dict[str, Dict[str, str]]:
    """Rename locals of every function of `tree` in place; returns {qualified function: {current: reference}}."""
    reference = load_reference() if reference is None else reference
    refmod = reference.get(dotted, {})
    applied: Dict[str, Dict[str, str]] = {}
    for q, fn in _function_nodes(tree):
        ref = refmod.get(q)
        if not ref:
            continue
        m = rename_map(fn, ref)
        if m:
            _Rename(m).visit(fn)
            applied[q] = m
    return applied


def snapshot(tree: ast.Module) -> Dict[str, List[List[str]]]:
    return {q: [list(x) for x in local_bindings(fn)] for q, fn in _function_nodes(tree)}

"""R-DIVGUARD — classification of every division in a kernel function.

Scalar `/`, `//`, `%` raise ZeroDivisionError under Numba's Python error model (and
abort a whole gufunc call); array divisions follow NumPy (inf/nan).  Each denominator is
decomposed into multiplicative factors and every factor must be shown non-zero by one
of: non-zero constant, dominating guard on the same value (CFG + reaching definitions),
affine bound from loop ranges / contract minimums, positive-counter lemma, or a frozen
table entry (pivot, contract, lemma) that names its reason.  Denominators that are
robust scales (derived from a median) are obligations of the *scale* flavour.
"""
from __future__ import annotations

import ast
from dataclasses import dataclass, field
from fractions import Fraction
from typing import Dict, List, Optional, Set, Tuple

from .cfg import CFG, Node, enclosing_loops
from .core import AnalysisError, norm_stmt
from .dataflow import ReachingDefs
from .poly import Normaliser, Poly, Rat, Unsupported


# ---- frozen tables (one reason per entry) ---------------------------------------------------
PIVOT = {
    # function -> array whose elements are LDL' pivots
    "ws2d": ("d", "LDL' pivot of the SPD matrix W + lambda*D'D: positive when >= 2 weights are positive and lambda > 0 (C01 lemma); "
                  "every caller passes lambda > 0 behind its lmda != 0 / grid definition and >= 2 valid cells behind its count guard"),
}
CONTRACT_MIN = {
    # (function, size atom) -> (minimum, reason)
    ("mk_score", "len0[x]"): (2, "series length >= 2 (C10 quantifier: length 2..~200)"),
    ("mk_sens_slope", "size[x]"): (2, "series length >= 2 (C10 quantifier)"),
    ("autocorr_1d_int", "len0[xx]"): (2, "series length >= 3 (C15 quantifier) => len(data[:-1]) >= 2"),
    ("autocorr_1d_float", "len0[xx]"): (2, "series length >= 3 (C15 quantifier) => len(data[:-1]) >= 2"),
}
LEMMA = {
    # (function, factor key) -> (required guard facts on other expressions (any of), reason)
    ("mk_z_score", "sqrt[vs]"): (["s"], "S != 0 implies at least two distinct values, hence Var(S) > 0; the division is reached only under s > 0 or s < 0"),
    ("ws2doptv", "llastep"): ([], "srange is uniformly spaced ascending with step > 0 (C04/C14 contract: srange of >= 2 entries)"),
    ("ws2doptvp", "llastep"): ([], "srange is uniformly spaced ascending with step > 0 (contract)"),
    ("_ws2doptvp", "llastep"): ([], "srange is uniformly spaced ascending with step > 0 (contract)"),
    ("ws2doptvplc", "llastep"): ([], "grid is np.arange(.., .., 0.2): step 0.2"),
}
WEIGHT_SUM = "sum of solver weights: positive while at least one valid cell keeps a positive robust weight (a least-squares fit has a non-negative weighted residual, whose cell gets weight 1)"
BRENT = {"brentq": "port of SciPy's brentq.c: float differences of bracket end points/values; listed, not decided (C07/C08 decline the Brent iteration)"}
LISTED = {
    # (function, factor key) -> reason: numerical denominators that are listed in the evidence but not decided
    ("*gcv", "sum[w_temp]"): WEIGHT_SUM,
    ("*gcv", "denominator"): "GCV denominator sum(w)*(1 - trH/sum(w))**2: zero only if trH equals the weight sum; numerical, listed and not decided",
}
GCV_FUNCS = {"ws2dwcv", "ws2dwcvp", "_ws2dwcvp"}
NONZERO_FUNCS = {"log[10]": "log(10) is a non-zero constant"}


@dataclass
class Division:
    function: str
    stmt: ast.AST
    node: ast.AST
    op: str
    den: ast.expr
    flavour: str = "scalar"  # scalar | array | scale
    klass: str = ""
    ok: bool = False
    obligation: bool = True
    reason: str = ""
    factors: List[Tuple[str, str, bool, str]] = field(default_factory=list)  # (key, class, ok, reason)

    @property
    def line(self):
        return self.node.lineno


from .arrays import ARRAY_CTORS, REDUCTIONS, array_names, _funcname  # noqa: E402


class DivAnalysis:
    def __init__(self, fn: ast.FunctionDef, file: str, array_params: Set[str], contract_extra=None):
        self.fn = fn
        self.file = file
        self.cfg = CFG(fn)
        self.rd = ReachingDefs(self.cfg)
        self.loops = enclosing_loops(fn)
        self.arr, self.is_arr = array_names(fn, array_params)
        self.divisions: List[Division] = []
        self.contract_extra = contract_extra or {}

    # ------------------------------------------------------------------ resolution
    def unique_def(self, node: Node, name: str) -> Optional[ast.expr]:
        ds = self.rd.reaching(node, name)
        if len(ds) != 1:
            return None
        d = ds[0]
        st = d.stmt
        if d.kind == "stmt" and isinstance(st, ast.Assign) and len(st.targets) == 1 and isinstance(st.targets[0], ast.Name):
            # operands must not have been redefined between the definition and the use
            for nm in {x.id for x in ast.walk(st.value) if isinstance(x, ast.Name)}:
                a = {dd.id for dd in self.rd.reaching(d, nm)}
                b = {dd.id for dd in self.rd.reaching(node, nm)}
                if a != b and nm != name:
                    return None
            return st.value
        return None

    def resolve(self, e: ast.expr, node: Node, depth=4) -> Rat:
        env: Dict[str, Rat] = {}

        def on_name(nm):
            if depth <= 0:
                return None
            d = self.unique_def(node, nm)
            if d is None:
                return None
            if isinstance(d, ast.Call) and _funcname(d.func) in ARRAY_CTORS:
                return None
            try:
                return self._resolve_at(d, node, depth - 1)
            except Unsupported:
                return None
        return Normaliser(env, on_name=on_name).norm(e)

    def _resolve_at(self, e, node, depth):
        return self.resolve(e, node, depth)

    # ------------------------------------------------------------------ guard facts
    def facts_at(self, node: Node) -> Dict[str, str]:
        """key of expression -> 'pos' | 'nonzero', from dominating branch conditions."""
        facts: Dict[str, str] = {}

        def add(e: ast.expr, kind: str, gnode: Node):
            # the guarded value must be the value at `node`: same reaching definitions
            for nm in {x.id for x in ast.walk(e) if isinstance(x, ast.Name)}:
                a = {d.id for d in self.rd.reaching(gnode, nm)}
                b = {d.id for d in self.rd.reaching(node, nm)}
                if a != b:
                    return
            try:
                k = self.resolve(e, gnode).key()
                k0 = Normaliser().norm(e).key()
            except Unsupported:
                return
            for kk in (k, k0):
                if facts.get(kk) != "pos":
                    facts[kk] = kind

        def interp(test: ast.expr, arm: bool, gnode: Node):
            if isinstance(test, ast.BoolOp):
                if isinstance(test.op, ast.And) and arm:
                    for v in test.values:
                        interp(v, True, gnode)
                elif isinstance(test.op, ast.Or) and not arm:
                    for v in test.values:
                        interp(v, False, gnode)
                return
            if isinstance(test, ast.UnaryOp) and isinstance(test.op, ast.Not):
                interp(test.operand, not arm, gnode)
                return
            if not (isinstance(test, ast.Compare) and len(test.ops) == 1):
                return
            l, r, op = test.left, test.comparators[0], test.ops[0]

            def cval(x):
                try:
                    return Normaliser().norm(x).const_value()
                except Unsupported:
                    return None
            cl, cr = cval(l), cval(r)
            if cr is not None and cl is None:
                e, c = l, cr
                o = type(op)
            elif cl is not None and cr is None:
                e, c = r, cl
                o = {ast.Lt: ast.Gt, ast.LtE: ast.GtE, ast.Gt: ast.Lt, ast.GtE: ast.LtE}.get(type(op), type(op))
            else:
                return
            if not arm:
                o = {ast.Eq: ast.NotEq, ast.NotEq: ast.Eq, ast.Lt: ast.GtE, ast.LtE: ast.Gt, ast.Gt: ast.LtE, ast.GtE: ast.Lt}.get(o)
            if o is ast.NotEq and c == 0:
                add(e, "nonzero", gnode)
            elif o is ast.Gt and c >= 0:
                add(e, "pos", gnode)
            elif o is ast.GtE and c > 0:
                add(e, "pos", gnode)
            elif o is ast.Eq and c != 0:
                add(e, "nonzero", gnode)

        for g, arm in self.cfg.guards_of(node):
            interp(g.stmt.test, arm, g)
        return facts

    # ------------------------------------------------------------------ factor proofs
    def loop_lower_bounds(self, stmt) -> Dict[str, ast.expr]:
        out = {}
        for lp in self.loops.get(id(stmt), []):
            if isinstance(lp, ast.For) and isinstance(lp.target, ast.Name) and isinstance(lp.iter, ast.Call) \
                    and _funcname(lp.iter.func) in ("range", "prange"):
                a = lp.iter.args
                if len(a) == 1:
                    out[lp.target.id] = ast.Constant(0)
                elif len(a) == 2 or (len(a) == 3 and isinstance(a[2], ast.Constant) and a[2].value == 1):
                    out[lp.target.id] = a[0]
        return out

    def positive_counter(self, name: str, node: Node) -> Optional[str]:
        ds = self.rd.reaching(node, name)
        if not ds:
            return None
        for d in ds:
            st = d.stmt
            if d.kind != "stmt":
                return None
            if isinstance(st, ast.Assign) and isinstance(st.value, ast.Constant) and isinstance(st.value.value, int) \
                    and not isinstance(st.value.value, bool) and st.value.value >= 1:
                continue
            if isinstance(st, ast.AugAssign) and isinstance(st.op, ast.Add) and isinstance(st.value, ast.Constant) \
                    and isinstance(st.value.value, int) and st.value.value >= 0:
                # increment of a value that is itself a positive counter at that point
                inner = self.rd.reaching(d, name)
                if all((x.kind == "stmt" and ((isinstance(x.stmt, ast.Assign) and isinstance(x.stmt.value, ast.Constant)
                                                and isinstance(x.stmt.value.value, int) and x.stmt.value.value >= 1)
                                               or isinstance(x.stmt, ast.AugAssign))) for x in inner):
                    continue
                return None
            return None
        return "every reaching definition is a constant >= 1 or an increment of such a counter"

    def counter_info(self, name: str):
        """(loop, guard atoms) when `name` is a counter: initialised to 0 outside loops, one `+= 1` inside a loop."""
        inits, incs = [], []
        for n in self.cfg.stmt_nodes():
            st = n.stmt
            if n.kind != "stmt":
                continue
            if isinstance(st, ast.Assign) and len(st.targets) == 1 and isinstance(st.targets[0], ast.Name) and st.targets[0].id == name:
                inits.append(n)
            elif isinstance(st, ast.AugAssign) and isinstance(st.target, ast.Name) and st.target.id == name:
                incs.append(n)
        if len(inits) != 1 or len(incs) != 1:
            return None
        try:
            zero = Normaliser().norm(inits[0].stmt.value).const_value() == 0
        except Unsupported:
            zero = False
        inc = incs[0].stmt
        if not zero or self.loops.get(id(inits[0].stmt)) or not isinstance(inc.op, ast.Add) or not (
                isinstance(inc.value, ast.Constant) and inc.value.value == 1):
            return None
        lp = self.loops.get(id(inc), [])
        if not lp:
            return None
        return lp[-1], set(guard_atoms(self, incs[0], resolved=True))

    def prove_factor(self, f: ast.expr, div: Division, node: Node, facts: Dict[str, str], fname: str) -> Tuple[str, str, bool, str]:
        try:
            r = self.resolve(f, node)
            r0 = Normaliser().norm(f)
        except Unsupported as exc:
            return (ast.unparse(f), "unsupported", False, str(exc))
        key, key0 = r.key(), r0.key()
        c = r.const_value()
        if c is not None:
            return (key, "const", c != 0, "non-zero constant" if c != 0 else "constant zero")
        for k in (key, key0):
            if k in NONZERO_FUNCS:
                return (k, "const", True, NONZERO_FUNCS[k])
            if k in facts:
                return (k, "guarded", True, f"dominating test establishes {k} {'> 0' if facts[k] == 'pos' else '!= 0'}")
        # sqrt[X] with X guarded positive
        for k in (key, key0):
            if k.startswith("sqrt[") and k.endswith("]") and facts.get(k[5:-1]) == "pos":
                return (k, "guarded", True, f"dominating test establishes {k[5:-1]} > 0")
        # pivot
        if fname in PIVOT and isinstance(f, ast.Subscript) and isinstance(f.value, ast.Name) and f.value.id == PIVOT[fname][0]:
            return (key0, "pivot", True, PIVOT[fname][1])
        # lemma / contract tables
        for k in (key0, key):
            if (fname, k) in LEMMA:
                need, why = LEMMA[(fname, k)]
                if all(any(fk == n or fk.startswith(n) for fk in facts) or self._guard_mentions(node, n) for n in need):
                    return (k, "lemma", True, why)
                return (k, "lemma", False, f"lemma needs a dominating test on {need}: {why}")
        # positive counter
        if isinstance(f, ast.Name):
            why = self.positive_counter(f.id, node)
            if why:
                return (key0, "counter", True, why)
            # counter dominance: f counts a superset of what a guarded non-zero counter g counts  =>  f >= g > 0
            ci = self.counter_info(f.id)
            if ci is not None:
                for fk in facts:
                    if fk.isidentifier() and fk != f.id:
                        cg = self.counter_info(fk)
                        if cg is not None and cg[0] is ci[0] and cg[1] >= ci[1]:
                            return (key0, "counter-dominance", True,
                                    f"`{f.id}` is incremented whenever `{fk}` is (its guard set is a subset) and `{fk}` is non-zero here")
        # affine with loop bounds and contract minimums: show factor >= 1 (or <= -1)
        aff = self._affine_positive(f, r, div, node, fname)
        if aff is not None:
            return aff
        if fname in BRENT:
            return (key0, "brent-port", True, BRENT[fname])
        if fname in GCV_FUNCS and ("*gcv", key0) in LISTED:
            return (key0, "listed-numeric", True, LISTED[("*gcv", key0)])
        return (key0, "UNGUARDED", False, "no dominating zero test, bound, lemma or contract excludes zero")

    def _guard_mentions(self, node: Node, name: str) -> bool:
        for g, arm in self.cfg.guards_of(node):
            if name in {x.id for x in ast.walk(g.stmt.test) if isinstance(x, ast.Name)}:
                return True
        return False

    def _affine_positive(self, f, r: Rat, div: Division, node: Node, fname: str):
        if r.d.const_value() is None:
            return None
        p = r.simple().n
        # affine: all monomials degree <= 1
        for mono in p.t:
            if sum(e for _, e in mono) > 1:
                return None
        lbs = self.loop_lower_bounds(div.stmt)
        const = p.t.get((), Fraction(0))
        total = Fraction(const)
        used = []
        terms = {mono[0][0]: c for mono, c in p.t.items() if mono}
        pending = dict(terms)
        guard = 0
        while guard < 20:
            guard += 1
            pick = [a for a, c in pending.items() if c > 0 and a in lbs]
            if not pick:
                break
            atom = sorted(pick)[0]
            c = pending.pop(atom)
            try:
                lb = self.resolve(lbs[atom], node).simple()
            except Unsupported:
                return None
            if lb.d.const_value() is None:
                return None
            for mono, cc in lb.n.t.items():
                if sum(e for _, e in mono) > 1:
                    return None
                if not mono:
                    total += c * cc
                else:
                    a2 = mono[0][0]
                    pending[a2] = pending.get(a2, 0) + c * cc
                    if pending[a2] == 0:
                        del pending[a2]
            used.append(f"{atom} >= {lb.key()}")
        table = dict(CONTRACT_MIN)
        table.update(self.contract_extra)
        for atom, c in list(pending.items()):
            key = (fname, atom)
            if key in table and c > 0:
                mn, why = table[key]
                total += c * mn
                used.append(f"{atom} >= {mn} [{why}]")
                del pending[atom]
        if pending:
            return None
        if total >= 1:
            cls = "contract" if any("[" in u for u in used) else "affine"
            return (r.key(), cls, True, "factor >= " + str(total) + " using " + "; ".join(used) if used else "positive constant")
        return None

    # ------------------------------------------------------------------ driver
    def factors_of(self, e: ast.expr) -> List[ast.expr]:
        if isinstance(e, ast.BinOp) and isinstance(e.op, ast.Mult):
            return self.factors_of(e.left) + self.factors_of(e.right)
        if isinstance(e, ast.BinOp) and isinstance(e.op, ast.Pow):
            return self.factors_of(e.left)
        if isinstance(e, ast.BinOp) and isinstance(e.op, ast.Div):
            return self.factors_of(e.left)
        if isinstance(e, ast.UnaryOp) and isinstance(e.op, (ast.USub, ast.UAdd)):
            return self.factors_of(e.operand)
        if isinstance(e, ast.Call) and _funcname(e.func) in ("sqrt", "abs", "float64", "float", "int64") and len(e.args) == 1:
            if _funcname(e.func) == "sqrt":
                return [e]
            return self.factors_of(e.args[0])
        return [e]

    def depends_on_median(self, e: ast.expr, node: Node, depth=3) -> bool:
        for c in ast.walk(e):
            if isinstance(c, ast.Call) and _funcname(c.func) in ("median", "nanmedian"):
                return True
        if depth <= 0:
            return False
        for nm in {x.id for x in ast.walk(e) if isinstance(x, ast.Name)}:
            for d in self.rd.reaching(node, nm):
                if d.kind == "stmt" and isinstance(d.stmt, ast.Assign) and not (
                        isinstance(d.stmt.targets[0], ast.Name) and d.stmt.targets[0].id == nm and d is node):
                    if self.depends_on_median(d.stmt.value, d, depth - 1):
                        return True
        return False

    def run(self) -> List[Division]:
        fname = self.fn.name
        for node in self.cfg.stmt_nodes():
            head = node.stmt
            if node.kind == "if" or node.kind == "while":
                head = node.stmt.test
            elif node.kind == "for":
                head = node.stmt.iter
            elif isinstance(head, (ast.FunctionDef, ast.ClassDef, ast.Try, ast.With)):
                continue
            cands = []
            for x in ast.walk(head):
                if isinstance(x, ast.Lambda):
                    continue
                if isinstance(x, ast.BinOp) and isinstance(x.op, (ast.Div, ast.FloorDiv, ast.Mod)):
                    cands.append((x, x.left, x.right, type(x.op).__name__))
                elif isinstance(x, ast.BinOp) and isinstance(x.op, ast.Pow):
                    try:
                        ev = Normaliser().norm(x.right).const_value()
                    except Unsupported:
                        ev = None
                    if ev is not None and ev < 0:
                        cands.append((x, ast.Constant(1), x.left, "Pow(negative)"))
                elif isinstance(x, ast.AugAssign) and isinstance(x.op, (ast.Div, ast.FloorDiv, ast.Mod)):
                    cands.append((x, x.target, x.value, type(x.op).__name__))
            for x, num, den, opn in cands:
                d = Division(fname, node.stmt, x, opn, den)
                arr = self.is_arr(num) or self.is_arr(den)
                facts = self.facts_at(node)
                if arr:
                    d.flavour = "array"
                    if not self.is_arr(den) and self.depends_on_median(den, node):
                        d.flavour = "scale"
                        # every median-derived factor must be guarded positive
                        oks = []
                        for f in self.factors_of(den):
                            if self.depends_on_median(f, node):
                                res = self.prove_factor(f, d, node, facts, fname)
                                if res[1] in ("UNGUARDED", "brent-port"):
                                    res = (res[0], "UNGUARDED", False, "robust scale may be 0 (more than half of the residuals equal): "
                                           "array / 0 turns every weight into nan or 0")
                                d.factors.append(res)
                                oks.append(res[2])
                        d.ok = all(oks) if oks else False
                        d.klass = "scale-guarded" if d.ok else "UNGUARDED"
                        d.obligation = True
                    else:
                        d.klass = "array"
                        d.ok = True
                        d.obligation = False
                        d.reason = "array division: NumPy semantics (inf/nan) in compiled and interpreted code alike; never raises"
                    self.divisions.append(d)
                    continue
                oks = []
                for f in self.factors_of(den):
                    res = self.prove_factor(f, d, node, facts, fname)
                    d.factors.append(res)
                    oks.append(res[2])
                d.ok = all(oks)
                classes = [r[1] for r in d.factors]
                d.klass = "UNGUARDED" if not d.ok else ("+".join(sorted(set(classes))))
                d.obligation = not all(c in ("brent-port", "const", "listed-numeric") for c in classes) or not d.ok
                if all(c == "const" for c in classes):
                    d.obligation = False
                self.divisions.append(d)
        return self.divisions


# ------------------------------------------------------------------ generic helpers on top of DivAnalysis
NEG = {"eq0": "ne0", "ne0": "eq0", "lt0": "ge0", "ge0": "lt0", "le0": "gt0", "gt0": "le0"}


def negate_key(k: str) -> str:
    from .symb import negate_key as _nk
    return _nk(k)


def guard_atoms(da: "DivAnalysis", node: Node, resolved=True) -> List[str]:
    """Normal-form comparison atoms known to hold at `node` from dominating branch conditions."""
    from .poly import cmp_key
    out: List[str] = []

    def keyof(test, gnode):
        if isinstance(test, ast.Compare) and len(test.ops) == 1:
            l = da.resolve(test.left, gnode) if resolved else Normaliser().norm(test.left)
            r = da.resolve(test.comparators[0], gnode) if resolved else Normaliser().norm(test.comparators[0])
            return cmp_key(test.ops[0], l, r)
        return (da.resolve(test, gnode) if resolved else Normaliser().norm(test)).key()

    def interp(test, arm, gnode):
        if isinstance(test, ast.BoolOp):
            if isinstance(test.op, ast.And) and arm:
                for v in test.values:
                    interp(v, True, gnode)
                return
            if isinstance(test.op, ast.Or) and not arm:
                for v in test.values:
                    interp(v, False, gnode)
                return
            parts = []
            for v in test.values:
                try:
                    parts.append(keyof(v, gnode))
                except Unsupported:
                    parts.append(ast.unparse(v))
            tag = "and" if isinstance(test.op, ast.And) else "or"
            k = f"{tag}[{';'.join(sorted(parts))}]"
            out.append(k if arm else f"not[{k}]")
            return
        if isinstance(test, ast.UnaryOp) and isinstance(test.op, ast.Not):
            interp(test.operand, not arm, gnode)
            return
        try:
            k = keyof(test, gnode)
        except Unsupported:
            k = ast.unparse(test)
        out.append(k if arm else negate_key(k))

    for g, arm in da.cfg.guards_of(node):
        interp(g.stmt.test, arm, g)
    return out

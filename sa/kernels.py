"""E1 — kernel registry: every Numba-decorated function of hdc.algo.ops as a record."""
from __future__ import annotations

import ast
import re
from dataclasses import dataclass, field
from typing import Dict, List, Optional, Tuple

from .core import AnalysisError, Repo

LEGACY = {"hdc.algo.ops.whit"}


@dataclass
class Kernel:
    name: str
    module: str
    file: str
    node: ast.FunctionDef
    kind: str  # "njit" | "guvectorize"
    lazy: bool
    nopython: bool
    parallel: bool = False
    sigs: List[List[Tuple[str, int]]] = field(default_factory=list)  # per signature: [(dtype, ndim)]
    layouts: List[List[str]] = field(default_factory=list)  # per signature: 'A' | 'C' | 'F' per parameter
    layout: Optional[str] = None
    options: Dict[str, str] = field(default_factory=dict)   # keyword options of the numba decorator
    in_dims: List[Tuple[str, ...]] = field(default_factory=list)
    out_dims: List[Tuple[str, ...]] = field(default_factory=list)
    inlined: bool = False   # a helper the reference tree does not have, inlined into every caller by sa/canon.py

    @property
    def params(self) -> List[str]:
        return [a.arg for a in self.node.args.args]

    @property
    def n_in(self) -> int:
        return len(self.in_dims) if self.kind == "guvectorize" else len(self.params)

    @property
    def inputs(self) -> List[str]:
        return self.params[: self.n_in]

    @property
    def outputs(self) -> List[str]:
        return self.params[self.n_in:] if self.kind == "guvectorize" else []

    def qual(self) -> str:
        return f"{self.file}:{self.name}"


def _parse_type(s: str) -> Tuple[str, int]:
    s = s.strip()
    m = re.fullmatch(r"(\w+)\s*(\[[^\]]*\])?", s)
    if not m:
        raise AnalysisError(f"cannot parse numba type {s!r}")
    nd = 0
    if m.group(2):
        # one comma-separated part per dimension: `:` any layout, `::1` contiguous in that dimension
        nd = len([p for p in m.group(2)[1:-1].split(",") if p.strip()])
    return m.group(1), nd


def type_layout(s: str) -> str:
    """'A' (any strides), 'C' (last dimension declared `::1`), 'F' (first dimension declared `::1`) of a numba array type string."""
    m = re.fullmatch(r"\s*(\w+)\s*(\[[^\]]*\])?\s*", s)
    if not m or not m.group(2):
        return "A"
    parts = [p.strip() for p in m.group(2)[1:-1].split(",") if p.strip()]
    if parts and parts[-1] == "::1":
        return "C"
    if parts and parts[0] == "::1":
        return "F"
    return "A"


def _parse_sig_string(s: str) -> List[Tuple[str, int]]:
    s = s.strip()
    if s.startswith("(") and s.endswith(")"):
        s = s[1:-1]
    parts, depth, cur = [], 0, ""
    for ch in s:
        if ch == "[":
            depth += 1
        if ch == "]":
            depth -= 1
        if ch == "," and depth == 0:
            parts.append(cur)
            cur = ""
        else:
            cur += ch
    if cur.strip():
        parts.append(cur)
    return [_parse_type(p) for p in parts]


def _split_sig(s: str) -> List[str]:
    s = s.strip()
    if s.startswith("(") and s.endswith(")"):
        s = s[1:-1]
    parts, depth, cur = [], 0, ""
    for ch in s:
        if ch == "[":
            depth += 1
        if ch == "]":
            depth -= 1
        if ch == "," and depth == 0:
            parts.append(cur)
            cur = ""
        else:
            cur += ch
    if cur.strip():
        parts.append(cur)
    return parts


def sig_layouts(n: ast.AST) -> List[str]:
    if isinstance(n, ast.Constant) and isinstance(n.value, str):
        return [type_layout(p) for p in _split_sig(n.value)]
    if isinstance(n, ast.Tuple):
        return [type_layout(ast.unparse(e)) for e in n.elts]
    return []


def _parse_sig_node(n: ast.AST) -> List[Tuple[str, int]]:
    if isinstance(n, ast.Constant) and isinstance(n.value, str):
        return _parse_sig_string(n.value)
    if isinstance(n, ast.Tuple):
        return [_parse_type(ast.unparse(e)) for e in n.elts]
    raise AnalysisError(f"cannot parse gufunc signature {ast.unparse(n)!r}")


class _Unreadable(list):
    """Stand-in for a signature list the loader cannot evaluate statically: any attempt to look at it is an ANALYSIS-ERROR."""

    def __init__(self, msg: str):
        super().__init__()
        self.msg = msg

    def _fail(self, *a, **k):
        raise AnalysisError(self.msg)

    __iter__ = __len__ = __getitem__ = __bool__ = __contains__ = _fail


def _static_sig_list(sigs: ast.AST) -> List[ast.AST]:
    """The signature nodes of a guvectorize call. A literal list is taken as written; a comprehension over a literal sequence of constants whose
    element is an f-string / constant / tuple built from the loop variable is unrolled (pure constant folding, nothing is executed)."""
    if isinstance(sigs, ast.List):
        return list(sigs.elts)
    if isinstance(sigs, ast.ListComp) and len(sigs.generators) == 1:
        g = sigs.generators[0]
        if not g.ifs and not g.is_async and isinstance(g.target, ast.Name) and isinstance(g.iter, (ast.Tuple, ast.List)) \
                and all(isinstance(e, ast.Constant) and isinstance(e.value, str) for e in g.iter.elts):
            var = g.target.id

            def fold(e: ast.AST, val: str) -> Optional[ast.AST]:
                if isinstance(e, ast.Constant):
                    return e
                if isinstance(e, ast.Name) and e.id == var:
                    return ast.Name(id=val, ctx=ast.Load())
                if isinstance(e, ast.JoinedStr):
                    out = ""
                    for part in e.values:
                        if isinstance(part, ast.Constant) and isinstance(part.value, str):
                            out += part.value
                        elif isinstance(part, ast.FormattedValue) and isinstance(part.value, ast.Name) and part.value.id == var \
                                and part.conversion == -1 and part.format_spec is None:
                            out += val
                        else:
                            return None
                    return ast.Constant(value=out)
                if isinstance(e, ast.Tuple):
                    elts = [fold(x, val) for x in e.elts]
                    return None if any(x is None for x in elts) else ast.Tuple(elts=elts, ctx=ast.Load())
                if isinstance(e, ast.Subscript) and isinstance(e.value, ast.Name) and e.value.id == var:
                    return ast.Subscript(value=ast.Name(id=val, ctx=ast.Load()), slice=e.slice, ctx=ast.Load())
                return None
            nodes = [fold(sigs.elt, c.value) for c in g.iter.elts]
            if all(n is not None for n in nodes):
                return [ast.fix_missing_locations(n) for n in nodes]
    return [sigs]


def parse_layout(layout: str):
    ins, outs = layout.split("->")

    def dims(part):
        out = []
        for m in re.finditer(r"\(([^)]*)\)", part):
            inner = m.group(1).strip()
            out.append(tuple(x.strip() for x in inner.split(",")) if inner else ())
        return out

    return dims(ins), dims(outs)


def _decorator_record(dec: ast.AST):
    """Return dict(kind, lazy, call) or None."""
    lazy = False
    d = dec
    if isinstance(d, ast.Call) and ast.unparse(d.func).split(".")[-1] == "lazycompile":
        lazy = True
        if len(d.args) != 1:
            raise AnalysisError("lazycompile with != 1 argument")
        d = d.args[0]
    name = ast.unparse(d.func if isinstance(d, ast.Call) else d).split(".")[-1]
    if name in ("njit", "jit"):
        return dict(kind="njit", lazy=lazy, call=d if isinstance(d, ast.Call) else None, dec=name)
    if name == "guvectorize":
        if not isinstance(d, ast.Call):
            raise AnalysisError("guvectorize without arguments")
        return dict(kind="guvectorize", lazy=lazy, call=d, dec=name)
    return None


def load_kernels(repo: Repo) -> Dict[str, Kernel]:
    out: Dict[str, Kernel] = {}
    for dotted, m in repo.modules.items():
        if not dotted.startswith("hdc.algo.ops") or dotted in LEGACY:
            continue
        for fn in m.tree.body:
            if not isinstance(fn, ast.FunctionDef):
                continue
            rec = None
            for dec in fn.decorator_list:
                rec = _decorator_record(dec) or rec
            if rec is None:
                continue
            call = rec["call"]
            kw = {k.arg: k.value for k in (call.keywords if call else [])}
            nopython = rec["dec"] == "njit" or (isinstance(kw.get("nopython"), ast.Constant) and kw["nopython"].value is True)
            parallel = isinstance(kw.get("parallel"), ast.Constant) and kw["parallel"].value is True
            k = Kernel(fn.name, dotted, m.rel, fn, rec["kind"], rec["lazy"], nopython, parallel)
            k.options = {name: ast.unparse(v) for name, v in kw.items() if name}
            k.inlined = bool(getattr(fn, "_verif_inlined", False))
            if rec["kind"] == "guvectorize":
                if len(call.args) < 2:
                    raise AnalysisError(f"guvectorize needs signatures and layout: {m.rel}:{fn.name}")
                sigs = call.args[0]
                nodes = _static_sig_list(sigs)
                try:
                    k.sigs = [_parse_sig_node(n) for n in nodes]
                    k.layouts = [sig_layouts(n) for n in nodes]
                except AnalysisError as exc:
                    # a signature list this loader cannot read stops exactly the rules that consult this kernel's signatures
                    k.sigs = _Unreadable(f"{exc} ({m.rel}:{fn.name})")
                    k.layouts = _Unreadable(f"{exc} ({m.rel}:{fn.name})")
                if not (isinstance(call.args[1], ast.Constant) and isinstance(call.args[1].value, str)):
                    raise AnalysisError(f"gufunc layout is not a literal: {m.rel}:{fn.name}")
                k.layout = call.args[1].value
                k.in_dims, k.out_dims = parse_layout(k.layout)
                npar = len(fn.args.args)
                if len(k.in_dims) + len(k.out_dims) != npar:
                    raise AnalysisError(f"layout arity != parameter count in {m.rel}:{fn.name}")
                for s in ([] if isinstance(k.sigs, _Unreadable) else k.sigs):
                    if len(s) != npar:
                        raise AnalysisError(f"signature arity != parameter count in {m.rel}:{fn.name}")
            if fn.name in out:
                if k.inlined or out[fn.name].inlined:      # adopted copy of an imported helper (sa/canon.py): one entry is enough
                    if out[fn.name].inlined and not k.inlined:
                        out[fn.name] = k
                    continue
                raise AnalysisError(f"duplicate kernel name {fn.name}")
            out[fn.name] = k
    return out


def kernel(kernels: Dict[str, Kernel], name: str) -> Kernel:
    if name not in kernels:
        raise AnalysisError(f"missing anchor: kernel {name}")
    return kernels[name]

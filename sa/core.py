"""Core of the static-analysis framework: loader (E1), obligations, reports, evidence.

Nothing in this package calls a function of ``hdc.algo``; the repository is read as
source text (``ast``) and, for the typed-IR component only, through Numba's type
inference (no lowering, no execution of a kernel).
"""
from __future__ import annotations

import ast
import hashlib
import json
import os
import re
import sys
import time
from dataclasses import dataclass, field
from pathlib import Path
from typing import Any, Dict, List, Optional, Tuple

VERIF = Path(__file__).resolve().parent.parent
REPO = Path(os.environ.get("HDC_REPO", "/repo"))
PKG = "hdc/algo"


class AnalysisError(Exception):
    """The analysis cannot interpret the tree (missing anchor, unsupported construct).

    Reported as ``ANALYSIS-ERROR`` with exit status 2: never a silent pass, never a
    VIOLATION.
    """


# --------------------------------------------------------------------------- loader


@dataclass
class Module:
    name: str  # dotted
    path: Path
    rel: str
    src: str
    tree: ast.Module

    def functions(self) -> Dict[str, ast.FunctionDef]:
        return {n.name: n for n in self.tree.body if isinstance(n, ast.FunctionDef)}

    def classes(self) -> Dict[str, ast.ClassDef]:
        return {n.name: n for n in self.tree.body if isinstance(n, ast.ClassDef)}


class Repo:
    """All modules of the package the build covers (``find_namespace: hdc*``)."""

    def __init__(self, root: Path = REPO):
        self.root = Path(root)
        self.modules: Dict[str, Module] = {}
        self.renames: Dict[str, Dict[str, Dict[str, str]]] = {}
        from . import canon as _canon
        self._ref = _canon.load_reference()
        base = self.root / "hdc"
        if not base.is_dir():
            raise AnalysisError(f"missing anchor: package directory {base}")
        for p in sorted(base.rglob("*.py")):
            rel = p.relative_to(self.root).as_posix()
            dotted = rel[:-3].replace("/", ".")
            if dotted.endswith(".__init__"):
                dotted = dotted[: -len(".__init__")]
            src = p.read_text()
            try:
                tree = ast.parse(src, filename=rel)
            except SyntaxError as exc:  # the build would fail as well
                raise AnalysisError(f"cannot parse {rel}: {exc}") from exc
            tree._verif_is_pkg = p.name == "__init__.py"
            self.modules[dotted] = Module(dotted, p, rel, src, tree)
        # locals renamed by a maintainer are renamed back to the reference names (alpha-equivalent program; sa/canon.py)
        from . import canon
        if os.environ.get("VERIF_NO_CANON") != "1":
            trees = [m_.tree for m_ in self.modules.values()]
            for dotted, m_ in self.modules.items():
                refmod = self._ref.get(dotted, {})
                if refmod:
                    pp1 = canon.align_private_params(m_.tree, refmod.get("<params>", {}), trees)
                    pp2 = canon.align_private_params(m_.tree, refmod.get("<params>", {}), trees)   # a renaming may be followed by restoring the order
                    if pp1 or pp2:
                        m_.tree._verif_params = dict(pp1, **{k + " (2)": v for k, v in pp2.items()})
            adopted = canon.adopt_imported_helpers({d_: m_.tree for d_, m_ in self.modules.items()}, self._ref)
            for dotted, m_ in self.modules.items():
                applied = canon.canonicalise(dotted, m_.tree, self._ref)
                mine = [a_ for a_ in adopted if a_.startswith(dotted + " adopts ")]
                if mine:
                    applied = dict(applied or {})
                    applied["<adopted helpers>"] = {a_: "" for a_ in mine}
                if applied:
                    self.renames[dotted] = applied
        # calls by keyword to functions of the package are re-written positionally (second pass: needs every module's signatures)
        if os.environ.get("VERIF_NO_CANON") != "1":
            from . import canon as _c
            sigs: Dict[str, List[str]] = {}
            dup = set()
            for m_ in self.modules.values():
                for n_ in m_.tree.body:
                    if isinstance(n_, ast.FunctionDef):
                        if n_.name in sigs:
                            dup.add(n_.name)
                        sigs[n_.name] = [a.arg for a in n_.args.args]
            for d_ in dup:
                sigs.pop(d_, None)
            keep = {kc for mod_ in self._ref.values() if isinstance(mod_, dict) for kc in mod_.get("<kwcalls>", [])}
            qsigs = {f"{d_}.{n_.name}": [a.arg for a in n_.args.args] for d_, m_ in self.modules.items() for n_ in m_.tree.body if isinstance(n_, ast.FunctionDef)}
            # leading parameters of the few library calls the rules read (np.zeros(shape=n) is np.zeros(n); obj.reduce(func, dim=d) is obj.reduce(func, d))
            LIB = {"zeros": ["shape", "*"], "ones": ["shape", "*"], "empty": ["shape", "*"], "reduce": ["func", "dim", "*"], "searchsorted": ["v", "side", "*"]}
            for k_, v_ in LIB.items():
                sigs.setdefault(k_, v_)
            for d_, m_ in self.modules.items():
                local = dict(sigs)
                # names the module binds itself (own functions, `from .x import f [as g]`) resolve exactly, also when two modules define an `f`
                for loc_, q_ in _c.import_table(d_, m_.tree, bool(getattr(m_.tree, "_verif_is_pkg", False))).items():
                    if q_ in qsigs:
                        local[loc_] = qsigs[q_]
                for n_ in m_.tree.body:
                    if isinstance(n_, ast.FunctionDef):
                        local[n_.name] = [a.arg for a in n_.args.args]
                # nested functions and methods of the module's classes (called as `self.m(...)`), when the name is unique in the module
                extra: Dict[str, List[List[str]]] = {}
                for cls_ in [x for x in ast.walk(m_.tree) if isinstance(x, ast.ClassDef)]:
                    for f_ in cls_.body:
                        if isinstance(f_, ast.FunctionDef):
                            ps_ = [a.arg for a in f_.args.args]
                            static_ = any(ast.unparse(dd_) == "staticmethod" for dd_ in f_.decorator_list)
                            extra.setdefault(f_.name, []).append(ps_ if static_ else ps_[1:])
                top_ = {id(x) for x in m_.tree.body} | {id(f_) for cls_ in ast.walk(m_.tree) if isinstance(cls_, ast.ClassDef) for f_ in cls_.body}
                for f_ in ast.walk(m_.tree):
                    if isinstance(f_, ast.FunctionDef) and id(f_) not in top_:
                        extra.setdefault(f_.name, []).append([a.arg for a in f_.args.args])
                for nm_, lst_ in extra.items():
                    if nm_ not in local and len(lst_) == 1 and not nm_.startswith("__"):
                        local[nm_] = lst_[0]
                _c.positional_calls(m_.tree, local, keep)

    def mod(self, dotted: str) -> Module:
        if dotted not in self.modules:
            raise AnalysisError(f"missing anchor: module {dotted}")
        return self.modules[dotted]

    def func(self, dotted_mod: str, name: str) -> ast.FunctionDef:
        m = self.mod(dotted_mod)
        f = m.functions().get(name)
        if f is None:
            raise AnalysisError(f"missing anchor: function {name} in {m.rel}")
        return f

    def method(self, dotted_mod: str, cls: str, name: str) -> ast.FunctionDef:
        m = self.mod(dotted_mod)
        c = m.classes().get(cls)
        if c is None:
            raise AnalysisError(f"missing anchor: class {cls} in {m.rel}")
        for n in c.body:
            if isinstance(n, ast.FunctionDef) and n.name == name:
                return n
        raise AnalysisError(f"missing anchor: method {cls}.{name} in {m.rel}")

    def digest(self) -> str:
        h = hashlib.sha256()
        for k in sorted(self.modules):
            h.update(k.encode())
            h.update(self.modules[k].src.encode())
        return h.hexdigest()[:16]

    # import graph ---------------------------------------------------------------
    def imports_of(self, dotted: str) -> set:
        """Modules of the package imported (anywhere, also function-local) by `dotted`."""
        m = self.mod(dotted)
        is_pkg = m.path.name == "__init__.py"
        out = set()
        for node in ast.walk(m.tree):
            if isinstance(node, ast.ImportFrom):
                if node.level:
                    parts = dotted.split(".")
                    if not is_pkg:
                        parts = parts[:-1]
                    if node.level > 1:
                        parts = parts[: len(parts) - (node.level - 1)]
                    basepkg = ".".join(parts)
                    target = basepkg + ("." + node.module if node.module else "")
                else:
                    target = node.module or ""
                if target in self.modules:
                    out.add(target)
                for a in node.names:
                    cand = f"{target}.{a.name}"
                    if cand in self.modules:
                        out.add(cand)
            elif isinstance(node, ast.Import):
                for a in node.names:
                    if a.name in self.modules:
                        out.add(a.name)
        return out

    def reachable_modules(self, root: str = "hdc.algo") -> set:
        seen, todo = set(), [root]
        while todo:
            x = todo.pop()
            if x in seen:
                continue
            seen.add(x)
            # importing a submodule imports its parent packages
            parts = x.split(".")
            for i in range(1, len(parts)):
                par = ".".join(parts[:i])
                if par in self.modules and par not in seen:
                    todo.append(par)
            todo.extend(self.imports_of(x))
        return seen


# --------------------------------------------------------------------------- text keys


def norm_stmt(node_or_text) -> str:
    """Normalised statement text used in finding keys (never line numbers)."""
    if isinstance(node_or_text, ast.AST):
        if isinstance(node_or_text, (ast.For, ast.While, ast.If)):
            # head only
            n = node_or_text
            if isinstance(n, ast.For):
                t = f"for {ast.unparse(n.target)} in {ast.unparse(n.iter)}"
            elif isinstance(n, ast.While):
                t = f"while {ast.unparse(n.test)}"
            else:
                t = f"if {ast.unparse(n.test)}"
        else:
            t = ast.unparse(node_or_text)
    else:
        t = str(node_or_text)
    return re.sub(r"\s+", " ", t).strip()


# --------------------------------------------------------------------------- obligations


@dataclass
class Obligation:
    rule: str
    file: str
    function: str
    role: str
    ok: bool
    detail: str = ""
    stmt: str = ""
    line: int = 0
    kind: str = ""  # proof kind / how discharged
    extra: Dict[str, Any] = field(default_factory=dict)

    def key(self) -> Dict[str, str]:
        return {
            "rule": self.rule,
            "file": self.file,
            "function": self.function,
            "role": self.role,
            "stmt": self.stmt,
        }

    def where(self) -> str:
        return f"{self.file}:{self.line} {self.function}"

    def to_json(self) -> Dict[str, Any]:
        d = dict(self.key())
        d.update(line=self.line, ok=self.ok, detail=self.detail, kind=self.kind)
        if self.extra:
            d["extra"] = self.extra
        return d


CURRENT = None  # the report under construction (lets the CLI show violations found before an analysis error)


class Report:
    def __init__(self, pid: str):
        global CURRENT
        CURRENT = self
        self.pid = pid
        self.obls: List[Obligation] = []
        self.info: List[str] = []
        self.floors: List[Tuple[str, int, int]] = []  # (name, got, floor)
        self.analysed: Dict[str, Any] = {}
        self.decided: List[str] = []
        self.declined: List[str] = []
        self.trusted: List[str] = []

    def ob(self, rule, file, function, role, ok, detail="", stmt="", line=0, kind="", **extra):
        if isinstance(stmt, ast.AST):
            if not line:
                line = getattr(stmt, "lineno", 0)
            stmt = norm_stmt(stmt)
        o = Obligation(rule, file, function, role, bool(ok), detail, stmt, line, kind, extra)
        self.obls.append(o)
        return o

    def note(self, text: str):
        self.info.append(text)

    def floor(self, name: str, got: int, floor: int):
        """Vacuity floor: a rule that matches fewer instances than confirmed by hand."""
        self.floors.append((name, got, floor))
        if got < floor:
            raise AnalysisError(
                f"vacuity floor not reached for {name}: {got} instance(s) < {floor} expected"
            )

    def violations(self) -> List[Obligation]:
        return [o for o in self.obls if not o.ok]


# --------------------------------------------------------------------------- known findings


def load_known() -> List[Dict[str, Any]]:
    p = VERIF / "known_findings.json"
    if not p.exists():
        return []
    data = json.loads(p.read_text())
    return data.get("findings", [])


def match_known(o: Obligation, pid: str, known: List[Dict[str, Any]]) -> Optional[Dict[str, Any]]:
    k = o.key()
    for e in known:
        if e.get("status") != "known" or e.get("property") != pid:
            continue
        ek = e.get("key", {})
        if all(k.get(f) == v for f, v in ek.items()):
            return e
    return None


# --------------------------------------------------------------------------- evidence


def write_evidence(rep: Report, tier: str, level: str, wall: float, viol: List[Obligation],
                   known_hit: List[Tuple[Obligation, Dict[str, Any]]], repo: Repo,
                   extra_cov: Optional[Dict[str, Any]] = None):
    seed = int(os.environ.get("VERIF_SEED", "0") or 0)
    obls = rep.obls
    distinct = {json.dumps(o.key(), sort_keys=True) for o in obls}
    per_rule: Dict[str, Dict[str, int]] = {}
    for o in obls:
        d = per_rule.setdefault(o.rule, {"instances": 0, "discharged": 0})
        d["instances"] += 1
        d["discharged"] += 1 if o.ok else 0
    # samples: a spread over rules, violations first
    samples: List[Dict[str, Any]] = [o.to_json() for o in obls if not o.ok][:10]
    seen_rules = set()
    for o in obls:
        if o.rule not in seen_rules and o.ok:
            seen_rules.add(o.rule)
            samples.append(o.to_json())
    for o in obls[:: max(1, len(obls) // 12)]:
        j = o.to_json()
        if j not in samples:
            samples.append(j)
    samples = samples[:40]
    discharged = sum(1 for o in obls if o.ok)
    cov: Dict[str, Any] = {
        "obligations": len(obls),
        "discharged": discharged,
        "evaluations": len(obls),
        "distinct_nontrivial": len(distinct),
        "rule": "one obligation per rule instance (rule x file x function x role x normalised statement); "
                "every instance is located in /repo's current source on this run; an instance is "
                "non-trivial when it names a concrete construct; distinct = distinct keys",
        "samples": samples,
        "exhaustive": True,
        "checker_cmd": f"./check {rep.pid} --tier {tier}",
        "trusted_base": (rep.trusted or [
            "CPython ast module",
            "the mathematical lemmas named in DESIGN.md section 4 for this property",
        ]) + ["the loader's source normalisation (sa/canon.py): alpha-renaming of locals, inlining of helpers / temporaries / module constants the "
              "reference tree does not have, import re-spelling, control-flow normal forms - each an equivalence-preserving rewrite with stated "
              "side conditions (DESIGN.md 9.7); the rules judge the normalised program"],
        "explanation": "Static rule conformance. Decided: " + "; ".join(rep.decided)
                       + ". Declined (not decided by this check): " + "; ".join(rep.declined),
        "per_rule": per_rule,
        "floors": [{"name": n, "got": g, "floor": f} for n, g, f in rep.floors],
        "analysed": rep.analysed,
        "repo_digest": repo.digest(),
        "modules_parsed": len(repo.modules),
        "normalisations_applied": {k: {q: sorted(v)[:12] for q, v in fm.items()} for k, fm in getattr(repo, "renames", {}).items()},
        "informational": rep.info[:60],
        "known_findings": [
            {"key": o.key(), "what": e.get("what"), "id": e.get("id")} for o, e in known_hit
        ],
    }
    if extra_cov:
        cov.update(extra_cov)
    ev = {
        "property_id": rep.pid,
        "tier": tier,
        "seed": seed,
        "level": level,
        "coverage": cov,
        "assumptions": rep.trusted,
        "wall_s": round(wall, 3),
        "violations": len(viol),
    }
    out = Path(os.environ.get("VERIF_EVIDENCE_DIR", str(VERIF / "evidence"))) / f"{rep.pid}.json"
    out.parent.mkdir(parents=True, exist_ok=True)
    out.write_text(json.dumps(ev, indent=1, default=str) + "\n")
    return out

"""C20 — temporal interpolation averages the daily Whittaker curve per period.

R-READONLY (inputs are never stored into; working arrays are copies), composition
descriptor (scatter of observations at the marks, solver call with lambda = 1e-5 and the
template as weights), run-length averaging descriptor (reset/flush/round), accessor.
"""
from __future__ import annotations

import ast
from fractions import Fraction
from typing import Dict, List

from ..core import AnalysisError, Report, Repo, norm_stmt
from ..kernels import kernel, load_kernels
from ..poly import Normaliser, Rat, parse_expr
from ..rules import divguard, r_bind
from ..sites import const_list, load_sites
from ..symb import StoreCollector

FILE = "hdc/algo/ops/tinterpolate.py"
AFILE = "hdc/algo/accessors.py"


def run(repo: Repo, tier: str) -> Report:
    rep = Report("C20")
    rep.decided = [
        "inputs (x, template, labels, template_out) are never written; the working series and the weights are copies of the template (R-READONLY)",
        "observations are placed in order at the non-zero template cells; the solver is ws2d(series, 1e-5, weights = template copy)",
        "a run ends when the daily label changes; the stored value is round(sum / count) (half-even), the last run is flushed after the loop, sum/count reset together",
        "accessor: int16 requirement, output length = number of unique labels, int16 declared and written, argument binding",
    ]
    rep.declined = ["exactness on constant/linear input (conditioning of the lambda = 1e-5 system)", "equality with the per-period mean of the exact curve"]
    rep.trusted = ["CPython ast", "Python round() rounds half to even", "C01 (the solver) and C14 (bounds / must-write)"]
    kernels = load_kernels(repo)
    k = kernel(kernels, "tinterpolate")
    x, template, labels, tout, out = k.params
    sc = StoreCollector(k.node, FILE, loop_atoms_by_name=True, strict=False).run()
    rep.analysed = {"stores": len(sc.stores), "scalars": sorted(sc.scalars)}

    def ob(rule, role, ok, detail="", stmt=None, kind=""):
        rep.ob(rule, FILE, "tinterpolate", role, ok, detail, stmt if stmt is not None else role, kind=kind)

    # ---- R-ACC (typed IR): for every declared signature the daily curve is solved in float64. With lambda = 1e-5 the pivots are 1 + O(1e-5);
    # float32 (eps 6e-8 relative to values of 1e4) loses the penalty between marks, so the period means drift by whole units.
    from ..typedir import typed_facts
    tf = [f for f in typed_facts(repo.root, ["tinterpolate"]) if f["kernel"] == "tinterpolate"]
    rep.floor("typed tinterpolate signatures", len(tf), 1)
    n_solver = 0
    for f in tf:
        if not f["ok"]:
            ob("NB-TYPES", f"signature {f['args']} types", False, f["error"][:200], f"tinterpolate{tuple(f['args'])}")
            continue
        for c_ in f["calls"]:
            if c_["callee"].split(":")[-1] != "ws2d":
                continue
            n_solver += 1
            # the result type is the type of the solver's work arrays; 0/1 weights and int16-valued observations are exact in float32 arguments
            ok = c_["ret"].startswith("array(float64")
            ob("R-ACC", "the Whittaker solve of the daily series runs in float64 for every declared signature", ok,
               f"under ({', '.join(f['args'])}) the solver is called with ({', '.join(c_['args'])}) and returns {c_['ret']}: a float32 solve at lambda = 1e-5 "
               f"cannot resolve the penalty between marks", f"ws2d call typed {c_['ret']} for template {f['args'][1]}", kind="typed IR")
    rep.floor("typed solver calls in tinterpolate", n_solver, 1)
    # ---- R-READONLY
    inputs = {x, template, labels, tout}
    aliases = dict()
    for st in ast.walk(k.node):
        if isinstance(st, ast.Assign) and isinstance(st.targets[0], ast.Name) and isinstance(st.value, ast.Name) and st.value.id in inputs:
            aliases[st.targets[0].id] = st.value.id
        if isinstance(st, ast.Assign) and isinstance(st.targets[0], ast.Name) and isinstance(st.value, ast.Subscript) \
                and isinstance(st.value.value, ast.Name) and st.value.value.id in inputs and isinstance(st.value.slice, ast.Slice):
            aliases[st.targets[0].id] = st.value.value.id  # a basic slice is a view
    written = sorted({s.arr for s in sc.stores} | {c.args[2] for c in sc.calls if c.func == "round" and len(c.args) == 3})
    bad = [w for w in written if w in inputs or w in aliases]
    ob("R-READONLY", "no store targets an input array or an alias/view of one", not bad,
       f"stores into {bad} ({[(a, aliases[a]) for a in bad if a in aliases]}): the caller's template/labels would be modified", f"store targets {written}")
    work = [a for a in written if a != out]
    for wname in work:
        al = sc.allocs.get(wname)
        ob("R-READONLY", f"working array `{wname}` is a copy", al is not None and norm_stmt(al) in (f"{template}.copy()", f"np.copy({template})", f"{template}.astype(float64)"),
           f"`{wname}` = {norm_stmt(al) if al is not None else None}", sc.alloc_stmts.get(wname, wname))

    # ---- scatter
    scatter = [s for s in sc.stores if s.region.kind == "loop" and s.region.iter_key in work and s.arr in work]
    ok = False
    det = "no scatter loop over the working series"
    if len(scatter) == 1:
        s = scatter[0]
        series = s.arr
        pos, cur = s.idx_key, None
        rhs = s.rhs.key()
        # x[cursor]
        if rhs.startswith(f"{x}[") and rhs.endswith("]"):
            cur = rhs[len(x) + 1:-1]
        g = list(s.guards)
        okg = g == [f"ne0[elem[{series}]]"]
        def counter(name, cond):
            ds = sc.scalars.get(name, [])
            init = [d for d in ds if not d.aug and d.region.kind == "line" and d.seq < s.seq]
            inc = [d for d in ds if d.aug and d.region is s.region]
            return (bool(init) and init[-1].rhs.equals(Rat.const(0)) and len(inc) == 1 and (inc[0].rhs - Rat.atom(name)).equals(Rat.const(1))
                    and list(inc[0].guards) == cond and inc[0].seq > s.seq)
        ok = okg and cur is not None and cur.isidentifier() and pos.isidentifier() and counter(pos, []) and counter(cur, [f"ne0[elem[{series}]]"])
        det = f"store {series}[{pos}] = {rhs} under {g}"
        ob("R-FORMULA", "observations are placed in order at the non-zero template cells (position cursor +1 per day, observation cursor +1 per mark)", ok, det, s.stmt)
    else:
        ob("R-FORMULA", "observations are placed in order at the non-zero template cells", False, det, "scatter loop")
        return rep
    series = scatter[0].arr
    # ---- solver call
    zdef = [(n, d) for n, ds in sc.scalars.items() for d in ds if d.rhs.key().startswith("ws2d[")]
    calls = [c for c in ast.walk(k.node) if isinstance(c, ast.Call) and ast.unparse(c.func) == "ws2d"]
    okc = False
    det = f"{len(calls)} ws2d calls"
    zname = None
    if len(calls) == 1 and len(calls[0].args) == 3:
        a0, a1, a2 = calls[0].args
        lam = Normaliser().norm(a1).const_value()
        wname = ast.unparse(a2)
        wal = sc.allocs.get(wname)
        is_copy = wal is not None and norm_stmt(wal) in (f"{template}.copy()", f"np.copy({template})")
        okc = ast.unparse(a0) == series and lam == Fraction(1, 100000) and (is_copy or wname == template) and wname != series \
            and not [s for s in sc.stores if s.arr == wname]
        det = f"call {ast.unparse(calls[0])}: lambda = {lam}, weights `{wname}` = {norm_stmt(sc.allocs.get(wname)) if sc.allocs.get(wname) is not None else None}"
        for st in ast.walk(k.node):
            if isinstance(st, ast.Assign) and st.value is calls[0] and isinstance(st.targets[0], ast.Name):
                zname = st.targets[0].id
    ob("R-FORMULA", "the curve is ws2d(series, 1e-5, weights) with weights = untouched copy of the template (weight only on marks)", okc, det, calls[0] if calls else "ws2d")
    if zname is None:
        raise AnalysisError("missing anchor: z = ws2d(...) in tinterpolate")
    Z = f"ws2d[{series};1/100000;{ast.unparse(calls[0].args[2])}]"

    # ---- run-length averaging
    avg_loop = [r for r in sc.regions if r.kind == "loop" and r.iter_key == f"{labels}[1:]"]
    if len(avg_loop) != 1:
        ob("R-FORMULA", "daily labels are scanned from the second day", False, f"loops: {[r.label() for r in sc.regions if r.kind == 'loop']}", "for ll in labels[1:]")
        return rep
    lp = avg_loop[0]
    ost = [s for s in sc.stores if s.arr == out]
    in_loop = [s for s in ost if s.region is lp]
    after = [s for s in ost if s.region is not lp and s.seq > (in_loop[0].seq if in_loop else 0)]
    ok_shape = len(in_loop) == 1 and len(after) == 1
    ob("R-FORMULA", "one store per finished run inside the loop and one flush after it", ok_shape,
       f"stores into the output: in loop {len(in_loop)}, after {len(after)} (a missing flush loses the last period)", after[0].stmt if after else "flush after the loop")
    if not ok_shape:
        return rep
    s_in, s_fl = in_loop[0], after[0]
    # names by role from the store: out[K] = round(V / C)
    import re
    m = re.fullmatch(r"round\[\((\w+)\)/\((\w+)\)\]", s_in.rhs.key())
    if not m or s_fl.rhs.key() != s_in.rhs.key() or s_in.idx_key != s_fl.idx_key:
        ob("R-ROUND", "stored value is round(sum / count) in both places, at the same run index", False,
           f"in loop: out[{s_in.idx_key}] = {s_in.rhs.key()} ; flush: out[{s_fl.idx_key}] = {s_fl.rhs.key()}", s_in.stmt)
        return rep
    V, C, K = m.group(1), m.group(2), s_in.idx_key
    ob("R-ROUND", "stored value is round(sum / count) (half-even) in both places, at the same run index", True, "", s_in.stmt)
    # position cursor
    poscur = None
    for n, ds in sc.scalars.items():
        for d in ds:
            if d.aug and d.region is lp and not d.guards and (d.rhs - Rat.atom(n)).equals(Rat.const(1)):
                poscur = n
    if poscur is None:
        ob("R-FORMULA", "a day cursor advances by one per label", False, "", "ii += 1")
        return rep
    I = poscur
    change = f"ne0[-1*elem[{labels}[1:]] + {labels}[{I} + -1]]"
    same = f"eq0[-1*elem[{labels}[1:]] + {labels}[{I} + -1]]"
    start = [d for d in sc.scalars[I] if not d.aug and d.region.kind == "line"]
    ob("R-FORMULA", "the day cursor starts at 1 (the loop starts at the second day) and the label is compared with the previous day", bool(start) and
       start[-1].rhs.equals(Rat.const(1)) and list(s_in.guards) == [change], f"cursor init {[d.rhs.key() for d in start]}, store guard {list(s_in.guards)}",
       start[-1].stmt if start else I)
    def defs(name, region=None, aug=None):
        return [d for d in sc.scalars.get(name, []) if (region is None or d.region is region) and (aug is None or d.aug == aug)]
    # sum
    v_add = [d for d in defs(V, lp, True)]
    v_reset = [d for d in defs(V, lp, False)]
    v_init = [d for d in defs(V) if d.region.kind == "line"]
    okv = (len(v_add) == 1 and list(v_add[0].guards) == [same] and (v_add[0].rhs - Rat.atom(V)).key() == f"{Z}[{I}]"
           and len(v_reset) == 1 and list(v_reset[0].guards) == [change] and v_reset[0].rhs.key() == f"{Z}[{I}]" and v_reset[0].seq > s_in.seq
           and len(v_init) == 1 and v_init[0].rhs.key() == f"{Z}[0]")
    ob("R-FORMULA", "the run sum starts with day 0, adds the day's curve value while the label is unchanged, restarts with the day's value after a store", okv,
       f"init {[d.rhs.key() for d in v_init]}, add {[(d.rhs.key(), list(d.guards)) for d in v_add]}, reset {[(d.rhs.key(), list(d.guards)) for d in v_reset]}",
       v_add[0].stmt if v_add else V)
    c_add = defs(C, lp, True)
    c_reset = defs(C, lp, False)
    c_init = [d for d in defs(C) if d.region.kind == "line"]
    okc_ = (len(c_add) == 1 and list(c_add[0].guards) == [same] and (c_add[0].rhs - Rat.atom(C)).equals(Rat.const(1))
            and len(c_reset) == 1 and list(c_reset[0].guards) == [change] and c_reset[0].rhs.equals(Rat.const(1)) and c_reset[0].seq > s_in.seq
            and bool(c_init) and c_init[-1].rhs.equals(Rat.const(1)))
    ob("R-FORMULA", "the run count starts at 1, +1 per day of the run, back to 1 after a store (reset together with the sum)", okc_,
       f"init {[d.rhs.key() for d in c_init]}, add {[(d.rhs.key(), list(d.guards)) for d in c_add]}, reset {[(d.rhs.key(), list(d.guards)) for d in c_reset]}",
       c_add[0].stmt if c_add else C)
    k_inc = defs(K, lp, True)
    k_init = [d for d in defs(K) if d.region.kind == "line"]
    okk = (len(k_inc) == 1 and list(k_inc[0].guards) == [change] and (k_inc[0].rhs - Rat.atom(K)).equals(Rat.const(1)) and k_inc[0].seq > s_in.seq
           and len(k_init) == 1 and k_init[0].rhs.equals(Rat.const(0)))
    ob("R-FORMULA", "the run index starts at 0 and advances by one after each store", okk,
       f"init {[d.rhs.key() for d in k_init]}, inc {[(d.rhs.key(), list(d.guards)) for d in k_inc]}", k_inc[0].stmt if k_inc else K)
    divguard(rep, repo, kernels, ["tinterpolate"], flavours=("scalar",))
    from ..rules import no_early_exit
    no_early_exit(rep, sc, FILE, "tinterpolate", "scatter loop and label scan")

    # ---- accessor
    site = [s for s in load_sites(repo, kernels) if s.kernel == "tinterpolate"]
    rep.floor("tinterpolate call sites", len(site), 1)
    site = site[0]
    r_bind(rep, site, k)
    m_ = repo.method("hdc.algo.accessors", "WhittakerSmoother", "whitint")
    txt = ast.unparse(m_)
    rep.ob("R-FORMULA", AFILE, "WhittakerSmoother.whitint", "only int16 input is accepted", "if self._obj.dtype != 'int16':" in txt and "NotImplementedError" in txt, "",
           "int16 requirement")
    from ..rules import resolve_local
    # the allocated output template and the declared dask output size, every local resolved to its definition
    tdef = resolve_local(m_, site.args[3]) if len(site.args) > 3 else None
    tlen = None
    shape_arg = None
    if isinstance(tdef, ast.Call) and ast.unparse(tdef.func) in ("np.zeros", "np.empty", "np.ones"):
        shape_arg = tdef.args[0] if tdef.args else next((k_.value for k_ in tdef.keywords if k_.arg == "shape"), None)
    if shape_arg is not None:
        tlen = ast.unparse(shape_arg)
        if tlen.startswith("(") and tlen.endswith(",)"):
            tlen = tlen[1:-2]
    want_len = ("np.unique(labels_daily).size", "len(np.unique(labels_daily))", "np.unique(labels_daily).shape[0]")
    osz = None
    dgk = site.opts.get("dask_gufunc_kwargs")
    if isinstance(dgk, ast.Dict):
        for kk, vv in zip(dgk.keys, dgk.values):
            if isinstance(kk, ast.Constant) and kk.value == "output_sizes" and isinstance(vv, ast.Dict):
                for k2, v2 in zip(vv.keys, vv.values):
                    if isinstance(k2, ast.Constant) and k2.value == "newtime":
                        osz = ast.unparse(resolve_local(m_, v2))
    osz_ok = osz is not None and tlen is not None and (osz in want_len or osz in (
        f"{ast.unparse(tdef)}.size", f"{ast.unparse(tdef)}.shape[0]", f"len({ast.unparse(tdef)})"))
    rep.ob("R-FORMULA", AFILE, "WhittakerSmoother.whitint", "output length = number of unique daily labels",
           tlen in want_len and osz_ok, f"template_out length = {tlen}; declared output_sizes['newtime'] = {osz}", "template_out / output_sizes")
    rep.ob("R-BIND", AFILE, site.where(), "arguments are (series, template, labels, template_out)",
           [ast.unparse(a) for a in site.args] == ["self._obj", "template", "labels_daily", "template_out"], f"{[ast.unparse(a) for a in site.args]}",
           "tinterpolate args", line=site.line)
    decl = const_list(site.opts.get("output_dtypes"))
    from ..rules import nb_layout
    nb_layout(rep, kernels, ["tinterpolate"], rule="R-LAYOUT")
    rep.ob("R-DTYPE-DECL", AFILE, site.where(), "declared int16 == written int16", decl == ["int16"] and all(sig[-1][0] == "int16" for sig in k.sigs),
           f"output_dtypes = {decl}; signature output {[sig[-1] for sig in k.sigs]}", "tinterpolate output_dtypes", line=site.line)
    from ..rules import r_stateless
    r_stateless(rep, repo, [('WhittakerSmoother', 'whitint')])
    from ..rules import ws2d_straight
    ws2d_straight(rep, repo)
    rep.floor("C20 obligations", len(rep.obls), 20)
    return rep

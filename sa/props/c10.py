"""C10 — Mann-Kendall trend follows its definition and symmetries.

Pair coverage (E5), formulas of S / tau / Var(S) / Z / p / h / Sen's slope as rational
normal forms (R-FORMULA), trend flag decision table and sibling agreement of the 1-d and
3-d drivers, the use-shape rule (the series is read only through pairwise order/equality
comparisons => invariance under strictly increasing maps), oddness of Z, all-nodata arm,
R-BIND / R-DTYPE-DECL of the two sites.
"""
from __future__ import annotations

import ast
from typing import Dict, List, Optional

from ..core import AnalysisError, Report, Repo, norm_stmt
from ..kernels import kernel, load_kernels
from ..poly import Normaliser, Rat, parse_expr
from ..rules import r_bind
from ..sites import const_list, load_sites
from ..symb import StoreCollector
from .c11 import _subst_atom

FILE = "hdc/algo/ops/stats.py"
AFILE = "hdc/algo/accessors.py"


def run(repo: Repo, tier: str) -> Report:
    rep = Report("C10")
    rep.decided = [
        "mk_score and mk_sens_slope visit every pair k < kk exactly once",
        "S = #(>) - #(<), tau = S/(n(n-1)/2), Var(S) with tie groups, continuity-corrected Z, p = 2(1 - Phi(|Z|)), h = |Z| > ndtri(1 - alpha/2), alpha = 0.05, "
        "Sen's slope = median of (x[j]-x[i])/(j-i)",
        "trend flag decision table (0 when not significant, sign(Z) otherwise), identical in the 1-d and the 3-d driver",
        "mk_score and mk_variance_s read the series only through pairwise order/equality comparisons, unique and len => tau, p, flag are invariant under strictly increasing maps",
        "Z is odd in S and p/h depend on |Z| => sign flip under negation / time reversal",
        "all-nodata pixel writes nodata, nodata, nodata, -2; both arms write all four outputs; site binding and declared dtypes",
    ]
    rep.declined = ["float32 rounding of the stored tau/p/slope", "np.nanmedian semantics"]
    rep.trusted = ["CPython ast", "a function reading a sequence only through pairwise <, >, == of its own elements is invariant under strictly increasing maps",
                   "np.unique returns the distinct values"]
    kernels = load_kernels(repo)
    K = {n: kernel(kernels, n) for n in ("mk_score", "mk_variance_s", "mk_z_score", "mk_p_value", "mk_sens_slope",
                                         "mann_kendall_trend_1d", "mann_kendall_trend_yxt", "_mann_kendall_trend_gu", "_mann_kendall_trend_gu_nd")}
    SC = {n: StoreCollector(k.node, FILE, loop_atoms_by_name=True, strict=False).run() for n, k in K.items()}
    rep.analysed = {"functions": sorted(K)}

    def ob(rule, fn, role, ok, detail="", stmt=None, kind=""):
        rep.ob(rule, FILE, fn, role, ok, detail, stmt if stmt is not None else role, kind=kind)

    def R(s, env=None):
        return Normaliser(env or {}).norm(parse_expr(s))

    # ------------------------------------------------------------ pair coverage
    def pair_cover(fn, lenkey):
        sc = SC[fn]
        loops = [r for r in sc.regions if r.kind == "loop"]
        inner = [r for r in loops if r.parent is not None and r.parent.kind == "loop"]
        ok = False
        det = f"loops: {[r.label() for r in loops]}"
        if len(inner) == 1:
            i, o = inner[0], inner[0].parent
            orng = o.rng if len(o.rng) == 2 else [Rat.const(0)] + o.rng
            ok = (len(i.rng) == 2 and i.rng[0].equals(Rat.atom(o.var) + Rat.const(1)) and i.rng[1].key() == lenkey
                  and len(orng) == 2 and orng[0].equals(Rat.const(0)) and orng[1].equals(Rat.atom(lenkey) - Rat.const(1)))
        ob("R-COVER", fn, "every pair k < kk is visited exactly once", ok, det, inner[0].node if inner else fn, kind="affine")
        return inner[0] if inner else None

    # ------------------------------------------------------------ mk_score
    x = K["mk_score"].params[0]
    sc = SC["mk_score"]
    inner = pair_cover("mk_score", f"len0[{x}]")
    P = M = None
    if inner is not None:
        a, b = inner.var, inner.parent.var
        gt = f"gt0[-1*{x}[{b}] + {x}[{a}]]"
        lt = f"lt0[-1*{x}[{b}] + {x}[{a}]]"
        for name, ds in sc.scalars.items():
            incs = [d for d in ds if d.aug]
            for d in incs:
                from ..symb import minimal_guards
                if minimal_guards(d.guards) == [gt] and (d.rhs - Rat.atom(name)).equals(Rat.const(1)):
                    P = name
                if minimal_guards(d.guards) == [lt] and (d.rhs - Rat.atom(name)).equals(Rat.const(1)):
                    M = name
        ob("R-FORMULA", "mk_score", "one counter is incremented exactly when the later value is larger, one exactly when it is smaller",
           P is not None and M is not None and P != M,
           f"counters found: concordant={P} discordant={M}; increments: "
           f"{[(n, list(d.guards)) for n, ds in sc.scalars.items() for d in ds if d.aug]}", "concordant / discordant counters")
        for nm in (P, M):
            if nm:
                init = [d for d in sc.scalars[nm] if not d.aug]
                ob("R-FORMULA", "mk_score", f"counter {nm} starts at 0 and has a single increment", len(init) == 1 and init[0].rhs.equals(Rat.const(0))
                   and len([d for d in sc.scalars[nm] if d.aug]) == 1, "", init[0].stmt if init else nm)
    ret = [e for e in sc.exits if e.kind == "return"]
    if P and M and ret:
        LNx = Rat.atom(f"len0[{x}]")
        Sx = Rat.atom(P) - Rat.atom(M)
        vals = ret[-1].values or []
        okr = len(vals) == 2 and vals[0].equals(Sx) and vals[1].equals(Sx / (LNx * (LNx - Rat.const(1)) / Rat.const(2)))
        ob("R-FORMULA", "mk_score", "returns (S, tau) with S = #(>) - #(<) and tau = S / (n(n-1)/2)", okr,
           f"code = {ret[-1].value.key()}", ret[-1].stmt, kind="normal-form equality")

    # ------------------------------------------------------------ variance
    vx = K["mk_variance_s"].params[0]
    vs = SC["mk_variance_s"]
    LN = Rat.atom(f"len0[{vx}]")
    base = LN * (LN - Rat.const(1)) * (Rat.const(2) * LN + Rat.const(5))
    rets = [e for e in vs.exits if e.kind == "return"]
    tie_free = [e for e in rets if e.guards and e.guards[-1] == f"eq0[-1*len0[unique[{vx}]] + len0[{vx}]]"]
    ob("R-FORMULA", "mk_variance_s", "without ties Var(S) = n(n-1)(2n+5)/18", len(tie_free) == 1 and tie_free[0].value.equals(base / Rat.const(18)),
       f"tie-free return: {[e.value.key() for e in tie_free]}", tie_free[0].stmt if tie_free else "tie-free return")
    # tie accumulation
    tp = t = None
    for name, ds in vs.scalars.items():
        for d in ds:
            if d.aug and d.region.kind == "loop" and d.region.rng and d.region.rng[0].key() == f"len0[{vx}]" and (d.rhs - Rat.atom(name)).equals(Rat.const(1)):
                t = (name, d)
    if t:
        tn, td = t
        uloop = td.region.parent
        okt = (uloop is not None and uloop.rng and uloop.rng[0].key() == f"len0[unique[{vx}]]"
               and td.guards[-1] == f"eq0[-1*unique[{vx}][{uloop.var}] + {vx}[{td.region.var}]]")
        # ... or the outer loop runs over the distinct values themselves
        okt = okt or (uloop is not None and uloop.rng is None and uloop.iter_key == f"unique[{vx}]"
                      and td.guards[-1] in (f"eq0[-1*elem[unique[{vx}]] + {vx}[{td.region.var}]]", f"eq0[elem[unique[{vx}]] + -1*{vx}[{td.region.var}]]"))
        ob("R-FORMULA", "mk_variance_s", "t counts the occurrences of each distinct value over the whole series", bool(okt),
           f"increment of {tn} in {td.region.label()} inside {uloop.label() if uloop else None} under {td.guards[-1:]}", td.stmt)
        reset = [d for d in vs.scalars[tn] if not d.aug and d.region is uloop and d.rhs.equals(Rat.const(0))]
        ob("R-LOOPCARRY", "mk_variance_s", "t restarts at 0 for every distinct value", len(reset) == 1, "", reset[0].stmt if reset else tn)
        T = Rat.atom(tn)
        term = T * (T - Rat.const(1)) * (Rat.const(2) * T + Rat.const(5))
        for name, ds in vs.scalars.items():
            for d in ds:
                if d.aug and d.region is uloop and (d.rhs - Rat.atom(name)).equals(term):
                    tp = (name, d)
        ob("R-FORMULA", "mk_variance_s", "tie term accumulates t(t-1)(2t+5) per distinct value", tp is not None,
           f"accumulations in the unique-value loop: {[(n, d.rhs.key()) for n, ds in vs.scalars.items() for d in ds if d.aug and d.region is uloop]}",
           tp[1].stmt if tp else "tp += t(t-1)(2t+5)")
        if tp:
            init = [d for d in vs.scalars[tp[0]] if not d.aug]
            ob("R-FORMULA", "mk_variance_s", "tie sum starts at 0", len(init) == 1 and init[0].rhs.equals(Rat.const(0)), "", init[0].stmt if init else tp[0])
            tied = [e for e in rets if e not in tie_free]
            ob("R-FORMULA", "mk_variance_s", "with ties Var(S) = (n(n-1)(2n+5) - sum t(t-1)(2t+5))/18", len(tied) == 1 and
               tied[0].value.equals((base - Rat.atom(tp[0])) / Rat.const(18)), f"code = {[e.value.key() for e in tied]}", tied[0].stmt if tied else "return")
    else:
        ob("R-FORMULA", "mk_variance_s", "tie multiplicities are counted", False, "no multiplicity counter found", "tie loop")

    # ------------------------------------------------------------ Z
    zs = SC["mk_z_score"]
    sp, vp = K["mk_z_score"].params[:2]
    zr = [e for e in zs.exits if e.kind == "return"]
    arms = {}
    for e in zr:
        g = e.guards[-1] if e.guards else ""
        arms[g] = e
    pos, neg = arms.get(f"gt0[{sp}]"), arms.get(f"lt0[{sp}]")
    zero = [e for g, e in arms.items() if g not in (f"gt0[{sp}]", f"lt0[{sp}]")]
    S, V = Rat.atom(sp), Rat.atom(f"sqrt[{vp}]")
    ob("R-FORMULA", "mk_z_score", "Z = (S-1)/sqrt(Var) for S > 0", pos is not None and pos.value.equals((S - Rat.const(1)) / V),
       f"code = {pos.value.key() if pos else None}", pos.stmt if pos else "S > 0 arm")
    ob("R-FORMULA", "mk_z_score", "Z = (S+1)/sqrt(Var) for S < 0", neg is not None and neg.value.equals((S + Rat.const(1)) / V),
       f"code = {neg.value.key() if neg else None}", neg.stmt if neg else "S < 0 arm")
    ob("R-FORMULA", "mk_z_score", "Z = 0 for S = 0", len(zero) == 1 and zero[0].value.equals(Rat.const(0)), f"{[e.value.key() for e in zero]}",
       zero[0].stmt if zero else "S == 0 arm")
    if pos and neg:
        mirrored = _subst_atom(pos.value, sp, -S)
        ob("R-SYMMETRY", "mk_z_score", "Z is odd in S (the two arms mirror each other)", (mirrored + neg.value).is_zero() or mirrored.equals(-neg.value),
           f"Z(-S) on the positive arm = {mirrored.key()} ; negative arm = {neg.value.key()}", "oddness of Z")

    # ------------------------------------------------------------ p, h
    ps = SC["mk_p_value"]
    zp = K["mk_p_value"].params[0]
    ap = K["mk_p_value"].params[1]
    pr = [e for e in ps.exits if e.kind == "return"]
    Phi = f"(1/2)*(1 + erf(abs({zp})*sqrt(1/2)))"
    want_p = R(f"2*(1 - {Phi})")
    want_h = f"lt0[-1*abs[{zp}] + ndtri[-1/2*{ap} + 1]]"
    okp = bool(pr) and pr[-1].value.key() == f"tuple[{want_p.key()};{want_h}]"
    ob("R-FORMULA", "mk_p_value", "p = 2(1 - Phi(|Z|)), Phi(t) = (1 + erf(t/sqrt 2))/2; h = |Z| > ndtri(1 - alpha/2)", okp,
       f"code = {pr[-1].value.key() if pr else None} ; required tuple[{want_p.key()};{want_h}]", pr[-1].stmt if pr else "return", kind="normal-form equality")
    dflt = K["mk_p_value"].node.args.defaults
    ob("R-FORMULA", "mk_p_value", "default significance level is 0.05", len(dflt) == 1 and isinstance(dflt[0], ast.Constant) and dflt[0].value == 0.05,
       f"defaults = {[ast.unparse(d) for d in dflt]}", "alpha=0.05")
    zuses = [n for n in ast.walk(K["mk_p_value"].node) if isinstance(n, ast.Name) and n.id == zp and isinstance(n.ctx, ast.Load)]
    parents = {}
    for p_ in ast.walk(K["mk_p_value"].node):
        for c in ast.iter_child_nodes(p_):
            parents[id(c)] = p_
    only_abs = all(isinstance(parents.get(id(n)), ast.Call) and ast.unparse(parents[id(n)].func) == "abs" for n in zuses)
    ob("R-SYMMETRY", "mk_p_value", "p and h depend on Z only through |Z|", only_abs and bool(zuses), f"{len(zuses)} uses of {zp}", "uses of z in mk_p_value")

    # ------------------------------------------------------------ Sen's slope
    sx = K["mk_sens_slope"].params[0]
    ss = SC["mk_sens_slope"]
    inner = pair_cover("mk_sens_slope", f"size[{sx}]")
    if inner is not None:
        j, i = inner.var, inner.parent.var
        st = [s for s in ss.stores if s.region is inner]
        want = R(f"({sx}[{j}] - {sx}[{i}])/({j} - {i})")
        okd = len(st) == 1 and st[0].rhs.equals(want)
        ob("R-FORMULA", "mk_sens_slope", "pairwise slope (x[j] - x[i]) / (j - i)", okd, f"code = {[s.rhs.key() for s in st]}", st[0].stmt if st else "d[ix] = ...")
        if st:
            cnt = st[0].idx_key
            incs = [d for d in ss.scalars.get(cnt, []) if d.aug]
            init = [d for d in ss.scalars.get(cnt, []) if not d.aug]
            okc = (len(incs) == 1 and incs[0].region is inner and (incs[0].rhs - Rat.atom(cnt)).equals(Rat.const(1)) and incs[0].seq > st[0].seq
                   and len(init) == 1 and init[0].rhs.equals(Rat.const(0)))
            ob("R-FORMULA", "mk_sens_slope", "slopes are stored at consecutive positions (iteration counter)", okc,
               f"index {cnt}: init {[d.rhs.key() for d in init]}, increments {[d.rhs.key() for d in incs]}", incs[0].stmt if incs else cnt, kind="lemma:pair-counter")
            al = ss.allocs.get(st[0].arr)
            okn = False
            if al is not None and al.args:
                size = StoreCollector.N(ss).norm(al.args[0])
                LNs = Rat.atom(f"size[{sx}]")
                okn = size.equals(LNs * (LNs - Rat.const(1)) / Rat.const(2))
            ob("R-FORMULA", "mk_sens_slope", "the slope buffer has exactly n(n-1)/2 entries", okn, f"allocation {norm_stmt(al) if al is not None else None}",
               ss.alloc_stmts.get(st[0].arr, "d"))
            rets = [e for e in ss.exits if e.kind == "return"]
            ob("R-FORMULA", "mk_sens_slope", "slope = median of the pairwise slopes", bool(rets) and rets[-1].value.key().startswith(f"tuple[nanmedian[{st[0].arr}];")
               or (bool(rets) and rets[-1].value.key().startswith(f"tuple[median[{st[0].arr}];")), f"code = {rets[-1].value.key()[:80] if rets else None}",
               rets[-1].stmt if rets else "return")

    from ..rules import no_early_exit
    for fn_ in ("mk_score", "mk_variance_s", "mk_sens_slope", "mann_kendall_trend_yxt"):
        no_early_exit(rep, SC[fn_], FILE, fn_, "pair / tie / pixel loops")
    # ------------------------------------------------------------ use-shape rule
    for fn in ("mk_score", "mk_variance_s"):
        k = K[fn]
        xp = k.params[0]
        aliases = {xp}
        for st in ast.walk(k.node):
            if isinstance(st, ast.Assign) and isinstance(st.targets[0], ast.Name) and isinstance(st.value, ast.Call) \
                    and ast.unparse(st.value.func) in ("np.unique", "unique") and ast.unparse(st.value.args[0]) == xp:
                aliases.add(st.targets[0].id)
        par = {}
        for p_ in ast.walk(k.node):
            for c in ast.iter_child_nodes(p_):
                par[id(c)] = p_
        bad = []
        n_uses = 0
        for n in ast.walk(k.node):
            if isinstance(n, ast.Name) and n.id in aliases and isinstance(n.ctx, ast.Load):
                n_uses += 1
                p_ = par.get(id(n))
                if isinstance(p_, ast.Call) and ast.unparse(p_.func) in ("len", "np.unique", "unique") and p_.args and p_.args[0] is n:
                    continue
                if isinstance(p_, ast.Subscript) and p_.value is n:
                    pp = par.get(id(p_))
                    if isinstance(pp, ast.Compare) and len(pp.ops) == 1 and isinstance(pp.ops[0], (ast.Lt, ast.Gt, ast.Eq, ast.NotEq, ast.LtE, ast.GtE)):
                        sides = [pp.left] + pp.comparators
                        elem_al = {f_.target.id for f_ in ast.walk(k.node) if isinstance(f_, ast.For) and isinstance(f_.iter, ast.Name) and f_.iter.id in aliases
                                   and isinstance(f_.target, ast.Name)}
                        if all((isinstance(s_, ast.Subscript) and isinstance(s_.value, ast.Name) and s_.value.id in aliases)
                               or (isinstance(s_, ast.Name) and s_.id in elem_al) for s_ in sides):
                            continue
                if isinstance(p_, ast.For) and p_.iter is n and isinstance(p_.target, ast.Name):
                    # iterating the (distinct) values: fine when the element is used only in order/equality comparisons with elements of the series
                    lv = p_.target.id
                    uses = [u for u in ast.walk(p_) if isinstance(u, ast.Name) and u.id == lv and isinstance(u.ctx, ast.Load)]
                    if uses and all(isinstance(par.get(id(u)), ast.Compare) and len(par[id(u)].ops) == 1
                                    and isinstance(par[id(u)].ops[0], (ast.Lt, ast.Gt, ast.Eq, ast.NotEq, ast.LtE, ast.GtE))
                                    and all(o is u or (isinstance(o, ast.Subscript) and isinstance(o.value, ast.Name) and o.value.id in aliases)
                                            for o in [par[id(u)].left] + par[id(u)].comparators) for u in uses):
                        continue
                bad.append(p_)
        ob("R-USESHAPE", fn, "the series is read only through pairwise order/equality comparisons of its own elements, unique and len", not bad and n_uses > 0,
           f"value-dependent use: `{norm_stmt(bad[0])}`" if bad else f"{n_uses} uses", bad[0] if bad else f"uses of {xp} in {fn}")

    # ------------------------------------------------------------ composition and trend flag
    one = SC["mann_kendall_trend_1d"]
    x1 = K["mann_kendall_trend_1d"].params[0]
    S_ = f"item0[mk_score[{x1}]]"
    Z_ = f"mk_z_score[{S_};mk_variance_s[{x1}]]"
    H_ = f"item1[mk_p_value[{Z_}]]"
    rets = [e for e in one.exits if e.kind == "return"]
    head = f"tuple[item1[mk_score[{x1}]];item0[mk_p_value[{Z_}]];item0[mk_sens_slope[{x1}]];"
    okc = len(rets) >= 1 and all(e.value.key().startswith(head) for e in rets)
    ob("R-FORMULA", "mann_kendall_trend_1d", "returns (tau, p, slope, flag) composed as tau=mk_score, Z=mk_z_score(S, Var), p=mk_p_value(Z), slope=mk_sens_slope",
       okc, f"returns: {[e.value.key()[:160] for e in rets]}", rets[-1].stmt if rets else "return")

    # decision tables: the flag is evaluated for each of the six abstract cases (significant or not) x (Z > 0, Z < 0, Z = 0) by walking the
    # guarded definitions in program order - the shape of the control flow (early return, default + overwrite, if/elif) does not matter
    def holds(g, h, sg, H, Z):
        if g == H:
            return h == 1
        if g == f"not[{H}]":
            return h == 0
        # compound tests (`h and z > 0`, `not (h and z > 0)`) are evaluated from their parts
        for op in ("and", "or", "not"):
            if g.startswith(op + "[") and g.endswith("]"):
                from .smooth_common import split_args as _split
                parts = [holds(p_, h, sg, H, Z) for p_ in _split(g)]
                if None in parts:
                    return None
                return all(parts) if op == "and" else any(parts) if op == "or" else (not parts[0])
        for tag, val in (("gt0", sg == "+"), ("lt0", sg == "-"), ("ge0", sg in "+0"), ("le0", sg in "-0"), ("eq0", sg == "0"), ("ne0", sg != "0")):
            if g == f"{tag}[{Z}]":
                return val
        return None

    def flag_at(sc_, seq, h, sg, H, Z, name="trend"):
        cur = None
        for d in sorted(sc_.scalars.get(name, []), key=lambda d_: d_.seq):
            if d.seq >= seq:
                break
            hs = [holds(g, h, sg, H, Z) for g in d.guards]
            if None in hs:
                return f"?({[g for g, v in zip(d.guards, hs) if v is None][0][:40]})"
            if all(hs):
                cur = d.rhs.key()
        return cur

    CASES = [(h, sg) for h in (0, 1) for sg in "+-0"]
    want_t = {(0, "+"): "0", (0, "-"): "0", (0, "0"): "0", (1, "+"): "1", (1, "-"): "-1", (1, "0"): "0"}

    def table_1d():
        t = {}
        for h, sg in CASES:
            val = "no return reached"
            for e in sorted(rets, key=lambda e_: e_.seq):
                hs = [holds(g, h, sg, H_, Z_) for g in e.guards]
                if None in hs:
                    val = "?"
                    break
                if all(hs):
                    last = e.value.key()[len(head):-1] if e.value.key().startswith(head) else "?"
                    val = flag_at(one, e.seq, h, sg, H_, Z_) if last == "trend" else last
                    break
            t[(h, sg)] = val
        return t
    t1 = table_1d()
    ob("R-FORMULA", "mann_kendall_trend_1d", "flag: 0 when not significant, +1 for Z > 0, -1 for Z < 0, 0 for Z = 0", t1 == want_t,
       f"decision table (significant, sign Z) -> flag: {t1}; required {want_t}", "trend flag (1-d)")
    yxt = SC["mann_kendall_trend_yxt"]
    flag_stores = [s_ for s_ in yxt.stores if s_.idx_key.endswith(",3")]
    t3 = {}
    deleg = False
    if len(flag_stores) == 1:
        fs = flag_stores[0]
        import re as _re
        if _re.fullmatch(r"item3\[mann_kendall_trend_1d\[.*\]\]", fs.rhs.key()) and not fs.guards:
            deleg = True        # the 3-d driver delegates the pixel to the 1-d driver: same table by construction
        else:
            gs = {g for d in yxt.scalars.get("trend", []) for g in d.guards}
            H3 = next((g for g in gs if g.startswith("item1[mk_p_value[")), None)
            Z3 = H3[len("item1[mk_p_value["):-2] if H3 else None
            for h, sg in CASES:
                t3[(h, sg)] = flag_at(yxt, fs.seq, h, sg, H3, Z3) if fs.rhs.key() == "trend" and H3 else fs.rhs.key()
    elif len(flag_stores) > 1:
        # the flag is stored under the arms of the decision itself (`if not h: r[..,3] = 0 ...`): the table is read off the guarded stores,
        # the last store in program order whose guards hold in an abstract case decides that case
        gs = {g for s_ in flag_stores for g in s_.guards}
        H3 = next((g for g in sorted(gs) if g.startswith("item1[mk_p_value[")), None) or \
            next((g[4:-1] for g in sorted(gs) if g.startswith("not[item1[mk_p_value[")), None)
        Z3 = H3[len("item1[mk_p_value["):-2] if H3 else None
        for h, sg in CASES:
            cur = "no store reached"
            for s_ in sorted(flag_stores, key=lambda x_: x_.seq):
                hs = [holds(g, h, sg, H3, Z3) for g in s_.guards] if H3 else [None]
                if None in hs:
                    cur = "?"
                    break
                if all(hs):
                    cur = s_.rhs.key()
            t3[(h, sg)] = cur
    multi_flag = len(flag_stores) > 1
    # the 3-d driver stores (tau, p, slope, flag) in slots 0..3 of the pixel
    slots = {}
    for s_ in yxt.stores:
        parts = s_.idx_key.split(",")
        if len(parts) == 3 and parts[2] in "0123":
            slots.setdefault(parts[2], []).append(s_.rhs.key())
    if deleg or any("mann_kendall_trend_1d[" in v_ for vs_ in slots.values() for v_ in vs_):
        want_slots = None
        oks = all(len(slots.get(str(i_), [])) == 1 and slots[str(i_)][0].startswith(f"item{i_}[mann_kendall_trend_1d[") for i_ in range(4))
    else:
        pix3 = None
        for d_ in yxt.scalars.get("trend", []):
            pass
        import re as _re2
        def _arg_of(text, fn_="mk_score["):
            i_ = text.find(fn_)
            if i_ < 0:
                return None
            j_, depth = i_ + len(fn_), 1
            while j_ < len(text) and depth:
                depth += text[j_] == "["
                depth -= text[j_] == "]"
                j_ += 1
            return text[i_ + len(fn_): j_ - 1]
        sl = next((a_ for vs_ in slots.values() for v_ in vs_ for a_ in [_arg_of(v_)] if a_), None)
        want_slots = {"0": f"item1[mk_score[{sl}]]", "2": f"item0[mk_sens_slope[{sl}]]"} if sl else {}
        oks = bool(sl) and slots.get("0") == [want_slots["0"]] and slots.get("2") == [want_slots["2"]] and len(slots.get("1", [])) == 1 \
            and slots["1"][0].startswith(f"item0[mk_p_value[mk_z_score[item0[mk_score[{sl}]];mk_variance_s[{sl}]]") and (len(slots.get("3", [])) == 1 or (multi_flag and t3 == want_t))
    ob("R-MUSTWRITE", "mann_kendall_trend_yxt", "the 3-d driver stores tau, p, slope and the flag in slots 0, 1, 2, 3 of every pixel", oks,
       f"slot stores: { {k_: [v_[:70] for v_ in vs_] for k_, vs_ in sorted(slots.items())} }", "r[yix, xix, k] = ...")
    ob("R-SIBLING(trend)", "mann_kendall_trend_yxt", "the 3-d driver uses the same decision table as the 1-d driver", deleg or t3 == want_t,
       f"decision table {t3}; required {want_t}; flag stores {[norm_stmt(s_.stmt) for s_ in flag_stores]}", flag_stores[0].stmt if flag_stores else "trend flag (3-d)")

    # ------------------------------------------------------------ gufunc wrappers
    for fn in ("_mann_kendall_trend_gu", "_mann_kendall_trend_gu_nd"):
        k = K[fn]
        s_ = SC[fn]
        outs = k.outputs
        xin = k.params[0]
        call_stores = [s for s in s_.stores if s.rhs.key().startswith("item") and f"mann_kendall_trend_1d[{xin}]" in s.rhs.key()]
        okw = [s.arr for s in call_stores] == outs and [s.rhs.key() for s in call_stores] == [f"item{i}[mann_kendall_trend_1d[{xin}]]" for i in range(4)] \
            and all(s.idx_key == "0" for s in call_stores)
        ob("R-MUSTWRITE", fn, "(tau, p, slope, flag) of the 1-d routine are stored into the four outputs in order", okw,
           f"stores: {[(s.arr, s.rhs.key()) for s in call_stores]}", call_stores[0].stmt if call_stores else fn)
        if fn.endswith("_nd"):
            ndp = k.params[1]
            g = f"any[ne0[-1*{ndp} + {xin}]]"
            ok1 = all(list(s.guards) == [g] for s in call_stores)
            other = [s for s in s_.stores if s not in call_stores]
            vals = {s.arr: s.rhs.key() for s in other if list(s.guards) == [f"not[{g}]"] and s.idx_key == "0"}
            want = {outs[0]: ndp, outs[1]: ndp, outs[2]: ndp, outs[3]: "-2"}
            ob("R-FORMULA", fn, "a pixel is computed when any cell differs from nodata", ok1, f"guards {[list(s.guards) for s in call_stores]}", "valid arm guard")
            ob("R-MUSTWRITE", fn, "an all-nodata pixel yields nodata, nodata, nodata and flag -2 (all four outputs written)", vals == want,
               f"else-arm stores {vals}; required {want}", other[0].stmt if other else "else arm")
    # ------------------------------------------------------------ sites
    sites = [s for s in load_sites(repo, kernels) if s.kernel in ("_mann_kendall_trend_gu", "_mann_kendall_trend_gu_nd")]
    rep.floor("mktrend call sites", len(sites), 2)
    for s in sites:
        k = kernels[s.kernel]
        r_bind(rep, s, k)
        decl = const_list(s.opts.get("output_dtypes"))
        written = [[d for d, _ in sig[k.n_in:]] for sig in k.sigs]
        rep.ob("R-DTYPE-DECL", AFILE, s.where(), f"{s.kernel}: declared output dtypes == dtypes the kernel writes", all(decl == w for w in written),
               f"output_dtypes = {decl}; signatures write {written}", f"{s.kernel} output_dtypes", line=s.line)
    m = repo.method("hdc.algo.accessors", "PixelAlgorithms", "mktrend")
    names = None
    for n in ast.walk(m):
        if isinstance(n, ast.Call) and ast.unparse(n.func) == "zip" and len(n.args) == 2:
            from ..rules import resolve_local
            names = const_list(resolve_local(m, n.args[1]))      # a hoisted `names = [...]` is the same list
    rep.ob("R-BIND", AFILE, "PixelAlgorithms.mktrend", "outputs are named tau, pvalue, slope, trend in the kernel's order", names == ["tau", "pvalue", "slope", "trend"],
           f"names = {names}", "zip(x, [names])")
    # dispatch: the nodata-aware kernel is used whenever a nodata attribute exists (0 is a legitimate nodata value)
    disp = [n for n in ast.walk(m) if isinstance(n, ast.If) and any(isinstance(c, ast.Name) and c.id == "_mann_kendall_trend_gu" for c in ast.walk(ast.Module(body=n.body, type_ignores=[])))]
    nd_defs = [norm_stmt(st.value) for st in ast.walk(m) if isinstance(st, ast.Assign) and isinstance(st.targets[0], ast.Name) and st.targets[0].id == "nodata"]
    okd = (len(disp) == 1 and norm_stmt(disp[0].test) == "nodata is None"
           and any(isinstance(c, ast.Name) and c.id == "_mann_kendall_trend_gu_nd" for c in ast.walk(ast.Module(body=disp[0].orelse, type_ignores=[])))
           and nd_defs in (["self._obj.attrs.get('nodata', None)"], ["self._obj.attrs.get('nodata')"]))
    rep.ob("R-BIND", AFILE, "PixelAlgorithms.mktrend", "the kernel without nodata handling is used exactly when the nodata attribute is absent (`is None`)", okd,
           f"dispatch test `{norm_stmt(disp[0].test) if disp else None}`, nodata = {nd_defs}: a truthiness test sends nodata = 0 to the kernel that treats every cell as data",
           disp[0].test if disp else "dispatch")
    from ..rules import r_truthy
    r_truthy(rep, repo, "PixelAlgorithms", "mktrend", ["nodata"], "0 is a legitimate nodata value (it is the one the test-suite uses); a truth test silently replaces or drops it")
    # the nodata attribute of the trend variable is the flag the kernel writes for an all-nodata pixel
    attr = [st_ for st_ in ast.walk(m) if isinstance(st_, ast.Assign) and "attrs['nodata']" in ast.unparse(st_.targets[0]) and "trend" in ast.unparse(st_.targets[0])]
    rep.ob("R-BIND", AFILE, "PixelAlgorithms.mktrend", "trend.attrs['nodata'] is the all-nodata flag -2 of the kernel", len(attr) == 1 and ast.unparse(attr[0].value) == "-2",
           f"{[norm_stmt(a_) for a_ in attr]}", attr[0] if attr else "x.trend.attrs['nodata'] = -2")
    from ..rules import r_stateless
    r_stateless(rep, repo, [('PixelAlgorithms', 'mktrend')])
    rep.floor("C10 obligations", len(rep.obls), 40)
    return rep

"""C11 — dekads partition the calendar and behave as an ordered integer line.

Decided by abstract evaluation of the expressions of ``hdc/algo/dekad.py`` (never
imported): the exact domain ``a*q + t[r]`` for v = 36 q + r (mixed-radix digits), an
interval domain for the day-of-month, rational normal forms for the translation
identities, and sibling descriptors for the rich comparisons and the accessor.
"""
from __future__ import annotations

import ast
from typing import Dict, List, Optional

from ..core import AnalysisError, Report, Repo, norm_stmt
from ..poly import Normaliser, Rat, cmp_key, parse_expr
from ..radix import AffQ, Itv, Top, eval_affq, eval_itv

LEVEL = "proof"
MOD = "hdc.algo.dekad"
FILE = "hdc/algo/dekad.py"
ACC = "hdc.algo.accessors"
AFILE = "hdc/algo/accessors.py"
P = 36


def body_wo_doc(fn: ast.FunctionDef) -> List[ast.stmt]:
    b = fn.body
    if b and isinstance(b[0], ast.Expr) and isinstance(b[0].value, ast.Constant) and isinstance(b[0].value.value, str):
        return b[1:]
    return b


def single_return(fn: ast.FunctionDef, what: str) -> ast.expr:
    b = body_wo_doc(fn)
    if len(b) != 1 or not isinstance(b[0], ast.Return) or b[0].value is None:
        raise AnalysisError(f"unsupported construct: {FILE}:{fn.lineno} {what} is not a single return expression")
    return b[0].value


def is_property(fn: ast.FunctionDef) -> bool:
    return any(isinstance(d, ast.Name) and d.id == "property" for d in fn.decorator_list)


def run(repo: Repo, tier: str) -> Report:
    rep = Report("C11")
    rep.decided = [
        "both constructor arms compute 36*Y + 3*(M-1) + K; K is {0},{1},{2} on days 1-10, 11-20, 21-31 (interval domain)",
        "year/month/idx/day/yidx are the digit extractions of that encoding for every raw value (exact domain a*q + t[r], v = 36q + r)",
        "label writer/reader field layout agreement",
        "six rich comparisons, hash, +, - are consistent operations on the raw integer; translation identities",
        "end_date/ndays are built from the next dekad's start with one and the same resolution delta",
        "accessor properties apply the scalar attribute of the same name",
    ]
    rep.declined = ["arithmetic of the datetime library itself", "end_date of 9999-12-d3 (outside datetime's range; excluded by the statement)"]
    rep.trusted = ["CPython ast", "mixed-radix lemma: digits of v = 36Y + 3(M-1) + K with 0<=M-1<12, 0<=K<3 are unique",
                   "datetime/timedelta arithmetic is exact at microsecond resolution"]

    m = repo.mod(MOD)
    cls = m.classes().get("Dekad")
    if cls is None:
        raise AnalysisError(f"missing anchor: class Dekad in {FILE}")
    meth: Dict[str, ast.FunctionDef] = {}
    for n in cls.body:
        if isinstance(n, ast.FunctionDef):
            # keep the last definition (overloads precede the implementation)
            meth[n.name] = n
    # functools.total_ordering derives the missing ordering methods from one defined root and __eq__ (`a <= b` = `a < b or a == b`):
    # the derived methods order the integer line iff the root and __eq__ do and treat the same operand types alike, which is what the
    # sibling obligations below demand of the methods that are written out.
    total_ordering = any(ast.unparse(d).split(".")[-1] == "total_ordering" for d in cls.decorator_list)
    ordering = ("__lt__", "__le__", "__gt__", "__ge__")
    derived = [o for o in ordering if o not in meth] if total_ordering and any(o in meth for o in ordering) else []
    for need in ("__init__", "year", "month", "day", "idx", "yidx", "raw", "__str__", "__hash__", "__eq__", "__lt__",
                 "__le__", "__gt__", "__ge__", "start_date", "end_date", "ndays", "__add__", "__radd__", "__sub__"):
        if need not in meth and need not in derived:
            raise AnalysisError(f"missing anchor: Dekad.{need} in {FILE}")
    rep.analysed = {"class": f"{FILE}:Dekad", "methods": sorted(meth)}

    props = {k: single_return(v, f"Dekad.{k}") for k, v in meth.items()
             if is_property(v) and k in ("year", "month", "day", "idx", "yidx", "raw")}

    def resolve(node):
        if isinstance(node, ast.Attribute) and isinstance(node.value, ast.Name) and node.value.id == "self":
            if node.attr == "_dkd":
                return AffQ.var(P)
            if node.attr in props:
                return props[node.attr]
        return None

    def ob(rule, fn, role, ok, detail="", stmt=None, kind=""):
        rep.ob(rule, FILE, fn, role, ok, detail, stmt if stmt is not None else role, kind=kind)

    # ---- 3. decoders are digit extractions
    expect = {
        "year": AffQ(1, [0] * P, P),
        "month": AffQ(0, [1 + r // 3 for r in range(P)], P),
        "idx": AffQ(0, [1 + r % 3 for r in range(P)], P),
        "day": AffQ(0, [1 + 10 * (r % 3) for r in range(P)], P),
        "yidx": AffQ(0, [r + 1 for r in range(P)], P),
        "raw": AffQ.var(P),
    }
    dec: Dict[str, AffQ] = {}
    for name, exp in expect.items():
        try:
            got = eval_affq(props[name], P, resolve)
            dec[name] = got
            ok = got == exp
            detail = "" if ok else f"for v = 36q + r the property evaluates to {got}; the definition requires {exp}"
        except Top as exc:
            ok, detail = False, f"not a mixed-radix digit extraction: {exc}"
        ob("R-RADIX", name, f"decoder {name}", ok, detail, meth[name].body[-1], kind="exact abstract domain a*q+t[r]")

    # ---- 1./2. encoder arms
    init = meth["__init__"]
    arg = init.args.args[1].arg if len(init.args.args) > 1 else None
    arms = {"str": None, "date": None, "int": None}
    top_if = [s for s in body_wo_doc(init) if isinstance(s, ast.If)]
    if len(top_if) != 1:
        raise AnalysisError(f"unsupported construct: Dekad.__init__ is not one if/elif/else chain ({FILE}:{init.lineno})")
    node = top_if[0]
    chain = []
    while True:
        chain.append((node.test, node.body))
        if len(node.orelse) == 1 and isinstance(node.orelse[0], ast.If):
            node = node.orelse[0]
        else:
            chain.append((None, node.orelse))
            break
    for test, body in chain:
        if test is None:
            arms["int"] = body
            continue
        t = ast.unparse(test)
        if "isinstance" in t and "str" in t and "date" not in t:
            arms["str"] = body
        elif "isinstance" in t and "date" in t:
            arms["date"] = body
    for k, v in arms.items():
        if v is None:
            raise AnalysisError(f"missing anchor: Dekad.__init__ arm for {k} ({FILE}:{init.lineno})")

    def dkd_assign(body, arm):
        for s in body:
            if isinstance(s, ast.Assign) and ast.unparse(s.targets[0]) == "self._dkd":
                return s
        raise AnalysisError(f"missing anchor: assignment of self._dkd in the {arm} arm of Dekad.__init__")

    # int arm: identity
    s_int = dkd_assign(arms["int"], "int")
    ob("R-FORMULA", "__init__", "raw-integer arm stores its argument unchanged",
       isinstance(s_int.value, ast.Name) and s_int.value.id == arg, "Dekad(int) must be the identity on the raw value", s_int)

    # string arm
    s_str = dkd_assign(arms["str"], "str")
    fields: Dict[str, ast.expr] = {}
    asserts: List[ast.Assert] = []
    for s in arms["str"]:
        if isinstance(s, ast.Assign) and isinstance(s.targets[0], ast.Tuple) and isinstance(s.value, ast.Tuple):
            for t, v in zip(s.targets[0].elts, s.value.elts):
                if isinstance(t, ast.Name):
                    fields[t.id] = v
        elif isinstance(s, ast.Assign) and isinstance(s.targets[0], ast.Name):
            fields[s.targets[0].id] = s.value
        elif isinstance(s, ast.Assert):
            asserts.append(s)

    # which field name carries which digit: decided by the label layout below (reader side)
    label = meth["__str__"]
    lab = single_return(label, "Dekad.__str__")
    layout = []  # (kind, name|text, start, width)
    pos = 0
    okfmt = isinstance(lab, ast.JoinedStr)
    if okfmt:
        for part in lab.values:
            if isinstance(part, ast.Constant):
                layout.append(("lit", part.value, pos, len(part.value)))
                pos += len(part.value)
            elif isinstance(part, ast.FormattedValue):
                nm = part.value.attr if isinstance(part.value, ast.Attribute) else ast.unparse(part.value)
                spec = ""
                if part.format_spec is not None:
                    spec = "".join(p.value for p in part.format_spec.values if isinstance(p, ast.Constant))
                width = None
                if spec:
                    mm = __import__("re").fullmatch(r"0(\d+)d", spec)
                    width = int(mm.group(1)) if mm else None
                elif nm == "idx":
                    width = 1  # idx in [1,3] by the decoder table
                if width is None:
                    okfmt = False
                    break
                layout.append(("field", nm, pos, width))
                pos += width
    total = pos
    want_layout = [("field", "year", 0, 4), ("field", "month", 4, 2), ("lit", "d", 6, 1), ("field", "idx", 7, 1)]
    ob("R-FORMAT", "__str__", "label is YYYYMMd{idx} with zero-padded fixed-width fields", okfmt and layout == want_layout,
       f"label layout is {layout}; the statement's format 'YYYYMMd{{1,2,3}}' requires {want_layout}", label.body[-1])

    def slice_extent(e: ast.expr):
        """int(arg[a:b]) / int(arg[-1]) -> (start, stop) with negatives resolved against the label length."""
        if isinstance(e, ast.Call) and isinstance(e.func, ast.Name) and e.func.id == "int" and len(e.args) == 1:
            e = e.args[0]
        else:
            return None
        if not (isinstance(e, ast.Subscript) and isinstance(e.value, ast.Name) and e.value.id == arg):
            return None
        sl = e.slice

        def val(x, default):
            if x is None:
                return default
            if isinstance(x, ast.Constant) and isinstance(x.value, int):
                return x.value if x.value >= 0 else total + x.value
            if isinstance(x, ast.UnaryOp) and isinstance(x.op, ast.USub) and isinstance(x.operand, ast.Constant):
                return total - x.operand.value
            raise AnalysisError(f"unsupported construct: label slice bound {ast.unparse(x)}")

        if isinstance(sl, ast.Slice):
            if sl.step is not None:
                return None
            return val(sl.lower, 0), val(sl.upper, total)
        a = val(sl, None)
        return a, a + 1

    # map reader fields to writer fields through the encoder expression below
    reader: Dict[str, tuple] = {}
    for nm, e in fields.items():
        ext = slice_extent(e)
        if ext is not None:
            reader[nm] = ext

    # encoder linear form: identify names by position in the normal form 36*A + 3*(B-1) + (C-1)
    def encoder_roles(expr: ast.expr, names: List[str]):
        r = Normaliser().norm(expr)
        roles = {}
        for nm in names:
            c = r.n.coeff_of(nm).const_value()
            roles[nm] = c
        return r, roles

    r_str, roles = encoder_roles(s_str.value, list(fields))
    by_coeff = {v: k for k, v in roles.items() if v is not None}
    ok = set(by_coeff) >= {36, 3, 1}
    ref = None
    if ok:
        ref = Normaliser().norm(parse_expr(f"36*{by_coeff[36]} + 3*({by_coeff[3]} - 1) + ({by_coeff[1]} - 1)"))
        ok = r_str.equals(ref)
    ob("R-FORMULA", "__init__", "label arm encodes 36*year + 3*(month-1) + (idx-1)", ok,
       "" if ok else f"code = {r_str.key()}", s_str, kind="normal-form equality")
    if ok:
        ymap = {by_coeff[36]: "year", by_coeff[3]: "month", by_coeff[1]: "idx"}
        for nm, role in ymap.items():
            w = [x for x in want_layout if x[0] == "field" and x[1] == role][0]
            got = reader.get(nm)
            ob("R-FORMAT", "__init__", f"label reader slice of {role} matches the writer's field", got == (w[2], w[2] + w[3]),
               f"reader takes characters {got} of the label, the writer puts {role} at [{w[2]}:{w[2] + w[3]}]",
               f"{nm} = {ast.unparse(fields[nm])}")
        # digit range asserts (month 1..12, idx 1..3) keep the mixed-radix digits canonical
        have = {norm_stmt(a.test) for a in asserts}
        for role, lo, hi in (("month", 1, 12), ("idx", 1, 3)):
            nm = [k for k, v in ymap.items() if v == role][0]
            okr = any(norm_stmt(a.test) in (f"{lo} <= {nm} <= {hi}", f"{nm} >= {lo} and {nm} <= {hi}",
                                            f"{lo} <= {nm} and {nm} <= {hi}", f"{hi} >= {nm} >= {lo}") for a in asserts)
            ob("R-RANGE", "__init__", f"label arm restricts {role} to {lo}..{hi}", okr,
               f"digits outside {lo}..{hi} alias another dekad (asserts present: {sorted(have)})", f"assert {lo} <= {nm} <= {hi}")
        # inverse: encoder applied to the decoded fields is the identity on v
        def res2(node):
            if isinstance(node, ast.Name) and node.id in ymap and ymap[node.id] in dec:
                return dec[ymap[node.id]]
            return None
        try:
            back = eval_affq(s_str.value, P, res2)
            okb = back == AffQ.var(P)
            det = "" if okb else f"encode(decode(v)) = {back}"
        except Top as exc:
            okb, det = False, str(exc)
        ob("R-RADIX", "__init__", "label arm inverts the decoders (encode(year, month, idx of v) == v)", okb, det, s_str,
           kind="exact abstract domain")

    # date arm
    s_date = dkd_assign(arms["date"], "date")
    # locals of the arm (an alias of the argument, named fields, a named sub-dekad index) are replaced by their definitions
    import copy as _copy
    _env: Dict[str, ast.AST] = {}

    class _Sub(ast.NodeTransformer):
        def visit_Name(self, node):
            if isinstance(node.ctx, ast.Load) and node.id in _env:
                return _copy.deepcopy(_env[node.id])
            return node
    for s in arms["date"]:
        if s is s_date:
            break
        if isinstance(s, ast.Assign) and len(s.targets) == 1:
            t_, v_ = s.targets[0], s.value
            if isinstance(t_, ast.Name):
                _env[t_.id] = _Sub().visit(_copy.deepcopy(v_))
            elif isinstance(t_, ast.Tuple) and isinstance(v_, ast.Tuple) and len(t_.elts) == len(v_.elts) and all(isinstance(e_, ast.Name) for e_ in t_.elts):
                vals = [_Sub().visit(_copy.deepcopy(e_)) for e_ in v_.elts]
                for e_, val in zip(t_.elts, vals):
                    _env[e_.id] = val
    if _env:
        s_date = ast.copy_location(ast.Assign(targets=s_date.targets, value=_Sub().visit(_copy.deepcopy(s_date.value))), s_date)
        ast.fix_missing_locations(s_date)
    alias = {}
    for s in arms["date"]:
        if isinstance(s, ast.Assign) and isinstance(s.targets[0], ast.Name) and isinstance(s.value, ast.Name):
            alias[s.targets[0].id] = s.value.id

    def is_date_attr(node, attr):
        return (isinstance(node, ast.Attribute) and node.attr == attr and isinstance(node.value, ast.Name)
                and alias.get(node.value.id, node.value.id) == arg)

    Y0 = 2000
    subs = [(1, 10, 0), (11, 20, 1), (21, 31, 2)]
    for lo, hi, k in subs:
        for mon in (1, 7, 12):
            def env(node, lo=lo, hi=hi, mon=mon):
                if is_date_attr(node, "year"):
                    return Itv(Y0, Y0)
                if is_date_attr(node, "month"):
                    return Itv(mon, mon)
                if is_date_attr(node, "day"):
                    return Itv(lo, hi)
                return None
            try:
                got = eval_itv(s_date.value, env)
                want = 36 * Y0 + 3 * (mon - 1) + k
                okd = got == Itv(want, want)
                det = "" if okd else f"days {lo}..{hi} of month {mon} map to raw values {got}, expected the single dekad {want}"
            except Top as exc:
                okd, det = False, str(exc)
            ob("R-INTERVAL", "__init__", f"days {lo}-{hi} (month {mon}) fall into exactly dekad {k + 1}", okd, det, s_date,
               kind="interval domain")
    # linear form in year and month
    rd = Normaliser().norm(s_date.value)
    ykey = [a for a in rd.n.atoms() if a.endswith(".year")]
    mkey = [a for a in rd.n.atoms() if a.endswith(".month")]
    okl = (len(ykey) == 1 and len(mkey) == 1 and rd.n.coeff_of(ykey[0]).const_value() == 36
           and rd.n.coeff_of(mkey[0]).const_value() == 3 and rd.n.degree_in(ykey[0]) == 1 and rd.n.degree_in(mkey[0]) == 1)
    ob("R-FORMULA", "__init__", "date arm is linear 36*year + 3*month + f(day)", okl, f"code = {rd.key()}", s_date)
    # inverse on start dates: date arm applied to (year, month, day) of v is v
    def res3(node):
        for attr in ("year", "month", "day"):
            if is_date_attr(node, attr):
                return dec.get(attr)
        return None
    try:
        back = eval_affq(s_date.value, P, res3)
        okb = back == AffQ.var(P)
        det = "" if okb else f"Dekad(start_date(v)) has raw value {back}"
    except Top as exc:
        okb, det = False, str(exc)
    ob("R-RADIX", "__init__", "date arm inverts start_date (Dekad(start_date of v) == v)", okb, det, s_date, kind="exact abstract domain")

    # ---- start_date / end_date / ndays
    sd = single_return(meth["start_date"], "Dekad.start_date")
    oks = (isinstance(sd, ast.Call) and ast.unparse(sd.func) == "datetime" and [ast.unparse(a) for a in sd.args] ==
           ["self.year", "self.month", "self.day"] and not sd.keywords)
    ob("R-FORMULA", "start_date", "start_date = datetime(year, month, day) of the decoders", oks, ast.unparse(sd), meth["start_date"].body[-1])

    def delta_key(call):
        if isinstance(call, ast.Call) and ast.unparse(call.func) == "timedelta":
            kws = {k.arg: k.value for k in call.keywords}
            if not call.args and set(kws) == {"microseconds"} and isinstance(kws["microseconds"], ast.Constant):
                return kws["microseconds"].value
        return None

    for nm_ in ("end_date", "ndays", "start_date"):
        try:
            single_return(meth[nm_], f"Dekad.{nm_}")
        except AnalysisError:
            ob("R-FORMULA", nm_, f"{nm_} is a single expression built from the neighbouring dekad's start and the shared resolution delta", False,
               f"Dekad.{nm_} has its own control flow / table: the number of days is no longer the difference of the abutting start dates, so it can "
               f"disagree with start_date/end_date (e.g. a calendar rule of its own)", meth[nm_].body[-1])
    if any(not o.ok for o in rep.obls if o.role.startswith(("end_date is", "ndays is", "start_date is"))):
        return rep
    ed = single_return(meth["end_date"], "Dekad.end_date")
    oke = False
    dlt = None
    if isinstance(ed, ast.BinOp) and isinstance(ed.op, ast.Sub):
        left, right = ed.left, ed.right
        dlt = delta_key(right)
        nxt = (isinstance(left, ast.Attribute) and left.attr == "start_date" and isinstance(left.value, ast.BinOp)
               and isinstance(left.value.op, ast.Add)
               and sorted([ast.unparse(left.value.left), ast.unparse(left.value.right)]) == ["1", "self"])
        oke = nxt and dlt == 1
    ob("R-FORMULA", "end_date", "end_date = start of the next dekad minus one microsecond (datetime's resolution)", oke,
       f"code = {ast.unparse(ed)}", meth["end_date"].body[-1])
    nd = single_return(meth["ndays"], "Dekad.ndays")
    okn = False
    if isinstance(nd, ast.Attribute) and nd.attr == "days":
        r = Normaliser().norm(nd.value)
        ref = Normaliser().norm(parse_expr("self.end_date - self.start_date + timedelta(microseconds=1)"))
        okn = r.equals(ref) and dlt == 1
    ob("R-FORMULA", "ndays", "ndays adds back the same delta that end_date subtracts", okn, f"code = {ast.unparse(nd)}",
       meth["ndays"].body[-1])

    # ---- rich comparisons
    ops = {"__eq__": ast.Eq, "__lt__": ast.Lt, "__le__": ast.LtE, "__gt__": ast.Gt, "__ge__": ast.GtE}
    if "__ne__" in meth:
        ops["__ne__"] = ast.NotEq
    for o in derived:
        ops.pop(o)
        root = next(x for x in ordering if x in meth)
        rep.note(f"Dekad.{o} is derived by functools.total_ordering from {root} and __eq__")
    coerce_sets = {}
    for name, op in ops.items():
        fn = meth[name]
        other = fn.args.args[1].arg
        body = body_wo_doc(fn)
        coerce, notimpl, ret = None, False, None
        for s in body:
            if isinstance(s, ast.If):
                t = s.test
                if (isinstance(t, ast.Call) and ast.unparse(t.func) == "isinstance" and ast.unparse(t.args[0]) == other
                        and len(s.body) == 1 and norm_stmt(s.body[0]) == f"{other} = Dekad({other})"):
                    ty = t.args[1]
                    coerce = frozenset(ast.unparse(e) for e in (ty.elts if isinstance(ty, ast.Tuple) else [ty]))
                elif (isinstance(t, ast.UnaryOp) and isinstance(t.op, ast.Not) and isinstance(t.operand, ast.Call)
                      and norm_stmt(t.operand) == f"isinstance({other}, Dekad)" and len(s.body) == 1
                      and norm_stmt(s.body[0]) == "return NotImplemented"):
                    notimpl = True
                else:
                    ret = "?"
            elif isinstance(s, ast.Return):
                ret = s
        coerce_sets[name] = coerce
        okc = isinstance(ret, ast.Return) and isinstance(ret.value, ast.Compare) and len(ret.value.ops) == 1
        if okc:
            env = {}
            got = Normaliser().norm(ret.value).key()
            want = cmp_key(op(), Normaliser().norm(parse_expr("self._dkd")), Normaliser().norm(parse_expr(f"{other}._dkd")))
            okc = got == want
        ob("R-SIBLING(compare)", name, f"{name} compares the raw integers with its own operator", bool(okc),
           f"returns {ast.unparse(ret.value) if isinstance(ret, ast.Return) else ret}", ret if isinstance(ret, ast.Return) else fn.name)
        ob("R-SIBLING(compare)", name, f"{name} returns NotImplemented for foreign types", notimpl,
           "missing `if not isinstance(other, Dekad): return NotImplemented`", f"{name}: NotImplemented arm")
    base = coerce_sets["__eq__"]
    for name, cs in coerce_sets.items():
        ob("R-SIBLING(compare)", name, f"{name} coerces the same types as __eq__", cs == base and cs is not None,
           f"{name} coerces {sorted(cs) if cs else cs}, __eq__ coerces {sorted(base) if base else base}", f"{name}: coercion")
    hs = single_return(meth["__hash__"], "Dekad.__hash__")
    ob("R-SIBLING(compare)", "__hash__", "hash is taken of the field __eq__ compares", norm_stmt(hs) == "hash(self._dkd)",
       f"code = {ast.unparse(hs)}", meth["__hash__"].body[-1])

    # ---- arithmetic
    def dekad_arg(e):
        if isinstance(e, ast.Call) and ast.unparse(e.func) == "Dekad" and len(e.args) == 1:
            return e.args[0]
        return None

    V, Nn = Rat.atom("V"), Rat.atom("n")
    adds = {}
    for name in ("__add__", "__radd__"):
        fn = meth[name]
        par = fn.args.args[1].arg
        e = dekad_arg(single_return(fn, f"Dekad.{name}"))
        if e is None:
            ob("R-FORMULA", name, f"{name} returns a Dekad", False, "", fn.body[-1])
            continue
        r = Normaliser({par: Nn}, on_name=None).norm(_subst_attr(e, "self", "_dkd", "V"))
        adds[name] = r
        ob("R-FORMULA", name, f"{name} translates the raw value by n", r.equals(V + Nn), f"code = {r.key()}", fn.body[-1])
    sub = meth["__sub__"]
    opar = sub.args.args[1].arg
    sbody = body_wo_doc(sub)
    int_arm = None
    dek_ret = None
    # which return belongs to which arm is decided by the canonical guard chain (if/else, guard clause, swapped branches alike)
    from ..rules import guard_chain as _gchain
    for r_ in [n_ for n_ in ast.walk(sub) if isinstance(n_, ast.Return) and n_.value is not None]:
        pol = [p_ for t_, p_ in _gchain(sub, r_, canonical=True) if t_ == f"isinstance({opar}, int)"]
        if pol == [True]:
            try:
                int_arm = dekad_arg(r_.value)
            except AnalysisError:
                int_arm = None
        elif pol == [False]:
            dek_ret = r_.value
    ok1 = ok2 = False
    if int_arm is not None and dek_ret is not None and "__add__" in adds:
        subi = Normaliser({opar: Nn}).norm(_subst_attr(int_arm, "self", "_dkd", "A"))
        subd = Normaliser().norm(_subst_attr(_subst_attr(dek_ret, "self", "_dkd", "A"), opar, "_dkd", "B"))
        A = adds["__add__"]
        # (d + n) - n == d
        r1 = _subst_atom(subi, "A", A)
        ok1 = r1.equals(V)
        # (d + n) - d == n
        r2 = _subst_atom(_subst_atom(subd, "A", A), "B", V)
        ok2 = r2.equals(Nn)
    ob("R-FORMULA", "__sub__", "(d + n) - n == d", ok1, "translation identity fails on the raw-value expressions", sub.name)
    ob("R-FORMULA", "__sub__", "(d + n) - d == n", ok2, "translation identity fails on the raw-value expressions", sub.name + " ")

    # ---- accessor agreement
    am = repo.mod(ACC)
    period = am.classes().get("Period")
    dper = am.classes().get("DekadPeriod")
    if period is None or dper is None:
        raise AnalysisError(f"missing anchor: Period/DekadPeriod in {AFILE}")
    pc = [s for s in dper.body if isinstance(s, ast.Assign) and ast.unparse(s.targets[0]) == "_period_cls"]
    rep.ob("R-SIBLING(accessor)", AFILE, "DekadPeriod", "_period_cls is Dekad", bool(pc) and ast.unparse(pc[0].value) == "Dekad",
           "", pc[0] if pc else "_period_cls")
    pm = {n.name: n for n in period.body if isinstance(n, ast.FunctionDef)}
    for a in ("idx", "yidx", "ndays", "label", "start_date", "end_date", "raw"):
        if a not in pm:
            raise AnalysisError(f"missing anchor: Period.{a} in {AFILE}")
        try:
            e = single_return_any(pm[a])
        except AnalysisError:
            rep.ob("R-SIBLING(accessor)", AFILE, f"Period.{a}", f"accessor .{a} applies the scalar attribute of the same name", False,
                   f"Period.{a} is no longer the element-wise application of Dekad(x).{a}: a separate vectorised implementation can disagree with the scalar class",
                   pm[a].body[-1])
            continue
        txt = norm_stmt(e)
        inner = f"str(self._period_cls(x))" if a == "label" else f"self._period_cls(x).{a}"
        want = f"self._tseries.apply(lambda x: {inner}).to_xarray()"
        rep.ob("R-SIBLING(accessor)", AFILE, f"Period.{a}", f"accessor .{a} applies the scalar attribute of the same name",
               txt == want, f"code = {txt}", pm[a].body[-1])
    if "linspace" in pm:
        e = single_return_any(pm["linspace"])
        rep.ob("R-SIBLING(accessor)", AFILE, "Period.linspace", "linspace = yidx - 1",
               Normaliser().norm(e).equals(Normaliser().norm(parse_expr("self.yidx - 1"))), ast.unparse(e), pm["linspace"].body[-1])
    ts = single_return_any(pm["_tseries"]) if "_tseries" in pm else None
    rep.ob("R-SIBLING(accessor)", AFILE, "Period._tseries", "series is the time coordinate", ts is not None and
           norm_stmt(ts) == "self._obj.time.to_series()", "", pm["_tseries"].body[-1] if "_tseries" in pm else "_tseries")
    base = am.classes().get("AccessorTimeBase")
    if base is not None:
        bm = {n.name: n for n in base.body if isinstance(n, ast.FunctionDef)}
        for a in ("year", "month"):
            if a in bm:
                e = single_return_any(bm[a])
                rep.ob("R-SIBLING(accessor)", AFILE, f"AccessorTimeBase.{a}", f".{a} comes from time.dt.{a}",
                       norm_stmt(e) == f"self._obj.time.dt.{a}", norm_stmt(e), bm[a].body[-1])

    from ..rules import r_stateless
    r_stateless(rep, repo, [('Period', 'idx'), ('Period', 'yidx'), ('Period', 'ndays'), ('Period', 'label'), ('Period', 'start_date'), ('Period', 'end_date'), ('Period', 'raw')])
    rep.floor("C11 obligations", len(rep.obls), 45)
    return rep


def single_return_any(fn: ast.FunctionDef) -> ast.expr:
    b = [s for s in body_wo_doc(fn) if not (isinstance(s, ast.Expr) and isinstance(s.value, ast.Call) and ast.unparse(s.value.func) == "warn")]
    if len(b) != 1 or not isinstance(b[0], ast.Return):
        raise AnalysisError(f"unsupported construct: {AFILE}:{fn.lineno} {fn.name} is not a single return expression")
    return b[0].value


class _SubAttr(ast.NodeTransformer):
    def __init__(self, obj, attr, new):
        self.obj, self.attr, self.new = obj, attr, new

    def visit_Attribute(self, node):
        if node.attr == self.attr and isinstance(node.value, ast.Name) and node.value.id == self.obj:
            return ast.copy_location(ast.Name(id=self.new, ctx=ast.Load()), node)
        return self.generic_visit(node)


def _subst_attr(e, obj, attr, new):
    import copy
    return _SubAttr(obj, attr, new).visit(copy.deepcopy(e))


def _subst_atom(r: Rat, atom: str, val: Rat) -> Rat:
    """Substitute a polynomial atom by a rational (atoms here are degree <= 2 scalars)."""
    from ..poly import Poly

    def sub_poly(p: Poly) -> Rat:
        acc = Rat.const(0)
        for mono, c in p.t.items():
            term = Rat.const(c)
            for a, e in mono:
                base = val if a == atom else Rat.atom(a)
                for _ in range(e):
                    term = term * base
            acc = acc + term
        return acc

    return sub_poly(r.n) / sub_poly(r.d)

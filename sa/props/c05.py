"""C05 — GCV selection is optimal on the grid; robust mode never degenerates (structural clauses)."""
from __future__ import annotations

import ast
import re
from typing import Dict, List, Optional

from ..core import AnalysisError, Report, Repo, norm_stmt
from ..poly import Normaliser, Rat, Unsupported, desqrt, parse_expr
from ..rules import divguard, r_bind
from ..sites import load_sites
from .c03 import check_irls, check_round
from .smooth_common import Smoother, load_family

AFILE = "hdc/algo/accessors.py"
COPIES = ["ws2dwcv", "ws2dwcvp", "_ws2dwcvp"]


def R(s, env=None) -> Rat:
    return desqrt(Normaliser(env or {}).norm(parse_expr(s)))


def gcv_block(rep: Report, s: Smoother):
    sc = s.sc
    f, fn = s.file, s.name
    y, w = s.mask["series"], s.mask["name"]
    p = "p" if "p" in s.k.params else None
    llas = "llas"

    def ob(rule, role, ok, detail="", stmt=None, kind=""):
        rep.ob(rule, f, fn, role, ok, detail, stmt if stmt is not None else f"{fn}: {role}", kind=kind)

    def arr(name):
        return sc.arrays_assigned.get(name, [])

    # ---- 0. the series the lambda is optimal for is the caller's: the kernel does not rewrite it
    from ..rules import input_writes
    iw = input_writes(s.k)
    ob("R-READONLY", "the series is not modified in place (a second call on the same array would select lambda for a different series)", not iw,
       f"`{norm_stmt(iw[0])}` stores into the input" if iw else "", iw[0] if iw else None)
    # ---- 1. candidates
    lr = arr("lambda_range")
    keys = sorted(a[0].key() for a in lr)
    ok = keys == sorted([f"pow[10;{llas}]", "array[tuple[robust_gcv[1][1]]]"])
    ob("R-FORMULA", "candidate lambdas are 10**srange, or the lambda already selected in the previous robust pass", ok, f"lambda_range definitions {keys}",
       lr[0][1] if lr else "lambda_range")
    sweep = [sv for sv in s.solves if sv.lam == "elem[lambda_range]"]
    rest = [sv for sv in s.solves if sv not in sweep]
    ob("R-FORMULA", "the sweep solves once per candidate with the current robust weights", len(sweep) == 1 and sweep[0].args[0] == y and sweep[0].args[2] == "w_temp",
       f"sweep solves {[sv.args for sv in sweep]}", sweep[0].stmt if sweep else "z = ws2d(y, s, w_temp)")
    wt = arr("w_temp")
    ob("R-MASK", "sweep weight = validity mask x robust weight", len(wt) == 1 and wt[0][0].equals(Rat.atom(w) * Rat.atom("r_weights")),
       f"w_temp = {[a[0].key() for a in wt]}", wt[0][1] if wt else "w_temp")
    if not sweep:
        return
    z = sweep[0].target
    # ---- 2. score formula
    sdefs = {d.name: d for nm, ds in sc.scalars.items() for d in ds if d.region is sweep[0].region}
    g = [a for a in arr("gamma") if "elem[lambda_range]" in a[0].key()]
    eig = arr("d_eigs")
    ok_eig = len(eig) == 1 and eig[0][0].equals(R(f"-2 + 2*cos(arange(len0[{y}]) * np.pi / len0[{y}])"))
    ob("R-FORMULA", "eigenvalues of the difference penalty: -2 + 2 cos(k pi / m)", ok_eig, f"d_eigs = {[a[0].key() for a in eig]}", eig[0][1] if eig else "d_eigs")
    ok_g = len(g) == 1 and g[0][0].equals(R("w_temp / (w_temp + elem_lr * d_eigs**2)", {"elem_lr": Rat.atom("elem[lambda_range]")}))
    ob("R-FORMULA", "leverage approximation gamma = w / (w + lambda * eig^2)", ok_g, f"gamma = {[a[0].key() for a in g]}", g[0][1] if g else "gamma")
    score = sdefs.get("gcv_score")
    ref = R(f"sum(w_temp * ({y} - {z})**2) / (sum(w_temp) * (1 - sum(gamma)/sum(w_temp))**2)")
    ok_s = score is not None and desqrt(score.rhs).equals(ref)
    ob("R-FORMULA", "GCV score = weighted SSE / (n (1 - trH/n)^2) with n = sum of weights and trH = sum(gamma)", ok_s,
       f"code = {desqrt(score.rhs).key() if score else None} ; required {ref.key()}", score.stmt if score else "gcv_score", kind="normal-form equality")
    # ---- arg-min: score, lambda and curve updated together
    upd = [d for d in sc.scalars.get("gcv_temp", []) if d.region is sweep[0].region]
    yt = [a for a in arr("y_temp")]
    okm = False
    det = f"gcv_temp updates {[(d.rhs.key()[:60], d.guards[-1][:80]) for d in upd]}; y_temp {[(a[0].key(), a[2][-1][:80]) for a in yt]}"
    if len(upd) == 1 and len(yt) == 1:
        gd = upd[0].guards[-1]
        from ..poly import cmp_key
        best = Rat.atom("gcv_temp[0]")
        cands = [Rat.atom("gcv[0]")] + ([score.rhs, Rat.atom(f"tuple[{score.rhs.key()};elem[lambda_range]][0]")] if score is not None else [])
        accepted = {cmp_key(op, c_, best) for c_ in cands for op in (ast.Lt(), ast.LtE())}
        gdef = [d for d in sc.scalars.get("gcv", []) if d.region is sweep[0].region]
        gcv_is_pair = (not gdef) or (len(gdef) == 1 and gdef[0].rhs.key().startswith("tuple[") and gdef[0].rhs.key().endswith(";elem[lambda_range]]")
                                     and score is not None and gdef[0].rhs.key() == f"tuple[{score.rhs.key()};elem[lambda_range]]")
        okm = gd in accepted and gcv_is_pair and yt[0][2][-1] == gd and yt[0][0].key() == z \
            and upd[0].rhs.key().startswith("tuple[") and upd[0].rhs.key().endswith(";elem[lambda_range]]")
    ob("R-ARGMIN", "the best score, its lambda and its curve are updated together under `score < best`", okm, det, upd[0].stmt if upd else "arg-min update")
    leave = [e for e in sc.exits if e.kind in ("break", "continue", "return") and e.region is sweep[0].region]
    ob("R-ARGMIN", "every candidate lambda is scored (no early exit from the sweep)", not leave,
       f"`{norm_stmt(leave[0].stmt)}` under {list(leave[0].guards)[-1:]} leaves the sweep before all candidates are scored: a GCV curve with a hump hides the grid minimum" if leave else "",
       leave[0].stmt if leave else f"{fn}: exits of the sweep loop")
    init = [d for d in sc.scalars.get("gcv_temp", []) if d.region.kind == "line"]
    ob("R-ARGMIN", "the running best starts above every finite score", len(init) == 1 and init[0].rhs.key() == "tuple[1000000000000000;0]",
       f"{[d.rhs.key() for d in init]}", init[0].stmt if init else "gcv_temp = [1e15, 0]")
    app = [c for c in sc.calls if c.func == "append" and c.args and c.args[-1] == "gcv_temp"]
    ob("R-FORMULA", "each robust pass records its best (score, lambda)", len(app) == 1, f"append calls {[c.args for c in sc.calls if c.func == 'append']}",
       app[0].stmt if app else "robust_gcv.append(best_gcv)")
    # ---- reported lambda
    outs = s.k.outputs
    if outs:
        lst = [x for x in sc.stores if x.arr == outs[-1] and x.idx_key == "0" and x.rhs.const_value() is None]
        vals = {tuple(x.guards)[-1]: x.rhs.key() for x in lst}
        ok_l = vals == {"robust": "robust_gcv[1,1]", "not[robust]": "robust_gcv[0,1]"}
        ob("R-FORMULA", "reported lambda: second recorded pass when robust, first otherwise (always a grid value)", ok_l, f"stores {vals}", lst[0].stmt if lst else "lopt[0] = ...")
        lam = f"{outs[-1]}[0]"
    else:
        ld = sc.scalars.get("lopt", [])
        vals = {d.guards[-1]: d.rhs.key() for d in ld if d.guards}
        ob("R-FORMULA", "reported lambda: second recorded pass when robust, first otherwise (always a grid value)",
           vals == {"robust": "robust_gcv[1,1]", "not[robust]": "robust_gcv[0,1]"}, f"{vals}", ld[0].stmt if ld else "lopt = ...")
        lam = "lopt"
    its = {d.guards[-1]: d.rhs.key() for d in sc.scalars.get("r_its", []) if d.guards}
    ob("R-FORMULA", "one pass without robust weighting, four with", its == {"robust": "4", "not[robust]": "1"}, f"{its}", "r_its")
    # ---- 3. band
    rw = arr("robust_weights")
    ob("R-MASK", "band weight = validity mask x robust weight", len(rw) == 1 and rw[0][0].equals(Rat.atom(w) * Rat.atom("r_weights")),
       f"robust_weights = {[a[0].key() for a in rw]}", rw[0][1] if rw else "robust_weights")
    cnt = s.mask["count"]
    guard = [f"lt0[-1*{cnt} + 4]"] if cnt else []
    if p is None:
        fin = [sv for sv in rest]
        ok = len(fin) == 1 and fin[0].args == [y, lam, "robust_weights"]
        ob("R-SIBLING(final-solve)", "the band is the fixed-lambda solve at the reported lambda with mask x robust weights", ok, f"{[sv.args for sv in fin]}",
           fin[0].stmt if fin else "final solve")
        if fin:
            check_round(rep, s, fin[0].target, guard)
    else:
        blocks = s.irls
        if len(blocks) != 1:
            ob("R-IRLS", "one reweighting block produces the band", False, f"{len(blocks)} blocks", "IRLS")
        else:
            fin = check_irls(rep, s, blocks[0], p, "band at the reported lambda", want_start=("reset", "zeros"), lam=lam)
            ob("R-MASK", "asymmetric weights multiply the masked robust weights", "robust_weights" in blocks[0].weight_factors and w in blocks[0].weight_factors,
               f"factors {sorted(blocks[0].weight_factors)}", f"weight of {norm_stmt(blocks[0].solve.stmt)}")
            if fin is not None and outs:
                check_round(rep, s, fin.target, guard)
    # ---- 5. residuals of valid cells only
    rs = arr("r_sel")
    oksel = len(rs) == 1 and re.fullmatch(r"r_arr\[and\[(.*)\]\]", rs[0][0].key()) is not None and f"ne0[{w}]" in rs[0][0].key()
    if oksel:
        # ... and of cells the previous pass did not reject: exactly `valid and robust weight != 0` (any other selection - e.g. the rejected
        # cells only - makes the scale meaningless or empty, and the robust passes silently stop re-weighting)
        inner_sel = sorted(re.fullmatch(r"r_arr\[and\[(.*)\]\]", rs[0][0].key()).group(1).split(";"))
        oksel = inner_sel == sorted([f"ne0[{w}]", "ne0[r_weights]"])
    if not rs:
        # selection written inline in the median
        mads = [d for d in sc.scalars.get("mad", [])]
        oksel = bool(mads) and f"ne0[{w}]" in mads[0].rhs.key()
    ob("R-MASK", "the robust scale is taken over residuals of valid cells only (selection contains the validity mask)", oksel,
       f"selection = {[a[0].key() for a in rs] or [d.rhs.key()[:120] for d in sc.scalars.get('mad', [])]}", rs[0][1] if rs else "residual selection")
    ra = arr("r_arr")
    ob("R-FORMULA", "residuals are y - best curve", len(ra) == 1 and ra[0][0].equals(Rat.atom(y) - Rat.atom("y_temp")), f"{[a[0].key() for a in ra]}",
       ra[0][1] if ra else "r_arr")
    mad = sc.scalars.get("mad", [])
    okmad = len(mad) == 1 and mad[0].rhs.key() in ("median[abs[-1*median[r_sel] + r_sel]]",)
    ob("R-FORMULA", "scale = median absolute deviation of the selected residuals", okmad, f"{[d.rhs.key()[:100] for d in mad]}", mad[0].stmt if mad else "mad")
    ua = arr("u_arr")
    n_expr = cnt if cnt else "sum[w]"
    refu = None
    try:
        refu = R("r_arr / (1.4826 * MAD * sqrt(1 - sum(gamma)/NN))", {"MAD": Rat.atom("median[abs[-1*median[r_sel] + r_sel]]"), "NN": Rat.atom(n_expr)})
    except Unsupported:
        pass
    oku = len(ua) == 1 and refu is not None and desqrt(ua[0][0] * ua[0][0]).equals(desqrt(refu * refu))
    ob("R-FORMULA", "studentised residual u = r / (1.4826 MAD sqrt(1 - h))", oku, f"u_arr = {[a[0].key()[:160] for a in ua]}", ua[0][1] if ua else "u_arr")
    # the leverage used for the studentisation is the same approximation, evaluated at the lambda selected in this pass
    g2 = [a for a in arr("gamma") if "elem[lambda_range]" not in a[0].key()]
    okg2 = len(g2) == 1 and any(g2[0][0].equals(R("w_temp / (w_temp + LB * d_eigs**2)", {"LB": Rat.atom(lb)})) for lb in ("gcv_temp[1]", "best_gcv[1]"))
    ob("R-FORMULA", "robust pass: leverage h = w / (w + lambda_best * eig^2) at the lambda selected in this pass", okg2,
       f"gamma (robust pass) = {[a[0].key() for a in g2]}", g2[0][1] if g2 else "gamma (robust pass)")
    rwd = [a for a in arr("r_weights") if not a[0].key().startswith("ones[")]
    okb = len(rwd) == 1 and rwd[0][0].equals(R("(1 - (u_arr/4.685)**2)**2"))
    ob("R-FORMULA", "bisquare weights (1 - (u/4.685)^2)^2", okb, f"{[a[0].key() for a in rwd]}", rwd[0][1] if rwd else "r_weights")
    zero = [x for x in sc.stores if x.arr == "r_weights" and x.rhs.const_value() == 0]
    one = [x for x in sc.stores if x.arr == "r_weights" and x.rhs.const_value() == 1]
    ob("R-FORMULA", "weights vanish beyond |u| > 4.685 and positive residuals keep full weight (upper envelope)",
       len(zero) == 1 and zero[0].idx_key == "lt0[-1*abs[200/937*u_arr] + 1]" and len(one) == 1 and one[0].idx_key == "gt0[r_arr]" and one[0].seq > zero[0].seq,
       f"zero: {[x.idx_key for x in zero]}, one: {[x.idx_key for x in one]}", zero[0].stmt if zero else "r_weights[...] = 0")
    r0 = [a for a in arr("r_weights") if a[0].key().startswith("ones[")]
    ob("R-FORMULA", "robust weights start at 1", len(r0) == 1, f"{[a[0].key() for a in arr('r_weights')]}", r0[0][1] if r0 else "r_weights = ones")


def run(repo: Repo, tier: str) -> Report:
    rep = Report("C05")
    rep.decided = [
        "candidates derive from 10**srange; score formula; arg-min with score, lambda and curve updated together",
        "band = fixed-lambda smoother (asymmetric when p is given) at the reported lambda with weights mask x robust weights, rounded half-even",
        "the robust scale (MAD) is guarded against 0 before it divides the residuals (R-DIVGUARD, three copies)",
        "the robust scale is computed from residuals of valid cells only; bisquare weight formulas",
        "accessor: default srange on both arms, robust default, binding, sgrid expression",
    ]
    rep.declined = ["numerical optimality of the selected lambda", "finiteness of the curve beyond the MAD guard (a tiny non-zero MAD can still collapse the weights: numerical)"]
    rep.trusted = ["CPython ast", "np.median/np.sum semantics", "C03 reference descriptors"]
    kernels, fam = load_family(repo, COPIES)
    rep.analysed = {"copies": COPIES}
    for n in COPIES:
        if fam[n].mask is None:
            raise AnalysisError(f"missing anchor: validity mask of {n}")
        gcv_block(rep, fam[n])
    # pass-through
    for n in ("ws2dwcv", "ws2dwcvp"):
        s = fam[n]
        cnt = s.mask["count"]
        pt = s.passthrough()
        zero = [x for x in s.sc.stores if x.arr == s.k.outputs[-1] and x.idx_key == "0" and x.rhs.const_value() == 0]
        ok = len(pt) == 1 and list(pt[0].guards) == [f"ge0[-1*{cnt} + 4]"] and len(zero) == 1 and list(zero[0].guards) == [f"ge0[-1*{cnt} + 4]"]
        rep.ob("R-FORMULA", s.file, n, "fewer than 5 valid cells: input unchanged and reported lambda 0", ok,
               f"{[(norm_stmt(x.stmt), list(x.guards)) for x in pt + zero]}", pt[0].stmt if pt else "out[:] = y[:]")
    # ---- 5b. R-TAINT (shared with C02): the scores, the robust weights and with them the selected lambda are functions of the valid cells
    # only - a NaN placeholder that reaches `wsse` or the residuals makes every score NaN, so that no grid value is ever selected
    from .c02 import taint_rule
    taint_rule(rep, fam, ["ws2dwcv", "ws2dwcvp"], ["_ws2dwcvp"])
    rep.floor("R-TAINT sinks (GCV copies)", sum(1 for o in rep.obls if o.rule == "R-TAINT"), 6)
    # ---- 4. R-DIVGUARD (scale flavour)
    divs = divguard(rep, repo, kernels, COPIES, flavours=("scale",))
    n_scale = sum(1 for d in divs if d.flavour == "scale")
    rep.floor("robust-scale divisions", n_scale, 3)
    # the unrooted private helper is still obliged for the scale guard (it is a sibling copy)
    for d in divs:
        if d.flavour == "scale" and d.function == "_ws2dwcvp":
            rep.ob("R-DIVGUARD", "hdc/algo/ops/ws2dwcvp.py", "_ws2dwcvp", "robust scale is guarded (sibling copy)", d.ok,
                   "; ".join(f"{f_[0][:50]}: {f_[1]}" for f_ in d.factors), d.stmt, line=d.line)
    # ---- accessor
    m = repo.method("hdc.algo.accessors", "WhittakerSmoother", "whitswcv")
    dflt = [st for st in ast.walk(m) if isinstance(st, ast.Assign) and ast.unparse(st.targets[0]) == "srange"]
    vals = []
    for st in dflt:
        c = st.value
        if isinstance(c, ast.Call) and ast.unparse(c.func) == "np.arange":
            vals.append(tuple(Normaliser().norm(a).const_value() for a in c.args))
    from fractions import Fraction
    want = (Fraction("-1.8"), Fraction("4.2"), Fraction("0.2"))
    # every kernel site is reached with that default when srange is None: one shared default before the dispatch, or one per arm
    from ..rules import guard_chain
    site_calls = [s_.call for s_ in load_sites(repo, kernels) if s_.where() == "WhittakerSmoother.whitswcv"]
    covered = []
    for sc_ in site_calls:
        cs = guard_chain(m, sc_)
        hit = False
        for st in dflt:
            cd = guard_chain(m, st)
            if cd and cd[-1] == ("srange is None", True) and cd[:-1] == cs[:len(cd) - 1] and st.lineno < sc_.lineno:
                hit = True
        covered.append(hit)
    rep.ob("R-SIBLING(default-grid)", AFILE, "WhittakerSmoother.whitswcv", "default srange is arange(-1.8, 4.2, 0.2) on both arms",
           bool(vals) and len(vals) == len(dflt) and all(v == want for v in vals) and len(covered) == 2 and all(covered),
           f"defaults {[tuple(str(x) for x in v) for v in vals]}; sites reached with a default: {covered}", dflt[0] if dflt else "srange default")
    rd = m.args.defaults
    names = [a.arg for a in m.args.args]
    dmap = dict(zip(names[-len(rd):], rd))
    rep.ob("R-FORMULA", AFILE, "WhittakerSmoother.whitswcv", "robust weighting is on by default", "robust" in dmap and ast.unparse(dmap["robust"]) == "True",
           f"{ {k: ast.unparse(v) for k, v in dmap.items()} }", "robust=True")
    sites = {s.kernel: s for s in load_sites(repo, kernels) if s.where() == "WhittakerSmoother.whitswcv"}
    want_args = {"ws2dwcvp": ["self._obj", "nodata", "p", "srange", "robust"], "ws2dwcv": ["self._obj", "nodata", "srange", "robust"]}
    for k_, wa in want_args.items():
        if k_ not in sites:
            raise AnalysisError(f"missing anchor: whitswcv site of {k_}")
        r_bind(rep, sites[k_], kernels[k_])
        rep.ob("R-BIND", AFILE, sites[k_].where(), f"{k_} receives {wa}", [ast.unparse(a) for a in sites[k_].args] == wa,
               f"{[ast.unparse(a) for a in sites[k_].args]}", f"{k_} args", line=sites[k_].line)
    from ..cfg import CFG
    cfg_m = CFG(m)

    def site_guards(site):
        for n in cfg_m.stmt_nodes():
            if n.kind == "stmt" and any(c is site.call for c in ast.walk(n.stmt)):
                return sorted((norm_stmt(g.stmt.test), arm) for g, arm in cfg_m.guards_of(n)
                              if not (g.stmt.body and isinstance(g.stmt.body[-1], ast.Raise)))   # validation guards are not selection
        return None
    sel = {k_: site_guards(sites[k_]) for k_ in want_args}
    ok_sel = sel["ws2dwcvp"] in ([("p", True)], [("p is not None", True)]) and sel["ws2dwcv"] in ([("p", False)], [("p is not None", False)])
    rep.ob("R-FORMULA", AFILE, "WhittakerSmoother.whitswcv", "kernel selection: any p given -> asymmetric GCV kernel; no p -> symmetric GCV kernel", ok_sel,
           f"sites run under {sel}", "whitswcv: kernel selection")
    sg = [st for st in ast.walk(m) if isinstance(st, ast.Assign) and ast.unparse(st.targets[0]) == "ds_out['sgrid']"]
    rep.ob("R-FORMULA", AFILE, "WhittakerSmoother.whitswcv", "sgrid = log10(reported lambda) stored as float32", len(sg) == 1 and
           norm_stmt(sg[0].value) == "np.log10(sgrid).astype('float32')", f"{[norm_stmt(s_) for s_ in sg]}", sg[0] if sg else "sgrid")
    from ..rules import r_truthy
    r_truthy(rep, repo, "WhittakerSmoother", "whitswcv", ["nodata"], "0 is a legitimate nodata value (it is the one the test-suite uses); a truth test silently replaces or drops it")
    from ..rules import r_stateless
    r_stateless(rep, repo, [('WhittakerSmoother', 'whitswcv')])
    from ..rules import ws2d_straight
    ws2d_straight(rep, repo)
    rep.floor("C05 obligations", len(rep.obls), 70)
    return rep

"""C16 — zonal mean is the exact mean and count of valid pixels per zone.

Decided: membership predicate and accumulation descriptor (who contributes what to
which slot), accumulator width from Numba's typed IR (R-ACC: 64-bit whatever the output
dtype), per-time-step reset (R-LOOPCARRY), finalisation (mean = sum/count under
count > 0 else NaN; count stored), accessor binding and dask shape agreement.
"""
from __future__ import annotations

import ast
from typing import Dict, List

from ..cfg import enclosing_loops
from ..core import AnalysisError, Report, Repo, norm_stmt
from ..divs import DivAnalysis, guard_atoms
from ..kernels import load_kernels, kernel
from ..poly import Normaliser, Rat, Unsupported, cmp_key, parse_expr
from ..rules import array_params_of, divguard
from ..sites import load_sites
from ..typedir import typed_facts

FILE = "hdc/algo/ops/zonal.py"
AFILE = "hdc/algo/accessors.py"
WIDE = {"float64", "int64", "uint64"}


def run(repo: Repo, tier: str) -> Report:
    rep = Report("C16")
    rep.decided = [
        "a pixel contributes iff value != nodata and zone != zone-nodata; it adds its value to the sum slot and 1 to the count slot of its own zone",
        "sum and count accumulators are 64-bit for every entry signature, whatever out_dtype is (R-ACC, typed IR)",
        "accumulators are reset for each time step (R-LOOPCARRY); mean = sum/count under count > 0, else NaN; count is stored (R-DIVGUARD)",
        "accessor: NaN -> nodata substitution before the kernel, argument binding, dims/coords, dask chunks agree with the allocated shape",
    ]
    rep.declined = ["floating-point rearrangement invariance beyond accumulator width (float64 accumulation error << float32 output precision is a numerical argument)"]
    rep.trusted = ["CPython ast", "Numba type inference (numba from /venv)", "dask map_blocks drop_axis/new_axis/chunks contract"]
    kernels = load_kernels(repo)
    k = kernel(kernels, "do_mean")
    fn = k.node
    P = k.params
    if len(P) < 6:
        raise AnalysisError("missing anchor: do_mean(pixels, z_pixels, num_zones, nodata, z_nodata, out_dtype)")
    pixels, zpix, nz, nodata, znodata, odt = P[:6]
    da = DivAnalysis(fn, FILE, array_params_of(k))
    loops = enclosing_loops(fn)

    def ob(rule, role, ok, detail="", stmt=None, kind="", line=0):
        rep.ob(rule, FILE, "do_mean", role, ok, detail, stmt if stmt is not None else role, kind=kind, line=line)

    # ---- accumulation statements: += inside >= 3 nested loops
    accs = []
    for node in da.cfg.stmt_nodes():
        st = node.stmt
        if node.kind == "stmt" and isinstance(st, ast.AugAssign) and isinstance(st.op, ast.Add) and len(loops.get(id(st), [])) >= 3:
            accs.append(node)
    rep.floor("per-pixel accumulation statements", len(accs), 2)

    sum_acc = cnt_acc = None
    for node in accs:
        st = node.stmt
        lp = loops[id(st)]
        lv = [l.target.id for l in lp[:3] if isinstance(l, ast.For) and isinstance(l.target, ast.Name)]
        if len(lv) != 3:
            raise AnalysisError(f"unsupported construct: pixel loops of do_mean are not three `for v in range` loops ({FILE}:{st.lineno})")
        t, r, c = lv
        want_pix = Normaliser().norm(parse_expr(f"{pixels}[{t},{r},{c}]"))
        want_z = Normaliser().norm(parse_expr(f"{zpix}[{r},{c}]"))
        val = da.resolve(st.value, node)
        tgt = st.target
        if not isinstance(tgt, ast.Subscript):
            ob("R-ACC", "accumulator is an array slot indexed by zone", False, "scalar accumulator shared between zones", st)
            continue
        idx_parts = tgt.slice.elts if isinstance(tgt.slice, ast.Tuple) else [tgt.slice]
        idx_keys = [da.resolve(p, node).key() for p in idx_parts]
        has_zone = want_z.key() in idx_keys
        atoms = guard_atoms(da, node)
        need = [cmp_key(ast.NotEq(), want_pix, Rat.atom(nodata)), cmp_key(ast.NotEq(), want_z, Rat.atom(znodata))]
        is_sum = val.equals(want_pix)
        is_cnt = val.equals(Rat.const(1))
        role = "sum" if is_sum else ("count" if is_cnt else "?")
        ob("R-FORMULA", f"{role} accumulator adds {'the pixel value' if is_sum else '1'} for the pixel's own zone",
           (is_sum or is_cnt) and has_zone,
           f"addend = {val.key()}, slot index = {idx_keys}; expected addend {want_pix.key()} or 1 and index containing {want_z.key()}", st)
        missing = [n for n in need if n not in atoms]
        surplus = [a for a in atoms if a not in need]
        ob("R-FORMULA", f"{role} accumulator runs under exactly `value != nodata and zone != zone_nodata`", not missing and not surplus,
           f"guards at the statement: {atoms}; required exactly {need}", f"guard of {norm_stmt(st)}")
        if is_sum:
            sum_acc = (node, tgt)
        if is_cnt:
            cnt_acc = (node, tgt)
    if sum_acc is None or cnt_acc is None:
        ob("R-FORMULA", "both a sum and a count accumulator exist", False, "could not identify the sum and the count accumulation")
        return rep

    from ..rules import no_early_exit
    from ..symb import StoreCollector
    no_early_exit(rep, StoreCollector(fn, FILE, loop_atoms_by_name=True, strict=False).run(), FILE, "do_mean", "time / pixel / zone loops")
    # ---- R-ACC: typed widths
    facts = [f for f in typed_facts(repo.root, ["do_mean"]) if f["kernel"] == "do_mean"]
    rep.floor("typed do_mean entry signatures", len([f for f in facts if f["ok"]]), 3)
    acc_lines = {n.stmt.lineno: ("sum" if n is sum_acc[0] else "count") for n in (sum_acc[0], cnt_acc[0])}
    for f in facts:
        if not f["ok"]:
            ob("NB-TYPES", f"entry signature {f['args']} types", False, f["error"][:200], f"do_mean{tuple(f['args'])}")
            continue
        seen = set()
        for b in f["inplace"]:
            if b["line"] in acc_lines and b["fn"] == "iadd":
                role = acc_lines[b["line"]]
                seen.add(role)
                ok = b["lhs"] in WIDE and b["result"] in WIDE
                ob("R-ACC", f"{role} accumulator is 64-bit for out_dtype={f['args'][5]} / pixels {f['args'][0]}", ok,
                   f"accumulator typed {b['lhs']} (+= {b['rhs']} -> {b['result']}): a float32 sum loses precision and a float32 count stops at 2**24",
                   f"{role}: {norm_stmt((sum_acc if role == 'sum' else cnt_acc)[0].stmt)} @ ({', '.join(f['args'])})", line=b["line"])
        for role in ("sum", "count"):
            if role not in seen:
                ob("R-ACC", f"{role} accumulator found in typed IR", False, "no typed in-place add at the accumulation line",
                   f"{role} @ {f['args']}")

    # ---- R-LOOPCARRY: accumulators reset per time step (or allocated inside the time loop)
    tloop = loops[id(sum_acc[0].stmt)][0]
    for role, (node, tgt) in (("sum", sum_acc), ("count", cnt_acc)):
        base = tgt.value.id if isinstance(tgt.value, ast.Name) else None
        per_t = any(isinstance(p, ast.Name) and p.id == tloop.target.id for p in
                    (tgt.slice.elts if isinstance(tgt.slice, ast.Tuple) else [tgt.slice]))
        reset = False
        for st in tloop.body:
            if st is loops[id(node.stmt)][1]:
                break
            if isinstance(st, ast.Assign) and isinstance(st.targets[0], ast.Subscript) and isinstance(st.targets[0].value, ast.Name) \
                    and st.targets[0].value.id == base and isinstance(st.targets[0].slice, ast.Slice) \
                    and st.targets[0].slice.lower is None and st.targets[0].slice.upper is None \
                    and isinstance(st.value, ast.Constant) and st.value.value == 0:
                reset = True
            if isinstance(st, ast.Assign) and isinstance(st.targets[0], ast.Name) and st.targets[0].id == base \
                    and isinstance(st.value, ast.Call) and ast.unparse(st.value.func).split(".")[-1] == "zeros":
                reset = True
        ob("R-LOOPCARRY", f"{role} accumulator starts from zero at every time step", per_t or reset,
           f"`{base}` is neither indexed by the time-step variable nor zeroed at the top of the time loop: time step t+1 would include step t",
           f"{role}: reset of {base}")

    # ---- finalisation
    fin = []
    for node in da.cfg.stmt_nodes():
        st = node.stmt
        if node.kind == "stmt" and isinstance(st, ast.Assign) and isinstance(st.targets[0], ast.Subscript) \
                and isinstance(st.targets[0].slice, ast.Tuple) and len(st.targets[0].slice.elts) == 3:
            fin.append(node)
    sbase = sum_acc[1].value.id
    cbase = cnt_acc[1].value.id
    got = {"mean": None, "nan": None, "count": None}
    for node in fin:
        st = node.stmt
        lp = [l for l in loops[id(st)] if isinstance(l, ast.For)]
        if len(lp) != 2 or lp[0] is not tloop:
            continue
        zi = lp[1].target.id
        t = tloop.target.id
        sl = [da.resolve(p, node).key() for p in st.targets[0].slice.elts]
        val = da.resolve(st.value, node)
        atoms = guard_atoms(da, node)
        S = Normaliser().norm(parse_expr(f"{sbase}[{zi}]" if sum_acc[1] is not None and not isinstance(sum_acc[1].slice, ast.Tuple)
                                         else ast.unparse(sum_acc[1]).replace(ast.unparse(sum_acc[1].slice), f"{t}, {zi}, 0")))
        if not isinstance(cnt_acc[1].slice, ast.Tuple):
            C = Normaliser().norm(parse_expr(f"{cbase}[{zi}]"))
        else:
            C = Normaliser().norm(parse_expr(f"{cbase}[{t}, {zi}, 1]"))
        pos = cmp_key(ast.Gt(), C, Rat.const(0))
        if sl[:2] == [t, zi] and sl[2] == "0":
            if val.key() in ("np.nan", "nan", "numpy.nan"):
                got["nan"] = (node, atoms, pos)
            else:
                got["mean"] = (node, val, S, C, atoms, pos)
        elif sl[:2] == [t, zi] and sl[2] == "1":
            got["count"] = (node, val, C, atoms)
        rng = lp[1].iter
        rk = da.resolve(rng.args[0], node).key() if isinstance(rng, ast.Call) and len(rng.args) == 1 else None
    if got["mean"]:
        node, val, S, C, atoms, pos = got["mean"]
        ob("R-FORMULA", "mean = sum / count", val.equals(S / C), f"stored value {val.key()}, expected {(S / C).key()}", node.stmt)
        ob("R-DIVGUARD", "the mean is computed only under count > 0", pos in atoms, f"guards: {atoms}; required {pos}",
           f"guard of {norm_stmt(node.stmt)}")
    else:
        ob("R-FORMULA", "mean = sum / count", False, "no store of the mean into result[t, zone, 0] found", "mean store")
    if got["nan"]:
        node, atoms, pos = got["nan"]
        from ..divs import negate_key
        ob("R-FORMULA", "a zone without valid pixels yields NaN", negate_key(pos) in atoms,
           f"NaN is stored under {atoms}; required exactly the complement of {pos}", node.stmt)
    else:
        ob("R-FORMULA", "a zone without valid pixels yields NaN", False, "no NaN store into result[t, zone, 0]", "nan store")
    if got["count"]:
        node, val, C, atoms = got["count"]
        ob("R-FORMULA", "the count slot receives the number of valid pixels", val.equals(C) and not atoms,
           f"stored {val.key()} under guards {atoms}", node.stmt)
    elif isinstance(cnt_acc[1].slice, ast.Tuple):
        ob("R-FORMULA", "the count slot receives the number of valid pixels", True, "count accumulated in place", cnt_acc[0].stmt)
    else:
        ob("R-FORMULA", "the count slot receives the number of valid pixels", False, "no store into result[t, zone, 1]", "count store")
    # zone loop covers every zone
    alloc = None
    for st in ast.walk(fn):
        if isinstance(st, ast.Assign) and isinstance(st.value, ast.Call) and ast.unparse(st.value.func).split(".")[-1] == "zeros" \
                and st.value.args and isinstance(st.value.args[0], ast.Tuple) and len(st.value.args[0].elts) == 3:
            alloc = st
    okalloc = False
    if alloc is not None:
        sh = [ast.unparse(e) for e in alloc.value.args[0].elts]
        kws = {kw.arg: ast.unparse(kw.value) for kw in alloc.value.keywords}
        okalloc = sh[1] == nz and sh[2] == "2" and kws.get("dtype") == odt
        rname = alloc.targets[0].id
        ob("R-FORMULA", "result is allocated (t, num_zones, 2) in the requested dtype", okalloc, f"allocation: {norm_stmt(alloc)}", alloc)
        zl = None
        for node in fin:
            lp = [l for l in loops[id(node.stmt)] if isinstance(l, ast.For)]
            if len(lp) == 2:
                zl = lp[1]
        okz = False
        if zl is not None and isinstance(zl.iter, ast.Call) and len(zl.iter.args) == 1:
            a = ast.unparse(zl.iter.args[0])
            okz = a in (nz, f"{rname}.shape[1]")
        ob("R-COVER", "finalisation covers every zone 0..num_zones-1", okz, f"zone loop: {norm_stmt(zl) if zl is not None else None}",
           zl if zl is not None else "zone loop")
    else:
        ob("R-FORMULA", "result is allocated (t, num_zones, 2) in the requested dtype", False, "allocation not found", "np.zeros((t, num_zones, 2))")

    # ---- accessor
    sites = [s for s in load_sites(repo, kernels) if s.kernel == "do_mean"]
    rep.floor("do_mean call sites", len(sites), 2)
    for s in sites:
        args = [ast.unparse(a) for a in s.args]
        okb = args == ["xx.data", "zones.data", "num_zones", "xx.nodata", "zones.nodata"] and \
            {k_: ast.unparse(v) for k_, v in s.kwargs.items()} == {"out_dtype": "dtype"}
        rep.ob("R-BIND", AFILE, s.where(), f"{s.mode} site binds (pixels, zones, num_zones, nodata, zone nodata, out_dtype=dtype)", okb,
               f"args = {args}, kwargs = {list(s.kwargs)}", s.call)
        if s.mode == "map_blocks":
            o = {k_: ast.unparse(v) for k_, v in s.opts.items()}
            from ..rules import resolve_local
            ch = ast.unparse(resolve_local(s.fn, s.opts["chunks"])) if "chunks" in s.opts else None
            okc = o.get("drop_axis") == "[1, 2]" and o.get("new_axis") == "[1, 2]" and ch == "[xx.data.chunks[0], (len(zone_ids),), (2,)]"
            rep.ob("R-BIND", AFILE, s.where(), "dask path drops y/x and creates (zones, stat) axes", okc, f"options = {o}", "map_blocks options")
    m = repo.method("hdc.algo.accessors", "ZonalStatistics", "mean")
    from ..rules import r_token
    for s in sites:
        if s.mode == "map_blocks":
            r_token(rep, repo, m, s, s.where())
    src = {norm_stmt(st): st for st in ast.walk(m) if isinstance(st, ast.Assign)}
    from ..rules import reaches_unconditionally
    sub = src.get("xx = xx.where(xx.notnull(), xx.nodata)")
    gap = reaches_unconditionally(m, sub, [s_.call for s_ in sites]) if sub is not None else "statement not found"
    rep.ob("R-FORMULA", AFILE, "ZonalStatistics.mean", "NaN pixels are replaced by nodata before the kernel, for every input (the kernel only tests != nodata)",
           gap is None, f"the substitution {gap}: NaN pixels of the inputs that skip it are summed and counted" if gap else "", sub if sub is not None else "xx = xx.where(xx.notnull(), xx.nodata)")
    for txt_ in ("num_zones = len(zone_ids)",):
        st_ = src.get(txt_)
        if st_ is not None:
            users = [s_.call for s_ in sites if any(isinstance(x, ast.Name) and x.id == txt_.split(" =")[0] for x in ast.walk(s_.call))]
            gap_ = reaches_unconditionally(m, st_, users)
            rep.ob("R-FORMULA", AFILE, "ZonalStatistics.mean", f"`{txt_.split(' =')[0]}` is defined on every path to the sites that use it", gap_ is None, f"`{txt_}` {gap_}" if gap_ else "", st_)
    rep.ob("R-FORMULA", AFILE, "ZonalStatistics.mean", "num_zones = len(zone_ids)", "num_zones = len(zone_ids)" in src, "", "num_zones = len(zone_ids)")
    rep.ob("R-FORMULA", AFILE, "ZonalStatistics.mean", "dims are (time, zones, stat) with stat = [mean, valid]",
           "dims = (xx.dims[0], dim_name, 'stat')" in src and any("'stat': ['mean', 'valid']" in k_ for k_ in src), "", "dims/coords")
    # labelling of the result: first dim and its coordinate are the input's first (time) dim, then the zone ids, then the two statistics
    from ..rules import resolve_local
    das = [n_ for n_ in ast.walk(m) if isinstance(n_, ast.Call) and ast.unparse(n_.func).endswith("DataArray")]
    okl, detl = False, "no DataArray(...) result"
    if das:
        kw_ = {k_.arg: ast.unparse(resolve_local(m, k_.value)) for k_ in das[-1].keywords if k_.arg}
        want_dims = "(xx.dims[0], dim_name, 'stat')"
        want_coords = "{(xx.dims[0], dim_name, 'stat')[0]: xx.coords[(xx.dims[0], dim_name, 'stat')[0]], dim_name: zone_ids, 'stat': ['mean', 'valid']}"
        alt_coords = "{xx.dims[0]: xx.coords[xx.dims[0]], dim_name: zone_ids, 'stat': ['mean', 'valid']}"
        okl = kw_.get("dims") == want_dims and kw_.get("coords") in (want_coords, alt_coords) and kw_.get("data") in ("data",) or False
        if not okl and kw_.get("data") not in (None, "data"):
            okl = kw_.get("dims") == want_dims and kw_.get("coords") in (want_coords, alt_coords)
        detl = f"DataArray(dims={kw_.get('dims')}, coords={kw_.get('coords')})"
    rep.ob("R-FORMULA", AFILE, "ZonalStatistics.mean", "the result is labelled (input's first dim with its coordinate, zones = zone_ids, stat = [mean, valid])", okl, detl,
           das[-1] if das else "xarray.DataArray(...)")
    from ..rules import r_stateless
    r_stateless(rep, repo, [('ZonalStatistics', 'mean')])
    rep.floor("C16 obligations", len(rep.obls), 20)
    return rep

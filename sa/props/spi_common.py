"""Shared analysis of the SPI kernels (gammastd, gammafit, brentq and the two drivers)."""
from __future__ import annotations

import ast
from typing import Dict, List, Optional

from ..core import AnalysisError, Repo
from ..kernels import Kernel, kernel, load_kernels
from ..poly import Normaliser, Rat, parse_expr
from ..symb import StoreCollector

MOD = "hdc.algo.ops.stats"
FILE = "hdc/algo/ops/stats.py"


class SPI:
    def __init__(self, repo: Repo):
        self.repo = repo
        self.kernels = load_kernels(repo)
        self.k = {n: kernel(self.kernels, n) for n in ("gammastd", "gammafit", "brentq", "gammastd_yxt", "gammastd_grp")}
        self.sc: Dict[str, StoreCollector] = {}
        for n, k in self.k.items():
            self.sc[n] = StoreCollector(k.node, FILE, loop_atoms_by_name=True, strict=False).run()
        g = self.k["gammastd"]
        if len(g.params) < 4:
            raise AnalysisError("missing anchor: gammastd(x, nodata, cal_start, cal_stop, ...)")
        self.x, self.nodata, self.cs, self.ce = g.params[:4]
        self._counters()

    def _counters(self):
        sc = self.sc["gammastd"]
        x, nd = self.x, self.nodata
        self.zero = self.valid = None
        self.count_defs = {}
        for name, defs in sc.scalars.items():
            for d in defs:
                if d.aug and d.region.kind == "loop" and d.region.iter_key == x:
                    self.count_defs.setdefault(name, []).append(d)
        for name, ds in self.count_defs.items():
            for d in ds:
                g = set(d.guards)
                if f"eq0[elem[{x}]]" in g:
                    self.zero = name
                if f"ge0[elem[{x}]]" in g:
                    self.valid = name

    def callees(self, root: str) -> List[str]:
        seen, todo = [], [root]
        while todo:
            n = todo.pop()
            if n in seen:
                continue
            seen.append(n)
            k = self.kernels.get(n)
            if k is None:
                continue
            for c in ast.walk(k.node):
                if isinstance(c, ast.Call):
                    f = ast.unparse(c.func).split(".")[-1]
                    if f in self.kernels and f not in seen:
                        todo.append(f)
        return seen


def threshold_rule(ob, spi):
    """ob(rule, fn, role, ok, detail, stmt) - shared by C07 and C08."""
    import ast
    # the 90% test is made on the ratio itself: `1 - p0 < 0.1` is the same set of reals but not the same set of floats (1 - 0.9 < 0.1 in binary64)
    k_gs = spi.k["gammastd"].node
    thr = [n_ for n_ in ast.walk(k_gs) if isinstance(n_, ast.If) and any(isinstance(c_, ast.Constant) and c_.value in (0.9, 0.1) for c_ in ast.walk(n_.test))]
    okf, detf = bool(thr), "no comparison against 0.9 found"
    for n_ in thr:
        t_ = n_.test
        sides = [t_.left] + list(t_.comparators) if isinstance(t_, ast.Compare) else []
        var_side = [x_ for x_ in sides if not isinstance(x_, ast.Constant)]
        const_side = [x_ for x_ in sides if isinstance(x_, ast.Constant)]
        plain = len(var_side) == 1 and len(const_side) == 1 and const_side[0].value == 0.9 and \
            not any(isinstance(b_, ast.BinOp) and isinstance(b_.op, (ast.Add, ast.Sub)) for b_ in ast.walk(var_side[0]))
        if not plain:
            okf, detf = False, (f"`{ast.unparse(t_)}` compares a float-transformed quantity: the boundary case of exactly 90% zeros "
                                f"(in-domain) falls on the other side (1 - 0.9 = 0.09999999999999998 < 0.1)")
    ob("R-FORMULA", "gammastd", "the 90%-zeros test compares the ratio of counts itself with 0.9 (no float arithmetic on the compared side)", okf, detf if not okf else "",
       thr[0].test if thr else "p_zero > 0.9")

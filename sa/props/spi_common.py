"""Shared analysis of the SPI kernels (gammastd, gammafit, brentq and the two drivers)."""
from __future__ import annotations

import ast
from typing import Dict, List, Optional

from ..core import AnalysisError, Repo
from ..kernels import Kernel, kernel, load_kernels
from ..poly import Normaliser, Rat, parse_expr
from ..symb import StoreCollector

MOD = "hdc.algo.ops.stats"
FILE = "hdc/algo/ops/stats.py"


class SPI:
    def __init__(self, repo: Repo):
        self.repo = repo
        self.kernels = load_kernels(repo)
        self.k = {n: kernel(self.kernels, n) for n in ("gammastd", "gammafit", "brentq", "gammastd_yxt", "gammastd_grp")}
        self.sc: Dict[str, StoreCollector] = {}
        for n, k in self.k.items():
            self.sc[n] = StoreCollector(k.node, FILE, loop_atoms_by_name=True, strict=False).run()
        g = self.k["gammastd"]
        if len(g.params) < 4:
            raise AnalysisError("missing anchor: gammastd(x, nodata, cal_start, cal_stop, ...)")
        self.x, self.nodata, self.cs, self.ce = g.params[:4]
        self._counters()

    def _counters(self):
        sc = self.sc["gammastd"]
        x, nd = self.x, self.nodata
        self.zero = self.valid = None
        self.count_defs = {}
        for name, defs in sc.scalars.items():
            for d in defs:
                if d.aug and d.region.kind == "loop" and d.region.iter_key == x:
                    self.count_defs.setdefault(name, []).append(d)
        for name, ds in self.count_defs.items():
            for d in ds:
                g = set(d.guards)
                if f"eq0[elem[{x}]]" in g:
                    self.zero = name
                if f"ge0[elem[{x}]]" in g:
                    self.valid = name

    def callees(self, root: str) -> List[str]:
        seen, todo = [], [root]
        while todo:
            n = todo.pop()
            if n in seen:
                continue
            seen.append(n)
            k = self.kernels.get(n)
            if k is None:
                continue
            for c in ast.walk(k.node):
                if isinstance(c, ast.Call):
                    f = ast.unparse(c.func).split(".")[-1]
                    if f in self.kernels and f not in seen:
                        todo.append(f)
        return seen

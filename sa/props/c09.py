"""C09 — SPI calibration window and grouping select exactly the intended samples.

Window convention (searchsorted left / right on the group-filtered time values = half-open
index range of the closed date interval), recorded attributes, validation dominating
both kernel sites (CFG), dense re-labelling and grouped gather/fit/scatter descriptor.
"""
from __future__ import annotations

import ast
from typing import Dict, List, Optional

from ..cfg import CFG
from ..core import AnalysisError, Report, Repo, norm_stmt
from ..kernels import kernel, load_kernels
from ..poly import Normaliser, Rat, Unsupported, int_cmp
from ..sites import load_sites
from ..symb import StoreCollector

UFILE = "hdc/algo/utils.py"
AFILE = "hdc/algo/accessors.py"
SFILE = "hdc/algo/ops/stats.py"


def raises_valueerror(body: List[ast.stmt]) -> bool:
    return bool(body) and isinstance(body[-1], ast.Raise) and body[-1].exc is not None and "ValueError" in ast.unparse(body[-1].exc)


def check_calibration_indices(rep: Report, repo: Repo):
    """start / stop of the calibration window are searchsorted(begin, 'left') / searchsorted(end, 'right') on the (group's) time values. Shared with C07: the
    gamma fit of the statement is the fit over exactly the steps begin <= t <= end."""
    # ------------------------------------------------------------------ get_calibration_indices
    fn = repo.func("hdc.algo.utils", "get_calibration_indices")
    P = [a.arg for a in fn.args.args]
    if P[:4] != ["time", "calibration_range", "groups", "num_groups"]:
        raise AnalysisError("missing anchor: get_calibration_indices(time, calibration_range, groups, num_groups)")
    time_p, rng_p, grp_p, ng_p = P[:4]

    def ob(rule, file, fname, role, ok, detail="", stmt=None, kind=""):
        rep.ob(rule, file, fname, role, ok, detail, stmt if stmt is not None else role, kind=kind)

    # begin, end = calibration_range
    unpack = [s for s in fn.body if isinstance(s, ast.Assign) and isinstance(s.targets[0], ast.Tuple) and ast.unparse(s.value) == rng_p]
    if len(unpack) != 1:
        raise AnalysisError("missing anchor: begin, end = calibration_range")
    b_name, e_name = [t.id for t in unpack[0].targets[0].elts]
    helper = [s for s in fn.body if isinstance(s, ast.FunctionDef)]
    hname = helper[0].name if helper else None
    if helper:
        h = helper[0]
        hp = [a.arg for a in h.args.args]
        ret = [s for s in h.body if isinstance(s, ast.Return)]
        okh = False
        if ret and isinstance(ret[0].value, ast.Call) and isinstance(ret[0].value.func, ast.Attribute) and ret[0].value.func.attr == "searchsorted":
            c = ret[0].value
            okh = (ast.unparse(c.func.value) == hp[0] and len(c.args) == 2 and ast.unparse(c.args[0]) in (f"np.datetime64({hp[1]})", hp[1])
                   and ast.unparse(c.args[1]) == hp[2])
        ob("R-FORMULA", UFILE, "get_calibration_indices", "the helper is array.searchsorted(datetime64(value), side) with the caller's side", okh,
           f"helper returns {ast.unparse(ret[0].value) if ret else None}", h.body[-1])
    calls = []
    walrus: Dict[str, list] = {}
    for ne in ast.walk(fn):
        if isinstance(ne, ast.NamedExpr) and isinstance(ne.target, ast.Name):
            walrus.setdefault(ne.target.id, []).append(ne.value)
    plain_defs = {n_.id for n_ in ast.walk(fn) if isinstance(n_, ast.Name) and isinstance(n_.ctx, ast.Store)
                  and not any(isinstance(ne, ast.NamedExpr) and ne.target is n_ for ne in ast.walk(fn))} | {a.arg for a in fn.args.args}
    for c in ast.walk(fn):
        if isinstance(c, ast.Call) and ((hname and ast.unparse(c.func) == hname) or (isinstance(c.func, ast.Attribute) and c.func.attr == "searchsorted"
                                                                                       and not (hname and c in list(ast.walk(helper[0]))))):
            if hname and ast.unparse(c.func) == hname and len(c.args) == 3:
                a0 = c.args[0]
                # `f(t := E, ..)`, `f(t, ..)`: the array looked up is the one object E evaluated to, under either spelling
                if isinstance(a0, ast.NamedExpr):
                    a0 = a0.value
                elif isinstance(a0, ast.Name) and len(walrus.get(a0.id, [])) == 1 and a0.id not in plain_defs:
                    a0 = walrus[a0.id][0]
                calls.append((ast.unparse(a0), ast.unparse(c.args[1]), ast.unparse(c.args[2]).strip("'\""), c))
            elif not hname:
                a = [ast.unparse(x.args[0]) if isinstance(x, ast.Call) and ast.unparse(x.func) in ("np.datetime64", "numpy.datetime64") and len(x.args) == 1
                     else ast.unparse(x) for x in c.args]      # the value is converted to datetime64 before the lookup (as the helper does)
                kw = {k.arg: ast.unparse(k.value).strip("'\"") for k in c.keywords}
                side = kw.get("side", a[1].strip("'\"") if len(a) > 1 else "left")
                calls.append((ast.unparse(c.func.value), a[0], side, c))
    if len(calls) < 4:
        other = sorted({ast.unparse(c.func) for c in ast.walk(fn) if isinstance(c, ast.Call) and isinstance(c.func, ast.Attribute)
                        and c.func.attr in ("slice_locs", "slice_indexer", "get_loc", "get_indexer", "get_slice_bound", "argmax", "argmin", "nonzero", "where")})
        ob("R-FORMULA", UFILE, "get_calibration_indices", "start / stop are searchsorted(begin, 'left') / searchsorted(end, 'right') on the time values, for both arms",
           False, f"only {len(calls)} of 4 searchsorted lookups remain; index lookups now used: {other} - label-based index APIs resolve partial date strings to whole "
           f"days/months and need not agree with the comparison begin <= t <= end that the recorded attributes use", fn.body[-1])
    else:
        rep.floor("searchsorted lookups in get_calibration_indices", len(calls), 4)
    # grouped arm: inside `if groups is not None`
    from ..rules import guard_chain as _gc
    def _is_grouped(node) -> Optional[bool]:
        pol = [p_ for t_, p_ in _gc(fn, node, canonical=True) if t_ in (f"{grp_p} is None", f"None is {grp_p}")]
        return (not pol[0]) if len(pol) == 1 else None
    arms_ = [_is_grouped(c[3]) for c in calls]
    if None in arms_:
        raise AnalysisError("missing anchor: every lookup of get_calibration_indices sits on one arm of the decision `groups is None`")
    grouped = [c for c, g_ in zip(calls, arms_) if g_]
    plain = [c for c, g_ in zip(calls, arms_) if not g_]

    loopvar = None
    for n in [g_ for c_ in ast.walk(fn) if isinstance(c_, (ast.ListComp, ast.GeneratorExp)) for g_ in c_.generators]:
        if isinstance(n, ast.comprehension) and isinstance(n.iter, ast.Call) and ast.unparse(n.iter.func) == "range":
            loopvar = (n.target.id, ast.unparse(n.iter.args[0]) if len(n.iter.args) == 1 else None)
    for arm, cs, arr in (("grouped", grouped, f"{time_p}[{grp_p} == {loopvar[0] if loopvar else '?'}].values"), ("ungrouped", plain, f"{time_p}.values")):
        got = [(a, v, s) for a, v, s, _ in cs]
        want = [(arr, b_name, "left"), (arr, e_name, "right")]
        ob("R-FORMULA", UFILE, "get_calibration_indices", f"{arm}: start = searchsorted(begin, 'left'), stop = searchsorted(end, 'right') on {arr}, in that order",
           got == want, f"lookups {got}; required {want} (a closed date interval [begin, end] becomes the half-open index range [start, stop))",
           cs[0][3] if cs else f"{arm} lookups")
    ob("R-COVER", UFILE, "get_calibration_indices", "one row per group id 0..num_groups-1", loopvar is not None and loopvar[1] == ng_p,
       f"comprehension over {loopvar}", "for ix in range(num_groups)")
    dflt = [s for s in ast.walk(fn) if isinstance(s, ast.Assign) and ast.unparse(s.targets[0]) == ng_p and _is_grouped(s)]
    ob("R-FORMULA", UFILE, "get_calibration_indices", "num_groups defaults to the number of distinct labels", len(dflt) == 1 and
       norm_stmt(dflt[0].value) in (f"len(np.unique(np.array({grp_p})))", f"np.unique({grp_p}).size", f"len(np.unique({grp_p}))"),
       f"{[norm_stmt(d) for d in dflt]}", dflt[0] if dflt else "num_groups default")

    return ob


def run(repo: Repo, tier: str) -> Report:
    rep = Report("C09")
    rep.decided = [
        "window indices: start = searchsorted(begin, 'left'), stop = searchsorted(end, 'right') on the (group-filtered) time values, on both arms; "
        "consumers slice [start:stop) => exactly the steps with begin <= t <= end",
        "recorded attributes are the first step >= begin and the last step <= end",
        "both kernel sites are dominated by the ValueError checks: start >= stop, stop - start <= 1 (np.any per group), begin after the last / end before the first step",
        "groups are re-encoded densely through to_linspace, num_groups = number of keys, cal_indices computed with the same groups/num_groups, length validated",
        "gammastd_grp: per group id in range(num_groups), members = groups == id, fit window = that group's row of cal_indices, result scattered through the same mask",
    ]
    rep.declined = ["equality of grouped and per-group ungrouped SPI values (needs two runs)", "pandas/NumPy datetime comparison semantics for dates between steps",
                    "int16 cal_indices for > 32767 steps (outside the quantifier)"]
    rep.trusted = ["CPython ast", "numpy searchsorted left/right semantics on a sorted axis", "np.unique returns sorted distinct keys"]

    ob = check_calibration_indices(rep, repo)
    # ------------------------------------------------------------------ to_linspace (descriptor)
    tl = repo.func("hdc.algo.utils", "to_linspace")
    xs = tl.args.args[0].arg
    env = {}
    for s in tl.body:
        if isinstance(s, ast.Assign) and isinstance(s.targets[0], ast.Name):
            env[s.targets[0].id] = s.value
    ret = [s for s in tl.body if isinstance(s, ast.Return)]
    okr = bool(ret) and isinstance(ret[0].value, ast.Tuple) and len(ret[0].value.elts) == 2
    keys_name = None
    if okr:
        second = ast.unparse(ret[0].value.elts[1])
        if second.startswith("list(") and second.endswith(")"):
            keys_name = second[5:-1]
    okk = keys_name in env and norm_stmt(env[keys_name]) == f"np.unique({xs})"
    ob("R-FORMULA", UFILE, "to_linspace", "keys are the sorted distinct labels (np.unique) and are returned as the key list", okr and okk,
       f"return {ast.unparse(ret[0].value) if ret else None}; keys = {norm_stmt(env[keys_name]) if keys_name in env else None}", ret[0] if ret else "return")
    idx_name = [n for n, v in env.items() if isinstance(v, ast.Call) and "searchsorted" in ast.unparse(v.func) or (isinstance(v, ast.Call) and "searchsorted" in ast.unparse(v))]
    oki = False
    if idx_name and keys_name:
        v = ast.unparse(env[idx_name[0]])
        oki = v.startswith(f"np.searchsorted({keys_name}, {xs}") or v.startswith(f"{keys_name}.searchsorted({xs}")
    ob("R-FORMULA", UFILE, "to_linspace", "each label is mapped to its position among the sorted keys (only the partition matters)", oki,
       f"index = {ast.unparse(env[idx_name[0]]) if idx_name else None}", env[idx_name[0]] if idx_name else "searchsorted")
    if okr and idx_name:
        first = ast.unparse(ret[0].value.elts[0])
        src = env.get(first)
        src_txt = ast.unparse(src).replace(" ", "") if src is not None else ""
        if "values" in env:
            src_txt = src_txt.replace(f"values[{idx_name[0]}]", norm_stmt(env["values"]).replace(" ", "") + f"[{idx_name[0]}]")
        okm = src is not None and src_txt in (f"np.where(mask,np.arange({keys_name}.size)[{idx_name[0]}],0)", idx_name[0])
        if not okm:
            # the same expression with every single-assignment local substituted: independent of which intermediates the code names
            from ..rules import resolve_local
            res = ast.unparse(resolve_local(tl, ret[0].value.elts[0], depth=8)).replace(" ", "")
            K = f"np.unique({xs})"
            for I in (f"np.searchsorted({K},{xs}.ravel()).reshape({xs}.shape)", f"{K}.searchsorted({xs}.ravel()).reshape({xs}.shape)"):
                okm = okm or res in (f"np.where({K}[{I}]=={xs}.data,np.arange({K}.size)[{I}],0)", I)
        ob("R-FORMULA", UFILE, "to_linspace", "the returned codes are the dense indices 0..k-1", bool(okm),
           f"codes = {ast.unparse(src) if src is not None else None}", src if src is not None else "codes")

    # ------------------------------------------------------------------ accessor: spi
    m = repo.method("hdc.algo.accessors", "PixelAlgorithms", "spi")
    cfg = CFG(m)
    kernels = load_kernels(repo)
    sites = {s.kernel: s for s in load_sites(repo, kernels) if s.kernel in ("gammastd_yxt", "gammastd_grp")}
    if len(sites) != 2:
        raise AnalysisError("missing anchor: the two spi kernel sites")
    N = Normaliser()

    def site_node(s):
        for n in cfg.stmt_nodes():
            if n.kind == "stmt" and any(c is s.call for c in ast.walk(n.stmt)):
                return n
        raise AnalysisError("kernel site not in the CFG of spi")

    def dominating_raises(node):
        out = []
        for g, arm in cfg.guards_of(node):
            if not arm and raises_valueerror(g.stmt.body):
                out.append(g.stmt.test)
        return out

    # the names carrying the window at the ungrouped site
    su = sites["gammastd_yxt"]
    cs_name = ast.unparse(su.kwargs["cal_start"]) if "cal_start" in su.kwargs else None
    ce_name = ast.unparse(su.kwargs["cal_stop"]) if "cal_stop" in su.kwargs else None
    tests_u = dominating_raises(site_node(su))
    # source of the two names
    gci = [s for s in ast.walk(m) if isinstance(s, ast.Assign) and isinstance(s.value, ast.Call) and ast.unparse(s.value.func) == "get_calibration_indices"]
    ung = [s for s in gci if isinstance(s.targets[0], ast.Tuple)]
    okw = len(ung) == 1 and [t.id for t in ung[0].targets[0].elts] == [cs_name, ce_name] and \
        [ast.unparse(a) for a in ung[0].value.args] == ["tix", "(calibration_begin, calibration_end)"]
    ob("R-BIND", AFILE, "PixelAlgorithms.spi", "ungrouped: (start, stop) = get_calibration_indices(time index, (begin, end)) feed cal_start / cal_stop", okw,
       f"{norm_stmt(ung[0]) if ung else None}; site kwargs cal_start={cs_name} cal_stop={ce_name}", ung[0] if ung else "get_calibration_indices(...)")

    def has_cmp(tests, pred) -> bool:
        for t in tests:
            parts = [t]
            if isinstance(t, ast.Call) and ast.unparse(t.func) in ("np.any", "any") and t.args:
                parts = [t.args[0]]
            for p in parts:
                if pred(p, isinstance(t, ast.Call)):
                    return True
        return False

    S, E = Rat.atom(cs_name or "?"), Rat.atom(ce_name or "?")

    def reversed_pred(p, wrapped):
        if isinstance(p, ast.Compare) and not wrapped:
            try:
                tag, d = int_cmp(p, N)
            except Unsupported:
                return False
            return tag == "le0" and d.equals(E - S)     # start >= stop
        return False

    def short_pred(p, wrapped):
        if isinstance(p, ast.Compare) and not wrapped:
            try:
                l = p.left
                if isinstance(l, ast.Call) and ast.unparse(l.func) == "abs":
                    p2 = ast.Compare(left=l.args[0], ops=p.ops, comparators=p.comparators)
                    tag, d = int_cmp(p2, N)
                else:
                    tag, d = int_cmp(p, N)
            except Unsupported:
                return False
            return tag == "le0" and (d.equals(E - S - Rat.const(1)) or d.equals(S - E - Rat.const(1)))   # stop - start <= 1
        return False

    ob("R-VALIDATE", AFILE, "PixelAlgorithms.spi", "ungrouped site is dominated by `start >= stop -> ValueError`", has_cmp(tests_u, reversed_pred),
       f"dominating raising tests: {[ast.unparse(t) for t in tests_u]}", "ungrouped: reversed/empty window check")
    ob("R-VALIDATE", AFILE, "PixelAlgorithms.spi", "ungrouped site is dominated by `stop - start <= 1 -> ValueError` (a single step cannot be fitted)", has_cmp(tests_u, short_pred),
       f"dominating raising tests: {[ast.unparse(t) for t in tests_u]}", "ungrouped: single-step window check")
    sg = sites["gammastd_grp"]
    tests_g = dominating_raises(site_node(sg))
    tg = [ast.unparse(t) for t in tests_g]
    ci = ast.unparse(sg.args[4]) if len(sg.args) > 4 else "?"
    ob("R-VALIDATE", AFILE, "PixelAlgorithms.spi", "grouped site is dominated by `any(start >= stop) -> ValueError`",
       f"np.any({ci}[:, 0] >= {ci}[:, 1])" in tg or f"np.any({ci}[:, 1] <= {ci}[:, 0])" in tg, f"dominating raising tests: {tg}", "grouped: reversed/empty window check")
    ob("R-VALIDATE", AFILE, "PixelAlgorithms.spi", "grouped site is dominated by `any(stop - start <= 1) -> ValueError`",
       f"np.any(np.diff({ci}, axis=1) <= 1)" in tg or f"np.any({ci}[:, 1] - {ci}[:, 0] <= 1)" in tg, f"dominating raising tests: {tg}", "grouped: single-step window check")
    for role, tests in (("ungrouped", tests_u), ("grouped", tests_g)):
        tt = [ast.unparse(t) for t in tests]
        ob("R-VALIDATE", AFILE, "PixelAlgorithms.spi", f"{role} site is dominated by the out-of-range checks (begin after the last step, end before the first)",
           "calibration_begin > tix[-1:]" in tt and "calibration_end < tix[:1]" in tt, f"dominating raising tests: {tt}", f"{role}: out-of-range checks")
    # grouping pipeline. GP = the caller's raw labels (the parameter), GR = the dense re-encoding returned by to_linspace, KN = its key list.
    # Today's code re-binds the parameter (GR == GP); a separate local for the re-encoding is the same program as long as the parameter
    # itself is not assigned anywhere and every consumer below takes GR.
    assigns = [norm_stmt(s) for s in ast.walk(m) if isinstance(s, ast.Assign)]
    tl_calls = [s for s in ast.walk(m) if isinstance(s, ast.Assign) and isinstance(s.value, ast.Call) and ast.unparse(s.value.func) == "to_linspace"]
    GP = "groups"
    if GP not in [a.arg for a in m.args.args + m.args.kwonlyargs]:
        raise AnalysisError("missing anchor: parameter `groups` of PixelAlgorithms.spi")
    GR, KN = GP, "keys"
    if len(tl_calls) == 1 and isinstance(tl_calls[0].targets[0], ast.Tuple) and len(tl_calls[0].targets[0].elts) == 2 \
            and all(isinstance(t, ast.Name) for t in tl_calls[0].targets[0].elts):
        GR, KN = (t.id for t in tl_calls[0].targets[0].elts)
    gp_assigned = [s for s in ast.walk(m) if isinstance(s, (ast.Assign, ast.AugAssign, ast.NamedExpr, ast.For)) and s not in tl_calls
                   and any(isinstance(n, ast.Name) and n.id == GP and isinstance(n.ctx, ast.Store)
                           for t in (s.targets if isinstance(s, ast.Assign) else [s.target]) for n in ast.walk(t))
                   and not (isinstance(s, ast.Assign) and ast.unparse(s.value) == f"{GP}.astype('int16')" and GR == GP)]
    ob("R-VALIDATE", AFILE, "PixelAlgorithms.spi", "grouped site is dominated by the length check of the labels", f"len({GR}) != len(self._obj.time)" in tg
       or f"len({GP}) != len(self._obj.time)" in tg, f"dominating raising tests: {tg}", "grouped: len(groups) == len(time)")
    ok_tl = (len(tl_calls) == 1 and isinstance(tl_calls[0].targets[0], ast.Tuple) and [ast.unparse(t) for t in tl_calls[0].targets[0].elts] == [GR, KN]
             and [ast.unparse(a) for a in tl_calls[0].value.args] == [f"np.array({GP}, dtype='str')"] and not gp_assigned)
    ob("R-FORMULA", AFILE, "PixelAlgorithms.spi", "labels are compared as strings and re-encoded densely (only the partition matters)",
       ok_tl, f"{[norm_stmt(t) for t in tl_calls]}" + (f"; the raw labels are re-assigned: {[norm_stmt(x) for x in gp_assigned]}" if gp_assigned else ""),
       "groups, keys = to_linspace(np.array(groups, dtype='str'))")
    ob("R-FORMULA", AFILE, "PixelAlgorithms.spi", "num_groups is the number of keys", f"num_groups = len({KN})" in assigns, "", "num_groups = len(keys)")
    grp_call = [s for s in gci if not isinstance(s.targets[0], ast.Tuple)]
    after_tl = len(grp_call) == 1 and len(tl_calls) == 1 and (grp_call[0].lineno, grp_call[0].col_offset) > (tl_calls[0].lineno, tl_calls[0].col_offset)
    ob("R-BIND", AFILE, "PixelAlgorithms.spi", "cal_indices = get_calibration_indices(time index, (begin, end), groups, num_groups) with the re-encoded groups",
       len(grp_call) == 1 and [ast.unparse(a) for a in grp_call[0].value.args] == ["tix", "(calibration_begin, calibration_end)", GR, "num_groups"]
       and ast.unparse(grp_call[0].targets[0]) == ci and after_tl, f"{norm_stmt(grp_call[0]) if grp_call else None}" + ("" if after_tl else " (before the re-encoding)"),
       grp_call[0] if grp_call else "cal_indices = ...")
    ob("R-BIND", AFILE, "PixelAlgorithms.spi", "grouped site passes (data, groups, num_groups, nodata, cal_indices)",
       [ast.unparse(a) for a in sg.args] == ["self._obj", GR, "num_groups", "nodata", ci], f"{[ast.unparse(a) for a in sg.args]}", "gammastd_grp args")
    # explicit casts of kernel arguments agree with the kernel's declared element type (a narrower cast wraps the dense group ids)
    kg = kernel(kernels, "gammastd_grp")
    n_casts = 0
    for st in ast.walk(m):
        if isinstance(st, ast.Assign) and isinstance(st.targets[0], ast.Name) and isinstance(st.value, ast.Call) and isinstance(st.value.func, ast.Attribute) \
                and st.value.func.attr == "astype" and st.targets[0].id in [ast.unparse(a) for a in sg.args[1:]]:
            pos = [ast.unparse(a) for a in sg.args].index(st.targets[0].id)
            want = sorted({sig[pos][0] for sig in kg.sigs})
            got = st.value.args[0].value if st.value.args and isinstance(st.value.args[0], ast.Constant) else ast.unparse(st.value.args[0]) if st.value.args else None
            ob("R-BIND", AFILE, "PixelAlgorithms.spi", f"`{st.targets[0].id}` is cast to the element type gammastd_grp declares for it", [got] == want,
               f"cast to {got}; the kernel declares {want} (a narrower type wraps group ids / indices beyond its range)", st)
            n_casts += 1
    rep.note(f"explicit casts of grouped-site arguments checked: {n_casts}")
    # attributes
    upd = None
    for c in ast.walk(m):
        if isinstance(c, ast.Call) and ast.unparse(c.func).endswith("attrs.update") and c.args and isinstance(c.args[0], ast.Dict):
            upd = {k.value: ast.unparse(v) for k, v in zip(c.args[0].keys, c.args[0].values) if isinstance(k, ast.Constant)}
    ob("R-FORMULA", AFILE, "PixelAlgorithms.spi", "spi_calibration_begin is the first step >= begin", upd is not None and
       upd.get("spi_calibration_begin") == "str(tix[tix >= calibration_begin][0])", f"{upd}", "spi_calibration_begin")
    ob("R-FORMULA", AFILE, "PixelAlgorithms.spi", "spi_calibration_end is the last step <= end", upd is not None and
       upd.get("spi_calibration_end") == "str(tix[tix <= calibration_end][-1])", f"{upd}", "spi_calibration_end")
    dfl = {norm_stmt(s.test): norm_stmt(s.body[0]) for s in m.body if isinstance(s, ast.If) and len(s.body) == 1 and isinstance(s.body[0], ast.Assign)}
    ob("R-FORMULA", AFILE, "PixelAlgorithms.spi", "defaults: begin = first step, end = last step",
       dfl.get("calibration_begin is None") == "calibration_begin = tix[0]" and dfl.get("calibration_end is None") == "calibration_end = tix[-1]", f"{dfl}",
       "calibration defaults")

    # ------------------------------------------------------------------ gammastd_grp
    k = kernel(kernels, "gammastd_grp")
    xx, groups, ng, nd, cal, yy = k.params
    sc = StoreCollector(k.node, SFILE, loop_atoms_by_name=True, strict=False).run()
    loops = [r for r in sc.regions if r.kind == "loop"]
    okl = len(loops) == 1 and loops[0].rng is not None and len(loops[0].rng) == 1 and loops[0].rng[0].key() == ng
    ob("R-COVER", SFILE, "gammastd_grp", "every group id 0..num_groups-1 is processed", okl, f"{[l.label() for l in loops]}", loops[0].node if loops else "group loop")
    if loops:
        g = loops[0].var
        mask = f"eq0[-1*{groups} + {g}]"
        buf = [n for n, a in sc.allocs.items() if ast.unparse(a.func) == "gammastd"]
        okf = False
        det = f"allocs {list(sc.allocs)}"
        if len(buf) == 1:
            call = sc.allocs[buf[0]]
            args = [StoreCollector.N(sc).norm(a).key() for a in call.args]
            # evaluate in the loop environment: re-normalise with the scalar defs recorded
            defs = {n: ds[-1].rhs.key() for n, ds in sc.scalars.items()}
            a0 = defs.get(ast.unparse(call.args[0]), ast.unparse(call.args[0]))
            a2 = defs.get(ast.unparse(call.args[2]), ast.unparse(call.args[2]))
            a3 = defs.get(ast.unparse(call.args[3]), ast.unparse(call.args[3]))
            okf = (a0 == f"{xx}[{mask}]" and ast.unparse(call.args[1]) == nd and a2 == f"{cal}[{g},0]" and a3 == f"{cal}[{g},1]")
            det = f"gammastd({a0}, {ast.unparse(call.args[1])}, {a2}, {a3})"
        ob("R-FORMULA", SFILE, "gammastd_grp", "members = groups == id; the fit window is that group's (start, stop) row of cal_indices", okf, det,
           sc.alloc_stmts.get(buf[0]) if buf else "gammastd(...)")
        sca = [s for s in sc.stores if s.arr == yy]
        oks = bool(sca) and all(s.idx_key == mask for s in sca) and any(s.rhs.key() == f"{buf[0]}[:]" for s in sca if buf)
        ob("R-FORMULA", SFILE, "gammastd_grp", "results are scattered through the index they were gathered with", oks,
           f"stores into the output: {[(s.idx_key, s.rhs.key()) for s in sca]}; gather mask {mask}", sca[-1].stmt if sca else "scatter")
    from ..rules import r_truthy
    r_truthy(rep, repo, "PixelAlgorithms", "spi", ["nodata"], "0 is a legitimate nodata value (it is the one the test-suite uses); a truth test silently replaces or drops it")
    from ..rules import r_stateless
    r_stateless(rep, repo, [('PixelAlgorithms', 'spi')])
    rep.floor("C09 obligations", len(rep.obls), 25)
    return rep

"""C03 — fixed-lambda smoothers return the rounded PLS / expectile curve (composition)."""
from __future__ import annotations

import ast
from typing import Dict, List

from ..core import AnalysisError, Report, Repo, norm_stmt
from ..poly import Normaliser, Rat, parse_expr
from ..rules import r_bind
from ..sites import load_sites
from .smooth_common import IRLS, Smoother, load_family

AFILE = "hdc/algo/accessors.py"
REF_ENV = {"lt0[-1*{y} + {z}]": "{p}", "ge0[-1*{y} + {z}]": "-1*{p} + 1"}


def check_irls(rep: Report, s: Smoother, b: IRLS, p: str, role: str, want_start=("zeros", "reset"), lam=None, need_final=True):
    """Compare an IRLS block descriptor with the reference derived from the statement of C03."""
    f, fn = s.file, s.name
    st = b.loop.node

    def ob(what, ok, detail):
        rep.ob("R-IRLS", f, fn, f"{role}: {what}", ok, detail, f"{role}: {what} @ {norm_stmt(st)}", line=st.lineno)

    ob("at most 10 reweighting passes", b.bound == "10", f"loop is `{norm_stmt(st)}` (bound {b.bound})")
    ref = {k.format(y=b.series, z=b.z): v.format(p=p) for k, v in REF_ENV.items()}
    ob("cells above the curve weigh p, the others 1-p (strict y > z)", b.envelope == ref,
       f"envelope {b.envelope}; required {ref}")
    m = s.mask["name"] if s.mask else None
    others = b.weight_factors - {b.solve.weight}
    inter = {x for x in others if x not in (m, b.wa) and s._defs_of_array(x, None)}
    ok_w = m in b.weight_factors and b.wa in b.weight_factors and not (others - inter - {m, b.wa} - ROBUST_OK.get(fn, set()))
    ob("solver weight = validity mask x asymmetric weight", ok_w,
       f"weight `{b.solve.weight}` resolves to factors {sorted(b.weight_factors)}; required the mask `{m}` and `{b.wa}`")
    ob("stop when the L1 change of the curve is exactly 0", b.conv_ok, f"break test `{b.conv}` is not `sum |znew - z| == 0` evaluated after the solve")
    ob("the new curve is carried into the next pass after the test", b.carry_ok, f"carry statement into `{b.carry}` missing or before the test")
    if want_start:
        ob("the reweighting starts from the zero curve", b.start in want_start, f"state of `{b.z}` before the loop: {b.start}")
    ob("the series passed to the solver is the input series", b.solve.series == s.mask["series"] if s.mask else False, f"solver series {b.solve.series}")
    if lam is not None:
        ob("every pass solves at the smoother's lambda", b.solve.lam == lam, f"lambda argument {b.solve.lam}; required {lam}")
    if need_final:
        fin = b.final
        ok_f = fin is not None and fin.args == b.solve.args
        ob("a final solve with the last weights produces the curve", ok_f,
           f"final solve {fin.args if fin else None} vs loop solve {b.solve.args}")
        return fin
    return None


ROBUST_OK = {"ws2dwcvp": {"r_weights", "robust_weights"}, "_ws2dwcvp": {"r_weights", "robust_weights"}}


def check_round(rep: Report, s: Smoother, target: str, guards_need: List[str]):
    rs = s.rounds()
    out = s.k.outputs[0] if s.k.outputs else None
    ok = len(rs) == 1 and rs[0].args == [target, "0", out] and all(g in rs[0].guards for g in guards_need)
    rep.ob("R-ROUND", s.file, s.name, "the curve is stored through np.round(curve, 0, out) (half to even), only on the valid arm", ok,
           f"round calls {[(c.args, list(c.guards)) for c in rs]}; required round({target}, 0, {out}) under {guards_need}",
           rs[0].stmt if rs else "np.round(z, 0, out)")
    stray = [x for x in s.sc.stores if x.arr == out and not (x.idx_key == ":" and x.rhs.key() == f"{s.mask['series']}[:]")]
    rep.ob("R-ROUND", s.file, s.name, "no other store writes the output series (no truncating store)", not stray,
           f"{[norm_stmt(x.stmt) for x in stray]}", stray[0].stmt if stray else f"{s.name}: stores into {out}")


def run(repo: Repo, tier: str) -> Report:
    rep = Report("C03")
    rep.decided = [
        "whits: lambda = 10**sg when an sgrid is given, else s; p selects the asymmetric kernel; argument binding of both sites",
        "ws2dgu: lambda != 0 -> one solve with the validity mask as weight, rounded half-even into the output; lambda == 0 or < 2 valid cells -> input unchanged, no solve",
        "ws2dpgu: IRLS descriptor == the statement (<= 10 passes from the zero curve, p above / 1-p otherwise, mask x asymmetric weight, exact-zero stop, final solve, rounding)",
    ]
    rep.declined = ["numerical equality with the PLS / expectile curve (delegated to C01 for the solve)", "convergence of the reweighting within 10 passes"]
    rep.trusted = ["CPython ast", "np.round rounds half to even", "C01 (solver), C02 (mask)"]
    kernels, fam = load_family(repo, ["ws2dgu", "ws2dpgu"])
    rep.analysed = {"kernels": ["ws2dgu", "ws2dpgu"], "irls_blocks": sum(len(s.irls) for s in fam.values())}

    # ---- ws2dgu
    g = fam["ws2dgu"]
    y, lmda, nodata, out = g.k.params
    if g.mask is None:
        raise AnalysisError("missing anchor: validity mask in ws2dgu")
    m = g.mask["name"]
    ok1 = len(g.solves) == 1 and g.solves[0].args == [y, lmda, m]
    rep.ob("R-FORMULA", g.file, "ws2dgu", "exactly one solve ws2d(y, lambda, mask): unit weight on valid cells, zero elsewhere", ok1,
           f"solves {[sv.args for sv in g.solves]}; required [{y}, {lmda}, {m}]", g.solves[0].stmt if g.solves else "ws2d(...)")
    if g.solves:
        sv = g.solves[0]
        need = [f"ne0[{lmda}]", f"lt0[-1*{g.mask['count']} + 1]"]
        rep.ob("R-FORMULA", g.file, "ws2dgu", "the solve runs only for lambda != 0 and at least 2 valid cells", list(sv.guards) == need,
               f"guards {list(sv.guards)}; required {need}", f"guards of {norm_stmt(sv.stmt)}")
        check_round(rep, g, sv.target, need)
    pt = g.passthrough()
    conds = sorted(tuple(p_.guards) for p_ in pt)
    want = sorted([(f"eq0[{lmda}]",), (f"ne0[{lmda}]", f"ge0[-1*{g.mask['count']} + 1]")])
    rep.ob("R-FORMULA", g.file, "ws2dgu", "lambda == 0 (sg = -inf) or fewer than 2 valid cells: the input is returned unchanged", conds == want
           and all(p_.rhs.key() == f"{y}[:]" for p_ in pt), f"pass-through stores under {conds}; required {want}", pt[0].stmt if pt else "out[:] = y[:]")

    # ---- ws2dpgu
    pg = fam["ws2dpgu"]
    y, lmda, nodata, p, out = pg.k.params
    if len(pg.irls) != 1:
        rep.ob("R-IRLS", pg.file, "ws2dpgu", "the asymmetric smoother contains one reweighting loop", False, f"{len(pg.irls)} IRLS blocks found", "IRLS loop")
    else:
        b = pg.irls[0]
        fin = check_irls(rep, pg, b, p, "expectile reweighting", lam=lmda)
        need = [f"ne0[{lmda}]", f"lt0[-1*{pg.mask['count']} + 1]"]
        rep.ob("R-FORMULA", pg.file, "ws2dpgu", "the reweighting runs only for lambda != 0 and at least 2 valid cells", list(b.solve.guards) == need,
               f"guards {list(b.solve.guards)}; required {need}", f"guards of {norm_stmt(b.solve.stmt)}")
        if fin is not None:
            check_round(rep, pg, fin.target, need)
        n_solves = len(pg.solves)
        rep.ob("R-FORMULA", pg.file, "ws2dpgu", "no solve outside the reweighting loop and the final solve", n_solves == 2, f"{n_solves} solver calls", "solver calls of ws2dpgu")
    pt = pg.passthrough()
    conds = sorted(tuple(p_.guards) for p_ in pt)
    want = sorted([(f"eq0[{lmda}]",), (f"ne0[{lmda}]", f"ge0[-1*{pg.mask['count']} + 1]")])
    rep.ob("R-FORMULA", pg.file, "ws2dpgu", "lambda == 0 or fewer than 2 valid cells: the input is returned unchanged", conds == want,
           f"pass-through stores under {conds}; required {want}", pt[0].stmt if pt else "out[:] = y[:]")

    # ---- accessor
    m_ = repo.method("hdc.algo.accessors", "WhittakerSmoother", "whits")
    from ..rules import whits_lambda, ws2d_straight
    whits_lambda(rep, repo)
    ws2d_straight(rep, repo)
    sites = {s.kernel: s for s in load_sites(repo, kernels) if s.where() == "WhittakerSmoother.whits"}
    if set(sites) != {"ws2dgu", "ws2dpgu"}:
        raise AnalysisError(f"missing anchor: whits sites (found {sorted(sites)})")
    from ..cfg import CFG
    cfg = CFG(m_)

    def arm_of(site):
        for n in cfg.stmt_nodes():
            if n.kind == "stmt" and any(c is site.call for c in ast.walk(n.stmt)):
                return [(norm_stmt(g.stmt.test), arm) for g, arm in cfg.guards_of(n)]
        return []
    rep.ob("R-FORMULA", AFILE, "WhittakerSmoother.whits", "p given -> asymmetric kernel; no p -> symmetric kernel",
           ("p is not None", True) in arm_of(sites["ws2dpgu"]) and ("p is not None", False) in arm_of(sites["ws2dgu"]),
           f"ws2dpgu under {arm_of(sites['ws2dpgu'])}; ws2dgu under {arm_of(sites['ws2dgu'])}", "selection of the kernel on p")
    for k_, s in sites.items():
        r_bind(rep, s, kernels[k_])
        want_args = ["self._obj", "lmda", "nodata"] + (["p"] if k_ == "ws2dpgu" else [])
        rep.ob("R-BIND", AFILE, s.where(), f"{k_} receives (series, lambda, nodata{', p' if k_ == 'ws2dpgu' else ''})", [ast.unparse(a) for a in s.args] == want_args,
               f"{[ast.unparse(a) for a in s.args]}", f"{k_} args", line=s.line)
        icd = ast.unparse(s.opts["input_core_dims"]) if "input_core_dims" in s.opts else ""
        ocd = ast.unparse(s.opts["output_core_dims"]) if "output_core_dims" in s.opts else ""
        rep.ob("R-BIND", AFILE, s.where(), f"{k_}: time is the core dimension of the series and of the result", icd.startswith("[['time']") and ocd == "[['time']]",
               f"input_core_dims={icd} output_core_dims={ocd}", f"{k_} core dims", line=s.line)
    chk = [st for st in m_.body if isinstance(st, ast.If) and norm_stmt(st.test) in ("sg is None and s is None", "s is None and sg is None")
           and st.body and isinstance(st.body[-1], ast.Raise) and "ValueError" in ast.unparse(st.body[-1])]
    rep.ob("R-VALIDATE", AFILE, "WhittakerSmoother.whits", "neither s nor sgrid raises ValueError", len(chk) == 1, "", "Need S or sgrid")
    from ..rules import r_truthy
    r_truthy(rep, repo, "WhittakerSmoother", "whits", ["nodata"], "0 is a legitimate nodata value (it is the one the test-suite uses); a truth test silently replaces or drops it")
    from ..rules import r_stateless
    r_stateless(rep, repo, [('WhittakerSmoother', 'whits')])
    from ..rules import input_writes
    for kn_ in ("ws2dgu", "ws2dpgu"):
        iw_ = input_writes(kernels[kn_])
        rep.ob("R-READONLY", kernels[kn_].file, kn_, "the smoother never stores into its input series (a second call on the same array smooths a different series)", not iw_,
               f"`{norm_stmt(iw_[0])}` stores into the input" if iw_ else "", iw_[0] if iw_ else f"{kn_}: stores into inputs")
    rep.floor("C03 obligations", len(rep.obls), 25)
    return rep

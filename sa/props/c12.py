"""C12 — results do not depend on laziness, chunking, layout or threading (structural clauses).

R-BIND (dask='parallelized', time as core dimension, no allow_rechunk => a chunked time axis
is refused), explicit map_blocks paths, R-DTYPE-DECL (declared dtype == written dtype),
R-PURE / R-READONLY / R-LOOPCARRY (per-pixel independence), R-PRANGE (thread-count
independence), R-PUBLISH (lazy compilation cell).
"""
from __future__ import annotations

import ast
import builtins
from typing import Dict, List, Optional, Set

from ..cfg import CFG, enclosing_loops
from ..core import AnalysisError, Report, Repo, norm_stmt
from ..dataflow import ReachingDefs
from ..kernels import Kernel, kernel, load_kernels
from ..rules import array_params_of, input_writes, r_bind
from ..sites import Site, const_list, load_sites

AFILE = "hdc/algo/accessors.py"
HFILE = "hdc/algo/ops/_helper.py"
DRIVERS = {
    # 3-D drivers and the loop variables that enumerate pixels / time steps
    "autocorr": 2, "autocorr_tyx": 2, "gammastd_yxt": 2, "mann_kendall_trend_yxt": 2, "ws2doptvplc_tyx": 2, "do_mean": 1,
}


def written_dtype(k: Kernel, repo: Repo) -> Optional[List[str]]:
    """Element type(s) a kernel writes into its result(s), from its signature or the allocation of what it returns."""
    if k.kind == "guvectorize":
        outs = {tuple(d for d, _ in sig[k.n_in:]) for sig in k.sigs}
        if len(outs) != 1:
            return None
        return list(outs.pop())
    rets = [n for n in ast.walk(k.node) if isinstance(n, ast.Return) and n.value is not None]
    if len(rets) != 1 or not isinstance(rets[0].value, ast.Name):
        return None
    name = rets[0].value.id
    for st in ast.walk(k.node):
        if isinstance(st, ast.Assign) and isinstance(st.targets[0], ast.Name) and st.targets[0].id == name and isinstance(st.value, ast.Call):
            kws = {kw.arg: kw.value for kw in st.value.keywords}
            if "dtype" in kws:
                v = kws["dtype"]
                if isinstance(v, ast.Constant):
                    return [str(v.value)]
                if isinstance(v, ast.Name):
                    return [v.id if v.id in ("float32", "float64", "int16", "int64") else f"param:{v.id}"]
                return [ast.unparse(v)]
    return None


def declared_dtype(site: Site, method: ast.FunctionDef):
    """('literal', [dtypes]) | ('param', name) | ('none', None) — what the site declares to dask/xarray."""
    params = {a.arg for a in method.args.args}
    od = site.opts.get("output_dtypes")
    if od is not None:
        v = const_list(od)
        return ("literal", v)
    if site.mode == "map_blocks" and "dtype" in site.opts:
        v = site.opts["dtype"]
        if isinstance(v, ast.Constant):
            return ("literal", [v.value])
        if isinstance(v, ast.Name) and v.id in params:
            return ("param", v.id)
    dgk = site.opts.get("dask_gufunc_kwargs")
    if isinstance(dgk, ast.Dict):
        for k_, v in zip(dgk.keys, dgk.values):
            if isinstance(k_, ast.Constant) and k_.value == "meta":
                # find .astype(X)
                for c in ast.walk(v):
                    if isinstance(c, ast.Call) and isinstance(c.func, ast.Attribute) and c.func.attr == "astype" and c.args:
                        a = c.args[0]
                        if isinstance(a, ast.Constant):
                            return ("literal", [a.value])
                        if isinstance(a, ast.Name) and a.id in params:
                            return ("param", a.id)
                        return ("expr", ast.unparse(a))
                return ("input", ast.unparse(v))
    return ("none", None)


def run(repo: Repo, tier: str) -> Report:
    rep = Report("C12")
    rep.decided = [
        "every apply_ufunc site: dask='parallelized', the time (or user) dimension is a core dimension of the data argument, no allow_rechunk "
        "(a chunked time axis is refused by xarray); map_blocks paths rechunk time / keep per-time-step independence",
        "the dtype a site declares to dask equals the dtype the kernel writes (same dtype lazy or eager)",
        "kernels read no module-level mutable state, write no global state and never store into their input arrays (per-pixel independence, safe sharing between dask tasks)",
        "3-D drivers carry nothing from one pixel to the next (scratch arrays are fully overwritten before being read)",
        "the prange body writes only arrays allocated in the body or indexed by the prange variable and assigns no outer scalar (bit-identical for every thread count)",
        "the lazily filled cell of lazycompile is assigned only the completed compiled object, never reset, and the call goes through it",
    ]
    rep.declined = ["equality of computed values between schedulers (needs execution)", "dask's map_blocks concatenation semantics for chunked y/x in zonal.mean",
                    "Numba's compiler lock serialising two racing first calls (trusted)"]
    rep.trusted = ["CPython ast", "xarray contract: apply_ufunc(dask='parallelized') refuses a chunked core dimension unless allow_rechunk", "Numba serialises compilation with a global lock"]
    kernels = load_kernels(repo)
    sites = load_sites(repo, kernels)
    rep.floor("accessor -> kernel sites", len(sites), 20)
    am = repo.mod("hdc.algo.accessors")
    methods = {}
    for c in am.tree.body:
        if isinstance(c, ast.ClassDef):
            for f in c.body:
                if isinstance(f, ast.FunctionDef):
                    methods[f"{c.name}.{f.name}"] = f

    # ---------------------------------------------------------------- 1. chunk safety
    for s in sites:
        k = kernels[s.kernel]
        if s.mode == "apply_ufunc":
            r_bind(rep, s, k)
            icd = const_list(s.opts.get("input_core_dims"))
            first = icd[0] if isinstance(icd, list) and icd else None
            ok = first in (["time"], ["dimension"])
            rep.ob("R-CHUNK", AFILE, s.where(), f"{s.kernel}: the time dimension is a core dimension of the data argument", ok,
                   f"input_core_dims[0] = {first}", f"{s.kernel}: input_core_dims[0]", line=s.line)
    # autocorr map_blocks: time rechunked to one block
    ac = methods["PixelAlgorithms.autocorr"]
    cfg = CFG(ac)
    mb = [s for s in sites if s.kernel == "autocorr_tyx" and s.mode == "map_blocks"]
    if len(mb) != 1:
        raise AnalysisError("missing anchor: autocorr_tyx map_blocks site")
    node = None
    for n in cfg.stmt_nodes():
        if n.kind == "stmt" and any(c is mb[0].call for c in ast.walk(n.stmt)):
            node = n
    rech = [n for n in cfg.stmt_nodes() if n.kind == "stmt" and isinstance(n.stmt, ast.Assign) and "chunk({'time': -1})" in ast.unparse(n.stmt.value)]
    okr = False
    det = "no `xx.chunk({'time': -1})` before the map_blocks call"
    if rech and node is not None:
        g = [(norm_stmt(gn.stmt.test), arm) for gn, arm in cfg.guards_of(rech[0])]
        okr = ("len(xx.chunks[0]) != 1", True) in g and node.id in cfg.reachable_from(rech[0]) and ast.unparse(mb[0].args[0]) == "xx.data" \
            and ast.unparse(rech[0].stmt.targets[0]) == "xx"
        det = f"rechunk under {g}"
    rep.ob("R-CHUNK", AFILE, "PixelAlgorithms.autocorr", "time-first dask path merges the time axis into one block before dropping it", okr, det,
           rech[0].stmt if rech else "xx = xx.chunk({'time': -1})")
    o = {k_: ast.unparse(v) for k_, v in mb[0].opts.items()}
    rep.ob("R-CHUNK", AFILE, "PixelAlgorithms.autocorr", "the dropped axis is the time axis (axis 0 of time-first data)", o.get("drop_axis") == "0", f"{o}", "drop_axis=0",
           line=mb[0].line)

    from ..rules import r_token
    for s in sites:
        if s.mode == "map_blocks" and methods.get(s.where()) is not None:
            r_token(rep, repo, methods[s.where()], s, s.where())
    # ---------------------------------------------------------------- 2. R-DTYPE-DECL
    n_decl = 0
    for s in sites:
        k = kernels[s.kernel]
        meth = methods.get(s.where())
        if meth is None or s.mode == "direct":
            continue
        kind, val = declared_dtype(s, meth)
        wd = written_dtype(k, repo)
        if kind == "none":
            rep.note(f"site {s.where()} -> {s.kernel}: no dtype declared to dask (meta is inferred by xarray/dask from a zero-size call)")
            continue
        n_decl += 1
        role = f"{s.kernel}: dtype declared to dask == dtype the kernel writes"
        if kind == "literal":
            ok = wd is not None and [str(x) for x in val] == [str(x) for x in wd]
            rep.ob("R-DTYPE-DECL", AFILE, s.where(), role, ok, f"declared {val}; the kernel writes {wd}", f"{s.kernel}: declared {val}", line=s.line)
        elif kind == "param":
            rep.ob("R-DTYPE-DECL", AFILE, s.where(), role, False,
                   f"the declaration follows the caller's `{val}` argument while the kernel always writes {wd}: the lazy result is typed `{val}` but holds {wd} values "
                   f"(in-memory and dask-backed results differ in dtype whenever {val} != {wd})", f"{s.kernel}: declared dtype = parameter `{val}`", line=s.line)
        elif kind == "input":
            rep.ob("R-DTYPE-DECL", AFILE, s.where(), role, False,
                   f"meta = {val} declares the INPUT dtype; the kernel writes {wd}", f"{s.kernel}: declared dtype = input dtype", line=s.line)
        else:
            rep.ob("R-DTYPE-DECL", AFILE, s.where(), role, False, f"unrecognised declaration {val}", f"{s.kernel}: declared {val}", line=s.line)
    rep.floor("sites declaring a dtype", n_decl, 10)

    # ---------------------------------------------------------------- 3. R-PURE / R-READONLY
    bi = set(dir(builtins))
    for name, k in sorted(kernels.items()):
        if k.inlined:
            continue        # analysed inlined in its callers (sa/canon.py): its parameters are the callers' arrays
        m = repo.mod(k.module)
        mod_assigned = {}
        imported = set()
        for st in m.tree.body:
            if isinstance(st, ast.Assign):
                for t in st.targets:
                    if isinstance(t, ast.Name):
                        mod_assigned[t.id] = st
            elif isinstance(st, (ast.Import, ast.ImportFrom)):
                for a in st.names:
                    imported.add((a.asname or a.name).split(".")[0])
            elif isinstance(st, (ast.FunctionDef, ast.ClassDef)):
                imported.add(st.name)
        local = {a.arg for a in k.node.args.args} | {n.id for n in ast.walk(k.node) if isinstance(n, ast.Name) and isinstance(n.ctx, ast.Store)}
        for n in ast.walk(k.node):
            if isinstance(n, ast.Lambda):
                local |= {a.arg for a in n.args.args}
            if isinstance(n, ast.comprehension):
                local |= {x.id for x in ast.walk(n.target) if isinstance(x, ast.Name)}
        glob = [n for n in ast.walk(k.node) if isinstance(n, (ast.Global, ast.Nonlocal))]
        free = sorted({n.id for n in ast.walk(k.node) if isinstance(n, ast.Name) and isinstance(n.ctx, ast.Load)
                       and n.id not in local and n.id not in imported and n.id not in bi})
        mutable = [f for f in free if f in mod_assigned and not isinstance(mod_assigned[f].value, ast.Constant)]
        unknown = [f for f in free if f not in mod_assigned]
        rep.ob("R-PURE", k.file, name, "no global/nonlocal state is written and no module-level mutable object is read", not glob and not mutable and not unknown,
               f"global statements {[norm_stmt(g) for g in glob]}; module-level objects read {mutable}; unresolved names {unknown}", f"{name}: free names")
        # R-READONLY
        bad = input_writes(k)
        rep.ob("R-READONLY", k.file, name, "no store into an input array or a view of one", not bad,
               f"`{norm_stmt(bad[0])}` writes the caller's array (dask may share it between tasks)" if bad else "", bad[0] if bad else f"{name}: stores into inputs")

    # ---------------------------------------------------------------- 4. R-LOOPCARRY
    for name, depth in DRIVERS.items():
        k = kernel(kernels, name)
        loops = enclosing_loops(k.node)
        # pixel loop: the loop nest at the given depth (outermost first)
        top = [st for st in k.node.body if isinstance(st, ast.For)]
        if len(top) != 1:
            raise AnalysisError(f"unsupported construct: driver {name} must have one top-level loop nest")
        pix = top[0]
        for _ in range(depth - 1):
            inner = [st for st in pix.body if isinstance(st, ast.For)]
            if len(inner) < 1:
                raise AnalysisError(f"unsupported construct: driver {name}: pixel loop nest of depth {depth}")
            pix = inner[-1] if name == "ws2doptvplc_tyx" else inner[0]
        cfg = CFG(k.node)
        rd = ReachingDefs(cfg)
        head = cfg.node_of(pix)
        body_nodes = {n.id for n in cfg.stmt_nodes() if any(x is n.stmt for x in ast.walk(pix)) and n is not head}
        # scalars: a use in the body must not be reached by a definition of a previous iteration
        carried = []
        for n in cfg.stmt_nodes():
            if n.id not in body_nodes:
                continue
            part = n.stmt.test if n.kind in ("if", "while") else n.stmt.iter if n.kind == "for" else n.stmt
            used = {x.id for x in ast.walk(part) if isinstance(x, ast.Name) and isinstance(x.ctx, ast.Load)}
            if isinstance(n.stmt, ast.AugAssign) and isinstance(n.stmt.target, ast.Name):
                used.add(n.stmt.target.id)
            for u in used:
                defs = rd.reaching(n, u)
                inner_defs = [d for d in defs if d.id in body_nodes]
                if not inner_defs:
                    continue
                # is there a path head -> n that avoids every body definition of u ?  then a previous iteration's value arrives
                avoid = {d.id for d in cfg.stmt_nodes() if d.id in body_nodes and u in rd.gen[d.id]} - ({n.id} if not isinstance(n.stmt, ast.AugAssign) else set())
                avoid -= {n.id}
                entry = [s_ for s_, lab in head.succ if lab == "body"]
                if not entry:
                    continue
                reach = {entry[0].id} | cfg.reachable_from(entry[0], avoid=avoid | {head.id}) if entry[0].id not in avoid else set()
                if n.id in reach:
                    # allowed: iteration-local counters of inner loops are (re)initialised before use -> they would be in `avoid`
                    carried.append((u, n))
        arrays_outside = set()
        for st in ast.walk(k.node):
            if isinstance(st, ast.Assign) and isinstance(st.targets[0], ast.Name) and isinstance(st.value, ast.Call) and not any(x is st for x in ast.walk(pix)):
                if ast.unparse(st.value.func).split(".")[-1] in ("zeros", "ones", "empty", "full", "full_like", "zeros_like"):
                    arrays_outside.add(st.targets[0].id)
        scratch_bad = []
        results = {n.value.id for n in ast.walk(k.node) if isinstance(n, ast.Return) and isinstance(n.value, ast.Name)}
        for n in ast.walk(k.node):
            if isinstance(n, ast.Return) and isinstance(n.value, ast.Tuple):
                results |= {e.id for e in n.value.elts if isinstance(e, ast.Name)}
        for a in sorted(arrays_outside - results):
            # first touch in the body must be a full overwrite
            first = None
            for st in pix.body:
                touches = [x for x in ast.walk(st) if isinstance(x, ast.Name) and x.id == a]
                if touches:
                    first = st
                    break
            if first is None:
                continue
            full = False
            if isinstance(first, ast.Assign) and isinstance(first.targets[0], ast.Subscript) and ast.unparse(first.targets[0]) in (f"{a}[:]",):
                full = True
            if isinstance(first, ast.For) and isinstance(first.iter, ast.Call) and ast.unparse(first.iter.func) == "range" and len(first.iter.args) == 1:
                iv = first.target.id
                def writes_all(stmts) -> bool:
                    for s_ in stmts:
                        if isinstance(s_, ast.Assign) and ast.unparse(s_.targets[0]) == f"{a}[{iv}]":
                            return True
                        if isinstance(s_, ast.If) and s_.orelse and writes_all(s_.body) and writes_all(s_.orelse):
                            return True
                    return False
                reads_before = False
                full = writes_all(first.body) and not reads_before
            # arrays that are accumulators reset per iteration (sums[:] = 0) count as full overwrite
            if not full:
                scratch_bad.append((a, first))
        ok = not carried and not scratch_bad
        det = ""
        if carried:
            u, n = carried[0]
            det = f"`{u}` used in `{norm_stmt(n.stmt)}` (line {n.line}) can still hold the value of the previous pixel"
        elif scratch_bad:
            a, st = scratch_bad[0]
            det = f"scratch array `{a}` is first touched by `{norm_stmt(st)}` which does not overwrite it completely: data of the previous pixel leaks"
        rep.ob("R-LOOPCARRY", k.file, name, "nothing is carried from one pixel (time step) to the next", ok, det, pix)

    # ---------------------------------------------------------------- layout independence of the compiled inner loops
    from ..rules import nb_layout
    rep.floor("gufunc kernels checked for declared layouts", nb_layout(rep, kernels, rule="R-LAYOUT"), 14)
    # ---------------------------------------------------------------- 5. R-PRANGE
    from ..rules import prange_rule
    rep.floor("parallel kernels", prange_rule(rep, kernels, "R-PRANGE"), 1)

    # ---------------------------------------------------------------- 6. R-PUBLISH
    lz = repo.func("hdc.algo.ops._helper", "lazycompile")
    # roles are found by structure, not by name: the decorator factory's parameter, the decorating closure and its parameter (the kernel source),
    # the innermost closure with a `nonlocal` cell (the call wrapper) and its *args / **kwargs
    deco_param = lz.args.args[0].arg if lz.args.args else None
    inner = [n for n in ast.walk(lz) if isinstance(n, ast.FunctionDef) and n is not lz and any(isinstance(x, ast.Nonlocal) for x in n.body)]
    if len(inner) != 1 or deco_param is None:
        raise AnalysisError("missing anchor: call wrapper with a nonlocal cell inside lazycompile")
    wr = inner[0]
    mids = [n for n in ast.walk(lz) if isinstance(n, ast.FunctionDef) and n is not lz and n is not wr and any(x is wr for x in ast.walk(n))]
    src_param = mids[0].args.args[0].arg if mids and mids[0].args.args else None
    va = wr.args.vararg.arg if wr.args.vararg else None
    kwa = wr.args.kwarg.arg if wr.args.kwarg else None
    nl = [n for n in ast.walk(wr) if isinstance(n, ast.Nonlocal)]
    cell = nl[0].names[0] if nl and len(nl[0].names) == 1 else None
    assigns = [st for st in ast.walk(wr) if isinstance(st, ast.Assign) and any(isinstance(t, ast.Name) and t.id == cell for t in st.targets)]
    okp = cell is not None and len(assigns) == 1 and norm_stmt(assigns[0].value) == f"{deco_param}({src_param})"
    rep.ob("R-PUBLISH", HFILE, "lazycompile", "the shared cell is assigned exactly once per fill, with the completed result of internal_decorator(f)", okp,
           f"assignments to the cell `{cell}`: {[norm_stmt(a) for a in assigns]}", assigns[0] if assigns else "inner_decorated = internal_decorator(f)")
    cfgw = CFG(wr)
    okg = False
    if assigns:
        an = cfgw.node_of(assigns[0])
        g = [(norm_stmt(gn.stmt.test), arm) for gn, arm in cfgw.guards_of(an)]
        okg = g == [(f"{cell} is None", True)]
    rep.ob("R-PUBLISH", HFILE, "lazycompile", "the cell is filled only while it is empty and never reset", okg and not any(
        isinstance(a.value, ast.Constant) and a.value.value is None for a in assigns), f"guards of the fill", "if inner_decorated is None")
    ret = [n for n in ast.walk(wr) if isinstance(n, ast.Return)]
    okc = len(ret) == 1 and isinstance(ret[0].value, ast.Call) and ast.unparse(ret[0].value.func) == cell and norm_stmt(ret[0].value) == f"{cell}(*{va}, **{kwa})" and not wr.args.args and not wr.args.kwonlyargs
    rep.ob("R-PUBLISH", HFILE, "lazycompile", "the call goes through the filled cell with the caller's arguments", okc, f"{[norm_stmt(r) for r in ret]}",
           ret[0] if ret else "return inner_decorated(*args, **kwds)")
    outer_init = [st for st in ast.walk(lz) if isinstance(st, ast.Assign) and any(isinstance(t, ast.Name) and t.id == cell for t in st.targets)
                  and not any(x is st for x in ast.walk(wr))]
    rep.ob("R-PUBLISH", HFILE, "lazycompile", "each decorated function owns its own cell, initialised empty", len(outer_init) == 1 and
           isinstance(outer_init[0].value, ast.Constant) and outer_init[0].value.value is None, f"{[norm_stmt(a) for a in outer_init]}",
           outer_init[0] if outer_init else "inner_decorated = None")
    wraps = any(isinstance(d, ast.Call) and ast.unparse(d.func) in ("wraps", "functools.wraps") and [ast.unparse(a_) for a_ in d.args] == [src_param]
                for d in wr.decorator_list)
    rep.ob("R-PUBLISH", HFILE, "lazycompile", "the undecorated source stays reachable as __wrapped__ (functools.wraps)", wraps, "", "@wraps(f)")
    lazy = [k for k in kernels.values() if k.lazy]
    rep.floor("lazily compiled kernels", len(lazy), 18)
    rep.floor("C12 obligations", len(rep.obls), 150)
    return rep

"""C13 — compiled kernels compute what their Python source says (divergence classes only).

Taken whole this is a differential property; the check decides the *absence of the four
enumerated classes* where Numba's semantics are known to differ from the interpreter's
NumPy semantics, read off Numba's typed IR (type inference only) and the syntax tree:

  NB-PROMOTE  integer arithmetic whose operands are both narrower than 64 bit (Numba
              computes in int64, NumPy scalars wrap), or narrow-int (.) integer literal
  NB-UNIFY    a variable whose SSA versions have different numeric types and which is
              used in arithmetic (the interpreter keeps the narrow type on that path)
  R-DIVGUARD  scalar division by zero (Numba raises; NumPy scalars give inf/nan)
  R-VENDOR    the vendored scipy.special binding tables agree on C width and every
              special-function call binds the all-float64 overload
"""
from __future__ import annotations

import ast
from typing import Dict, List

from ..core import AnalysisError, Report, Repo
from ..kernels import load_kernels
from ..rules import divguard
from ..typedir import typed_facts

NARROW_INT = {"int8", "int16", "int32", "uint8", "uint16", "uint32"}
NARROW = NARROW_INT | {"float32"}
INTS = NARROW_INT | {"int64", "uint64"}
ARITH = {"add", "sub", "mul", "floordiv", "mod", "pow", "lshift", "iadd", "isub", "imul", "ifloordiv", "imod", "ipow", "neg"}
SIG = "hdc.algo.vendor.numba_scipy.special.signatures"
SFILE = "hdc/algo/vendor/numba_scipy/special/signatures.py"
OVL = "hdc.algo.vendor.numba_scipy.special.overloads"
OFILE = "hdc/algo/vendor/numba_scipy/special/overloads.py"
SPECIAL = {"psi": "digamma", "digamma": "digamma", "gammainc": "gammainc", "ndtri": "ndtri", "gammaincc": "gammaincc",
           "erf": None}


def elem(t: str) -> str:
    if t.startswith("array("):
        return t[6:].split(",")[0]
    return t


def is_array(t: str) -> bool:
    return t.startswith("array(")


def src_line(repo: Repo, file: str, line: int) -> str:
    for m in repo.modules.values():
        if m.rel == file:
            ls = m.src.splitlines()
            if 0 < line <= len(ls):
                return " ".join(ls[line - 1].split())
    return f"line {line}"


def run(repo: Repo, tier: str) -> Report:
    rep = Report("C13")
    rep.decided = [
        "no narrow-integer arithmetic without an explicit widening (NB-PROMOTE), for every declared signature of every kernel",
        "no variable unified across numeric types and used in arithmetic (NB-UNIFY)",
        "every scalar division is guarded, bounded or contract-discharged (R-DIVGUARD)",
        "vendored special-function tables agree (double<->float64<->c_double ...) and all special calls bind float64 overloads (R-VENDOR)",
        "every declared gufunc signature passes Numba type inference",
    ]
    rep.declined = ["value equality to 1e-9 between compiled and interpreted runs", "typed-list / reflected-list behaviour",
                    "round() tie behaviour", "float32 accuracy", "any divergence class not enumerated above"]
    rep.trusted = ["CPython ast", "Numba's type inference is the one the real build uses (numba from /venv)",
                   "NumPy scalar promotion rules (NEP 50): narrow-int op narrow-int and narrow-int op Python-int stay narrow"]
    kernels = load_kernels(repo)
    rep.floor("kernel records", len(kernels), 35)
    facts = typed_facts(repo.root)
    ok_facts = [f for f in facts if f["ok"]]
    typed_kernels = {f["kernel"] for f in ok_facts}
    rep.analysed = {"kernels": len(kernels), "typed_records": len(ok_facts), "typed_kernels": len(typed_kernels),
                    "untyped_kernels": sorted(set(kernels) - typed_kernels)}
    if all(f["ok"] for f in facts):
        # (when a signature fails to type, its callees are not reached: the failure itself is the report)
        rep.floor("typed kernel x signature records", len(facts), 60)
        rep.floor("kernels reached by type inference", len({f["kernel"] for f in facts}), 33)
    # declared array ranks agree with the gufunc layout
    for k in kernels.values():
        if k.kind != "guvectorize":
            continue
        dims = k.in_dims + k.out_dims
        for si, sig in enumerate(k.sigs):
            for i, ((dt, nd), dm) in enumerate(zip(sig, dims)):
                want = len(dm) if i < len(k.in_dims) else max(1, len(dm))
                if nd != want:
                    rep.ob("NB-TYPES", k.file, k.name, f"declared rank of `{k.params[i]}` matches the layout", False,
                           f"signature #{si + 1} declares {dt} with {nd} dimension(s); layout `{k.layout}` gives it {want}",
                           f"{k.name}: {k.params[i]} {dt}[{nd}d] vs {dm}", line=k.node.lineno)

    for f in facts:
        k = kernels[f["kernel"]]
        if not f["ok"]:
            declared = f["origin"] == "declared" or f["origin"].startswith("call from")
            if declared:
                rep.ob("NB-TYPES", k.file, k.name, f"signature {tuple(f['args'])} passes type inference", False,
                       f"Numba type inference fails ({f['origin']}): {f['error'][:300]}", f"{k.name}{tuple(f['args'])}", line=k.node.lineno)
            else:
                rep.note(f"entry-table signature {k.name}{tuple(f['args'])} does not type: {f['error'][:160]}")
            continue
        rep.ob("NB-TYPES", k.file, k.name, f"signature ({', '.join(f['args'])}) passes type inference", True, "",
               f"{k.name}({', '.join(f['args'])})", line=k.node.lineno, kind=f["origin"])

    from ..rules import nb_layout, prange_rule
    nb_layout(rep, kernels)
    # parallel=True compiles the prange loop for concurrent execution: the compiled kernel computes what the (sequential) source says only if
    # the iterations do not share written state
    prange_rule(rep, kernels, "NB-PRANGE")
    # ---- NB-FLAGS: compile options that change floating-point or error semantics relative to the interpreter
    SAFE = {"nopython": {"True"}, "nogil": {"True", "False"}, "cache": {"True", "False"}, "parallel": {"True", "False"}}
    for k in kernels.values():
        bad = {o: v for o, v in k.options.items() if o not in SAFE or v not in SAFE[o]}
        par_ok = k.options.get("parallel") != "True" or k.name == "ws2doptvplc_tyx"
        rep.ob("NB-FLAGS", k.file, k.name, "the kernel is compiled without options that alter numeric or error semantics (fastmath, error_model, ...)",
               not bad and par_ok,
               f"decorator options {k.options}: " + ("fastmath lets LLVM reassociate/contract the one-pass sums (compiled != interpreted on ill-conditioned input); "
                                                      "error_model='numpy' changes division by zero" if bad else "unexpected parallel=True (reduction order)"),
               f"{k.name}: decorator options {sorted(k.options.items())}", line=k.node.lineno)
    # ---- NB-PROMOTE
    _weak: Dict[str, set] = {}

    def weak_ints(k) -> set:
        if k.name not in _weak:
            plain: Dict[str, list] = {}
            for st in ast.walk(k.node):
                if isinstance(st, ast.Assign):
                    for t in st.targets:
                        if isinstance(t, ast.Name):
                            plain.setdefault(t.id, []).append(st.value)
                        elif isinstance(t, ast.Tuple):
                            for e_ in t.elts:
                                if isinstance(e_, ast.Name):
                                    plain.setdefault(e_.id, []).append(None)
                elif isinstance(st, (ast.For, ast.comprehension)) and isinstance(st.target, ast.Name):
                    plain.setdefault(st.target.id, []).append(None)
            _weak[k.name] = {n for n, vs in plain.items() if vs and all(isinstance(v, ast.Constant) and type(v.value) is int for v in vs)} - set(k.params)
        return _weak[k.name]
    seen = set()
    n_arith = 0
    for f in ok_facts:
        k = kernels[f["kernel"]]
        for b in f["binops"] + f["inplace"]:
            if b["fn"] not in ARITH:
                continue
            n_arith += 1
            l, r = b["lhs"], b["rhs"]
            le, re_ = elem(l), elem(r)
            if le not in INTS or re_ not in INTS:
                continue
            bad = None
            if le in NARROW_INT and re_ in NARROW_INT and not (is_array(l) and is_array(r)):
                bad = f"{l} {b['fn']} {r}: Numba evaluates in int64, NumPy scalars in the narrow type (wraps)"
            elif le in NARROW_INT and not is_array(r) and b.get("rhs_lit"):
                bad = f"{l} {b['fn']} <int literal>: NumPy keeps {le} (weak Python int), Numba widens to int64"
            elif re_ in NARROW_INT and not is_array(l) and b.get("lhs_lit"):
                bad = f"<int literal> {b['fn']} {r}: NumPy keeps {re_} (weak Python int), Numba widens to int64"
            if bad is None:
                # an accumulator that only ever starts from an int literal is a weak Python int in the interpreter: the first `acc += a[i]` with a
                # narrow-integer element makes it that NumPy scalar type (and it wraps from then on), while Numba types it int64 throughout
                for wide, wv, nar, nt in ((l, b.get("lhs_var"), r, re_), (r, b.get("rhs_var"), l, le)):
                    base = (wv or "").split(".")[0].lstrip("$")
                    if nt in NARROW_INT and not is_array(nar) and not is_array(wide) and elem(wide) in ("int64", "uint64") and base and base in weak_ints(k):
                        bad = (f"`{base}` starts from an int literal and takes {nar} operands: NumPy makes it {nt} (wraps), Numba keeps int64 "
                               f"(initialise with a float or widen the operand explicitly)")
            if bad:
                key = (k.name, b["line"], b["fn"])
                if key in seen:
                    continue
                seen.add(key)
                rep.ob("NB-PROMOTE", k.file, k.name, f"narrow-integer `{b['fn']}` is widened explicitly", False,
                       bad + f" [signature ({', '.join(f['args'])})]", src_line(repo, k.file, b["line"]), line=b["line"])
    rep.ob("NB-PROMOTE", "hdc/algo/ops", "*", "all typed arithmetic operations inspected", True,
           f"{n_arith} typed arithmetic operations over {len(ok_facts)} records", "typed IR binop/inplace_binop", kind="summary")

    # ---- NB-UNIFY
    seen = set()
    for f in ok_facts:
        k = kernels[f["kernel"]]
        used_arith = set()
        for b in f["binops"] + f["inplace"]:
            if b["fn"] in ARITH or b["fn"] in ("truediv", "itruediv"):
                used_arith.add(b["lhs_var"])
                used_arith.add(b["rhs_var"])
        for var, tys in f["vars"].items():
            scal = [t for t in tys if not t.startswith("Literal") and (t in INTS or t in ("float32", "float64"))]
            if len(set(scal)) < 2:
                continue
            narrow = [t for t in scal if t in NARROW]
            if narrow and var in used_arith and (k.name, var) not in seen:
                seen.add((k.name, var))
                rep.ob("NB-UNIFY", k.file, k.name, f"variable `{var}` has one numeric type on all paths", False,
                       f"`{var}` is typed {sorted(set(scal))} across its definitions and is used in arithmetic: Numba converts at the "
                       f"merge, the interpreter keeps {narrow[0]} on that path (wraps / loses precision) "
                       f"[signature ({', '.join(f['args'])})]", f"{var} in {k.name}", line=k.node.lineno)
    rep.ob("NB-UNIFY", "hdc/algo/ops", "*", "all typed variables inspected", True,
           f"{sum(len(f['vars']) for f in ok_facts)} variables", "typed IR typemap", kind="summary")

    # ---- R-VENDOR
    sm = repo.mod(SIG)
    tables: Dict[str, Dict[str, str]] = {}
    for st in sm.tree.body:
        if isinstance(st, ast.Assign) and isinstance(st.targets[0], ast.Name) and isinstance(st.value, ast.Dict):
            tables[st.targets[0].id] = {ast.unparse(a).strip("'\""): ast.unparse(b) for a, b in zip(st.value.keys, st.value.values)}
    for need in ("CYTHON_TO_NUMBA", "NUMBA_TO_CTYPES"):
        if need not in tables:
            raise AnalysisError(f"missing anchor: table {need} in {SFILE}")
    want = {"double": ("numba.types.float64", "ctypes.c_double"), "float": ("numba.types.float32", "ctypes.c_float"),
            "long": ("numba.types.long_", "ctypes.c_long")}
    for cy, (nb, ct) in want.items():
        got_nb = tables["CYTHON_TO_NUMBA"].get(cy)
        got_ct = tables["NUMBA_TO_CTYPES"].get(got_nb or "")
        ok = got_nb == nb and got_ct == ct
        rep.ob("R-VENDOR", SFILE, "tables", f"C type `{cy}` maps to the same width in all tables", ok,
               f"CYTHON_TO_NUMBA[{cy!r}] = {got_nb}, NUMBA_TO_CTYPES[{got_nb}] = {got_ct}; required {nb} / {ct}",
               f"{cy}: {got_nb} / {got_ct}", line=sm.tree.body[0].lineno)
    extra = set(tables["CYTHON_TO_NUMBA"]) - set(want)
    rep.ob("R-VENDOR", SFILE, "tables", "no unreviewed C type in the binding table", not extra,
           f"unreviewed entries {sorted(extra)}", "CYTHON_TO_NUMBA keys")
    om = repo.mod(OVL)
    ck = om.functions().get("choose_kernel")
    if ck is None:
        raise AnalysisError(f"missing anchor: choose_kernel in {OFILE}")
    exact = any(isinstance(n, ast.Compare) and ast.unparse(n) == "args == signature" for n in ast.walk(ck))
    keyed = any(isinstance(n, ast.Subscript) and "name_and_types_to_pointer" in ast.unparse(n.value)
                and ast.unparse(n.slice) == "(name, *signature)" for n in ast.walk(ck))
    rep.ob("R-VENDOR", OFILE, "choose_kernel", "overload is chosen by exact argument-type match and bound to the pointer of that signature",
           exact and keyed, "choose_kernel no longer matches `args == signature` / indexes the pointer by (name, *signature)", ck.name)
    n_special = 0
    sites = set()
    for f in ok_facts:
        k = kernels[f["kernel"]]
        for c in f["calls"]:
            nm = c["callee"].split(":")[-1]
            if nm in SPECIAL and SPECIAL[nm] is not None:
                n_special += 1
                sites.add((k.name, nm))      # per (kernel, function): merging two statements into one expression is not a lost site
                argok = c["args"] is not None and all("float64" in a and "float32" not in a for a in c["args"])
                ok = argok and c["ret"] == "float64"
                rep.ob("R-VENDOR", k.file, k.name, f"scipy.special.{SPECIAL[nm]} binds the all-float64 overload", ok,
                       f"call typed {c['args']} -> {c['ret']} [signature ({', '.join(f['args'])})]",
                       src_line(repo, k.file, c["line"]), line=c["line"])
    if all(f["ok"] for f in facts):
        rep.floor("scipy.special call sites (typed)", len(sites), 4)

    # ---- R-DIVGUARD (scalar flavour)
    divs = divguard(rep, repo, kernels, flavours=("scalar",))
    rep.floor("divisions classified", len(divs), 60)
    rep.floor("scalar division obligations", sum(1 for o in rep.obls if o.rule == "R-DIVGUARD"), 25)
    return rep


def thorough(repo: Repo, rep: Report):
    """Cross-check of the AST array-ness approximation (used by R-DIVGUARD / E5) against Numba's typed IR."""
    from ..thorough import crosscheck_arrays
    kernels = load_kernels(repo)
    return {"arrays_ast_vs_typed_ir": crosscheck_arrays(repo, kernels, None)}

"""C18 — run-length statistics equal the longest / current run of ones.

R-NARROW on the store of the run length (typed IR), run-logic descriptor of ``lroo``,
descriptor of the xarray expression chain of ``croo``, R-BIND / R-DTYPE-DECL of the site.
"""
from __future__ import annotations

import ast
from typing import Dict, List

from ..core import AnalysisError, Report, Repo, norm_stmt
from ..divs import DivAnalysis, guard_atoms
from ..kernels import kernel, load_kernels
from ..poly import Normaliser, Rat, cmp_key, parse_expr
from ..rules import array_params_of, r_bind
from ..sites import const_list, load_sites
from ..typedir import typed_facts

FILE = "hdc/algo/ops/lroo.py"
AFILE = "hdc/algo/accessors.py"
BITS = {"uint8": 8, "int8": 7, "uint16": 16, "int16": 15, "uint32": 32, "int32": 31, "int64": 63, "uint64": 64}
MAX_LEN_BITS = 16  # a time axis of 1000 steps (property quantifier) needs > 8 bits; 16 bits hold 65535


def run(repo: Repo, tier: str) -> Report:
    rep = Report("C18")
    rep.decided = [
        "the stored run length (bounded only by the series length) fits the output element type (R-NARROW, typed IR)",
        "lroo run logic: positions of cells == 1, gap == 1 extends the run and updates the maximum, anything else resets to 1, result mr if mr > 1 else 0",
        "croo: sort by time descending, keep == 1, cumulative sum without NaN skipping, nulls -> 0, argmax + latest value",
        "site binding and declared dtype == written dtype",
    ]
    rep.declined = ["equality with a brute-force run counter on all binary series (needs execution)"]
    rep.trusted = ["CPython ast", "Numba type inference", "xarray sortby/where/cumsum/argmax/isel semantics", "np.where returns ascending positions"]
    kernels = load_kernels(repo)
    k = kernel(kernels, "lroo")
    data, out = k.params
    da = DivAnalysis(k.node, FILE, array_params_of(k))
    cfg = da.cfg

    def ob(rule, role, ok, detail="", stmt=None, kind="", line=0, fn="lroo", file=FILE):
        rep.ob(rule, file, fn, role, ok, detail, stmt if stmt is not None else role, kind=kind, line=line)

    # ---- R-NARROW via typed IR
    facts = [f for f in typed_facts(repo.root, ["lroo"]) if f["kernel"] == "lroo"]
    rep.floor("typed lroo signatures", len(facts), 1)
    stores = 0
    for f in facts:
        if not f["ok"]:
            ob("NB-TYPES", f"signature {f['args']} types", False, f["error"][:200], f"lroo{tuple(f['args'])}")
            continue
        for s in f["setitems"]:
            if s["target"] != out:
                continue
            stores += 1
            lit = s["value_type"].startswith("Literal")
            src = None
            cands = [n.stmt for n in cfg.stmt_nodes() if n.kind == "stmt" and n.stmt.lineno == s["line"] and isinstance(n.stmt, ast.Assign)
                     and isinstance(n.stmt.targets[0], ast.Subscript) and ast.unparse(n.stmt.targets[0].value) == out]
            # several syntactic stores may share the line (a conditional expression split into arms): take the one whose value kind matches
            for c_ in cands:
                if isinstance(c_.value, ast.Constant) == lit:
                    src = c_
            if src is None and cands:
                src = cands[-1]
            if lit:
                ob("R-NARROW", "constant stored into the output fits", True, s["value_type"], src, line=s["line"], kind="literal")
                continue
            bits = BITS.get(s["target_dtype"], 0)
            ok = bits >= MAX_LEN_BITS
            ob("R-NARROW", "run length (up to the series length) fits the output element type", ok,
               f"{s['value_dtype']} value bounded only by the series length is stored into {s['target_dtype']} ({2 ** bits - 1 if bits else '?'} max): "
               f"a run of 256 ones wraps to 0, 300 ones to 44", src, line=s["line"], kind=f"{s['target_dtype']} <- {s['value_dtype']}")
    rep.floor("stores into the lroo output (typed)", stores, 2)

    # ---- run logic
    env: Dict[str, ast.AST] = {}
    for st in k.node.body:
        if isinstance(st, ast.Assign) and isinstance(st.targets[0], ast.Name):
            env[st.targets[0].id] = st
    loop = [n for n in cfg.nodes if n.kind == "for"]
    if len(loop) != 1:
        raise AnalysisError("unsupported construct: lroo must have one loop")
    loop = loop[0].stmt
    ix = loop.target.id
    # positions of ones
    dots = None
    for nm, st in env.items():
        v = ast.unparse(st.value)
        if "where" in v:
            dots = nm
            okd = norm_stmt(st.value) in (f"np.where({data}.flatten() == 1)[0]", f"np.where({data} == 1)[0]", f"np.flatnonzero({data} == 1)")
            ob("R-FORMULA", "candidate positions are exactly the cells equal to 1", okd, f"code: {v}", st)
    if dots is None:
        raise AnalysisError("missing anchor: positions of ones (np.where(... == 1)[0]) in lroo")
    okr = isinstance(loop.iter, ast.Call) and [ast.unparse(a) for a in loop.iter.args] in ([ "1", f"{dots}.size"], ["1", f"len({dots})"])
    ob("R-COVER", "every consecutive pair of positions is visited", okr, f"loop: {norm_stmt(loop)}", loop)
    # counters: identify cr (reset to 1) and mr (result)
    results = [n for n in cfg.stmt_nodes() if n.kind == "stmt" and isinstance(n.stmt, ast.Assign) and isinstance(n.stmt.targets[0], ast.Subscript)
               and isinstance(n.stmt.targets[0].value, ast.Name) and n.stmt.targets[0].value.id == out]
    mr = None
    for n in results:
        if isinstance(n.stmt.value, ast.Name):
            mr = n.stmt.value.id
            atoms = guard_atoms(da, n, resolved=False)
            ob("R-FORMULA", "a run counts only with at least two members (result = mr when mr > 1)", atoms == [cmp_key(ast.Gt(), Rat.atom(mr), Rat.const(1))],
               f"guards of the store: {atoms}", n.stmt)
        else:
            ob("R-FORMULA", "otherwise the result is 0", isinstance(n.stmt.value, ast.Constant) and n.stmt.value.value == 0
               and ast.unparse(n.stmt.targets[0].slice) == "0", f"code: {norm_stmt(n.stmt)}", n.stmt)
    if mr is None:
        raise AnalysisError("missing anchor: store of the maximal run into out[0]")
    upd = [n for n in cfg.stmt_nodes() if n.kind == "stmt" and isinstance(n.stmt, ast.Assign) and isinstance(n.stmt.targets[0], ast.Name)
           and n.stmt.targets[0].id == mr and n.stmt in list(ast.walk(loop))]
    if len(upd) != 1 or not isinstance(upd[0].stmt.value, ast.Name):
        raise AnalysisError("unsupported construct: update of the maximal run in lroo")
    cr = upd[0].stmt.value.id
    init_ok = isinstance(env.get(cr), ast.Assign) and ast.unparse(env[cr].value) == "1" and isinstance(env.get(mr), ast.Assign) \
        and ast.unparse(env[mr].value) == "0"
    ob("R-FORMULA", "current run starts at 1, maximum at 0", init_ok, f"{cr} = {ast.unparse(env[cr].value) if cr in env else None}, "
       f"{mr} = {ast.unparse(env[mr].value) if mr in env else None}", f"{cr} = 1; {mr} = 0")
    # gap
    gapv = None
    for n in cfg.stmt_nodes():
        st = n.stmt
        if n.kind == "stmt" and isinstance(st, ast.Assign) and isinstance(st.targets[0], ast.Name) and st in list(ast.walk(loop)) \
                and isinstance(st.value, ast.BinOp):
            r = Normaliser().norm(st.value)
            want = Normaliser().norm(parse_expr(f"{dots}[{ix}] - {dots}[{ix} - 1]"))
            if dots in ast.unparse(st.value):
                gapv = st.targets[0].id
                ob("R-FORMULA", "gap = distance between consecutive positions of ones", r.equals(want), f"code: {norm_stmt(st)}", st)
    ext = [n for n in cfg.stmt_nodes() if n.kind == "stmt" and isinstance(n.stmt, ast.AugAssign) and isinstance(n.stmt.target, ast.Name)
           and n.stmt.target.id == cr]
    okx = False
    det = "no increment of the current run"
    if len(ext) == 1:
        atoms = guard_atoms(da, ext[0], resolved=True)
        want = cmp_key(ast.Eq(), Normaliser().norm(parse_expr(f"{dots}[{ix}] - {dots}[{ix} - 1]")), Rat.const(1))
        okx = atoms == [want] and ast.unparse(ext[0].stmt.value) == "1" and isinstance(ext[0].stmt.op, ast.Add)
        det = f"guards {atoms}; required {want}; increment {ast.unparse(ext[0].stmt.value)}"
    ob("R-FORMULA", "the run is extended by 1 exactly when the gap is 1", okx, det, ext[0].stmt if ext else "cr += 1")
    atoms = guard_atoms(da, upd[0], resolved=False)
    okm = cmp_key(ast.Gt(), Rat.atom(cr), Rat.atom(mr)) in atoms or cmp_key(ast.GtE(), Rat.atom(cr), Rat.atom(mr)) in atoms
    # the maximum must be updated after the increment, inside the extension arm
    okm = okm and ext and ext[0].stmt.lineno < upd[0].stmt.lineno and \
        [a for a in guard_atoms(da, upd[0], resolved=True) if "dots" in a or dots in a] == \
        [a for a in guard_atoms(da, ext[0], resolved=True)]
    ob("R-FORMULA", "the maximum follows the current run after each extension", bool(okm), f"guards {atoms}", upd[0].stmt)
    resets = [n for n in cfg.stmt_nodes() if n.kind == "stmt" and isinstance(n.stmt, ast.Assign) and isinstance(n.stmt.targets[0], ast.Name)
              and n.stmt.targets[0].id == cr and n.stmt in list(ast.walk(loop))]
    okrs = len(resets) == 1 and ast.unparse(resets[0].stmt.value) == "1"
    if okrs and ext:
        from ..divs import negate_key
        a1 = guard_atoms(da, resets[0], resolved=True)
        a2 = guard_atoms(da, ext[0], resolved=True)
        okrs = len(a1) == 1 and len(a2) == 1 and a1[0] == negate_key(a2[0])
    ob("R-FORMULA", "any other gap restarts the run at 1", okrs, f"resets: {[norm_stmt(r.stmt) for r in resets]}",
       resets[0].stmt if resets else "cr = 1")

    from ..rules import no_early_exit
    from ..symb import StoreCollector
    no_early_exit(rep, StoreCollector(k.node, FILE, loop_atoms_by_name=True, strict=False).run(), FILE, "lroo", "scan over the positions of ones")
    # ---- croo
    m = repo.method("hdc.algo.accessors", "PixelAlgorithms", "croo")
    from ..rules import flatten_return
    flat = flatten_return(m)
    S_ = "self._obj.sortby('time', ascending=False)"
    T1 = f"{S_}.where({S_} == 1).cumsum('time', skipna=False)"
    T2 = f"{T1}.where(~{T1}.isnull(), 0).argmax('time')"
    R_ = f"{T2} + {S_}.isel(time=0)"
    stages = [("croo orders time steps newest first, whatever the stored order", S_),
              ("ones are accumulated until the first cell that is not 1 (cumsum without NaN skipping)", T1),
              ("the run length before that cell is the argmax after nulls -> 0", T2),
              ("the latest step itself is added (0 if it is not 1)", R_)]
    ret = [st for st in m.body if isinstance(st, ast.Return)]
    for role, want in stages:
        ob("R-FORMULA", role, flat is not None and want in flat, f"croo returns `{flat}`; required sub-expression `{want}`", want[-80:],
           fn="PixelAlgorithms.croo", file=AFILE)
    ob("R-FORMULA", "croo returns that sum", flat == R_ or flat == f"{S_}.isel(time=0) + {T2}", f"croo returns `{flat}`; required `{R_}`", ret[0] if ret else "return",
       fn="PixelAlgorithms.croo", file=AFILE)

    # ---- site
    sites = [s for s in load_sites(repo, kernels) if s.kernel == "lroo"]
    rep.floor("lroo call sites", len(sites), 1)
    s = sites[0]
    r_bind(rep, s, k)
    decl = const_list(s.opts.get("output_dtypes"))
    written = {sig[-1][0] for sig in k.sigs}
    rep.ob("R-DTYPE-DECL", AFILE, s.where(), "declared output dtype == dtype the kernel writes", decl is not None and set(decl) == written,
           f"output_dtypes = {decl}, kernel signature output = {sorted(written)}", "lroo output_dtypes", line=s.line)
    from ..rules import r_stateless
    r_stateless(rep, repo, [('PixelAlgorithms', 'croo'), ('PixelAlgorithms', 'lroo')])
    rep.floor("C18 obligations", len(rep.obls), 20)
    return rep

"""C14 — no kernel reads or writes outside its arrays on in-contract input; every output is written.

R-BOUNDS over every subscript of all 35 kernels (E5), interprocedural preconditions of
ws2d at its call sites, a frozen contract table for data-dependent indices, R-MUSTWRITE
for gufunc outputs and returned arrays.
"""
from __future__ import annotations

import ast
import re
from fractions import Fraction
from typing import Dict, List, Optional, Tuple

from ..bounds import Affine, BoundsWalker, LoopInfo, Prover, Sub
from ..cfg import CFG
from ..core import AnalysisError, Report, Repo, norm_stmt
from ..kernels import Kernel, load_kernels
from ..poly import Normaliser, Rat, Unsupported

LEVEL = "proof"

# ---- contract minimums (from the property statement), per kernel: size atom -> minimum -----------------------
SERIES2 = "series of length >= 2 for the smoothers"
MINS: Dict[str, Dict[str, int]] = {
    "ws2d": {"len0[y]": 2},
    "ws2dgu": {"len0[y]": 2}, "ws2dpgu": {"len0[y]": 2},
    "ws2doptv": {"len0[y]": 2, "len0[llas]": 2}, "ws2doptvp": {"len0[y]": 2, "len0[llas]": 2}, "_ws2doptvp": {"len0[y]": 2, "len0[llas]": 2},
    "ws2doptvplc": {"len0[y]": 2},
    "ws2dwcv": {"len0[y]": 2, "len0[llas]": 2}, "ws2dwcvp": {"len0[y]": 2, "len0[llas]": 2}, "_ws2dwcvp": {"len0[y]": 2, "len0[llas]": 2},
    "ws2doptvplc_tyx": {"len0[tyx]": 2, "len1[tyx]": 1, "len2[tyx]": 1},
    "tinterpolate": {"len0[template]": 4, "len0[x]": 1, "len0[template_out]": 1},
    "autocorr_1d_int": {"len0[data]": 3}, "autocorr_1d_float": {"len0[data]": 3},
    "autocorr": {"len0[x]": 1, "len1[x]": 1, "len2[x]": 3}, "autocorr_tyx": {"len0[tyx]": 3, "len1[tyx]": 1, "len2[tyx]": 1},
    "mk_score": {"len0[x]": 2}, "mk_variance_s": {"len0[x]": 2}, "mk_sens_slope": {"size[x]": 2},
    "gammastd_grp": {"len1[cal_indices]": 2},
    "rolling_sum": {"len0[xx]": 1},
}

# ---- data-dependent indices discharged by the kernel's contract: (kernel, array, index text) -> clause ----------
CONTRACT = {
    ("do_mean", "sums", "z_idx"): "zone ids within 0..num_zones-1 (zone nodata excluded by the dominating test)",
    ("do_mean", "counts", "z_idx"): "zone ids within 0..num_zones-1 (zone nodata excluded by the dominating test)",
    ("do_mean", "z_pixels", "rw"): "the zone raster has the grid of the pixel cube (accessor passes zones.data of the same y/x)",
    ("do_mean", "z_pixels", "cl"): "the zone raster has the grid of the pixel cube (accessor passes zones.data of the same y/x)",
    ("gammastd_grp", "cal_indices", "grp"): "cal_indices has one row per group: the accessor builds it with the same num_groups",
    ("tinterpolate", "x", "jj"): "as many marks in the template as observations (guarded counter of non-zero template cells)",
    ("tinterpolate", "out", "kk"): "contiguous daily labels: number of label changes + 1 == number of unique labels == len(out) (guarded counter)",
    ("ws2dwcv", "robust_gcv", "1"): "append-counter: read only in robust passes it > 1 / after 4 robust passes (>= 2 entries appended)",
    ("ws2dwcvp", "robust_gcv", "1"): "append-counter: read only in robust passes it > 1 / after 4 robust passes (>= 2 entries appended)",
    ("_ws2dwcvp", "robust_gcv", "1"): "append-counter: read only in robust passes it > 1 / after 4 robust passes (>= 2 entries appended)",
    ("ws2dwcv", "robust_gcv", "0"): "append-counter: at least one pass appends",
    ("ws2dwcvp", "robust_gcv", "0"): "append-counter: at least one pass appends",
    ("_ws2dwcvp", "robust_gcv", "0"): "append-counter: at least one pass appends",
    ("ws2dwcv", "robust_gcv[1]", "1"): "each entry is a (score, lambda) pair",
    ("ws2dwcvp", "robust_gcv[1]", "1"): "each entry is a (score, lambda) pair",
    ("_ws2dwcvp", "robust_gcv[1]", "1"): "each entry is a (score, lambda) pair",
}
MASK_CONTRACT = {
    ("gammastd_grp", "xx"): "len(groups) == len(time) (validated by the accessor): the mask built from groups has the length of the series",
    ("gammastd_grp", "yy"): "len(groups) == len(time) (validated by the accessor)",
    ("mean_grp", "xx"): "len(groups) == len(time) (validated by the accessor)",
    ("mean_grp", "yy"): "len(groups) == len(time) (validated by the accessor)",
}


# ---- preconditions of njit helpers (equal lengths), verified at every call site ----------------------------------
PRECOND = {
    "ws2d": [("len0[w]", "len0[y]")],
    "_ws2doptvp": [("len0[w]", "len0[y]")],
    "_ws2dwcvp": [("len0[w]", "len0[y]")],
}


def loop_counter_range(w: BoundsWalker, name: str, sub: Sub) -> Optional[Tuple[Rat, Rat, str]]:
    """Iteration-counter lemma: `name` is initialised to c0 before loop L and incremented by 1 exactly once per
    iteration of L (unconditionally, as a direct child of the loop body); inside L its value is c0 + iteration number."""
    defs = w.scalars.get(name, [])
    incs = [d for d in defs if d.aug]
    if len([d for d in defs]) == 0:
        return None
    # the loop that contains the use
    lp = sub.region
    chain = []
    r = lp
    while r is not None:
        if r.kind == "loop":
            chain.append(r)
        r = r.parent
    for L in chain:
        inc_here = [d for d in incs if d.region is L and not _extra_guards(d, L, w)]
        if len(inc_here) != 1:
            continue
        inc = inc_here[0]
        if not (inc.rhs - Rat.atom(name)).equals(Rat.const(1)):
            continue
        other = [d for d in incs if d is not inc and _inside(d.region, L)]
        resets = [d for d in defs if not d.aug and _inside(d.region, L)]
        if other or resets:
            continue
        init = [d for d in defs if not d.aug and d.seq < inc.seq and not _inside(d.region, L)]
        if not init:
            continue
        c0 = init[-1].rhs
        if c0.const_value() is None:
            continue
        # trip count of L
        if L.rng is not None:
            if len(L.rng) == 1:
                trip = L.rng[0]
            elif len(L.rng) == 2:
                trip = L.rng[1] - L.rng[0]
            else:
                continue
        else:
            shp = w.shape_of(L.node.iter)
            if not shp or shp[0] is None:
                continue
            trip = shp[0]
        trip = w.cz(trip)
        before = sub.seq < inc.seq
        lo = c0 if before else c0 + Rat.const(1)
        hi = c0 + trip - Rat.const(1) if before else c0 + trip
        return lo, hi, f"lemma:iter-counter ({name} = {c0.key()} + iteration of `{norm_stmt(L.node)}`)"
    return None


def pair_counter(w: BoundsWalker, name: str, sub: Sub) -> Optional[Tuple[Rat, str]]:
    """Pair-counter lemma: `name` starts at 0 before a nest `for o in range(a, b): for i in range(lo(o), hi):` and is incremented
    once per inner iteration (unconditionally, after the use).  Returns (total number of inner iterations, reason); inside the
    nest the counter is at most total - 1 before its increment."""
    defs = w.scalars.get(name, [])
    incs = [d for d in defs if d.aug]
    if len(incs) != 1:
        return None
    inc = incs[0]
    Lin = inc.region
    if Lin.kind != "loop" or Lin.parent is None or Lin.parent.kind != "loop" or _extra_guards(inc, Lin, w):
        return None
    Lout = Lin.parent
    if not (inc.rhs - Rat.atom(name)).equals(Rat.const(1)) or sub.region is not Lin or not sub.seq < inc.seq:
        return None
    init = [d for d in defs if not d.aug]
    if len(init) != 1 or not init[0].rhs.equals(Rat.const(0)) or _inside(init[0].region, Lout):
        return None
    if Lin.rng is None or Lout.rng is None or len(Lin.rng) != 2:
        return None
    o = Rat.atom(Lout.var)
    a, b = (Rat.const(0), Lout.rng[0]) if len(Lout.rng) == 1 else (Lout.rng[0], Lout.rng[1]) if len(Lout.rng) == 2 else (None, None)
    if a is None:
        return None
    trip_in = w.cz(Lin.rng[1] - Lin.rng[0])            # affine in o
    try:
        aff = Affine(trip_in)
    except ValueError:
        return None
    beta = aff.t.get(Lout.var, Fraction(0))
    alpha = trip_in - Rat.const(beta) * o
    a, b = w.cz(a), w.cz(b) - Rat.const(1)               # inclusive bounds of o
    cnt = b - a + Rat.const(1)
    total = cnt * alpha + Rat.const(beta) * (a + b) * cnt / Rat.const(2)
    return total, f"lemma:pair-counter (nest `{norm_stmt(Lout.node)}` / `{norm_stmt(Lin.node)}` runs {total.key()} times)"


def _inside(region, L) -> bool:
    r = region
    while r is not None:
        if r is L:
            return True
        r = r.parent
    return False


def _extra_guards(d, L, w) -> bool:
    """The definition sits under a branch inside L (not executed in every iteration)."""
    node = L.node
    for st in node.body:
        if st is d.stmt:
            return False
    return True


def plain_scalar_range(w: BoundsWalker, prover: Prover, name: str) -> Optional[Tuple[Rat, Rat, str]]:
    """Union of the bounds of the plain assignments to a loop-carried scalar (e.g. the arg-min index k)."""
    defs = w.scalars.get(name, [])
    if not defs or any(d.aug for d in defs):
        return None
    los, his = [], []
    for d in defs:
        loops = _loops_of_region(w, d.region)
        try:
            a = Affine(w.cz(d.rhs))
        except ValueError:
            return None
        lo_r, hi_r = _extreme(a, loops, True), _extreme(a, loops, False)
        if lo_r is None or hi_r is None:
            return None
        los.append(lo_r)
        his.append(hi_r)
    # pick the max upper / min lower when comparable (constants vs size expressions: keep all and require each proof)
    return los, his, f"value set of {len(defs)} assignment(s) to {name}"


def _loops_of_region(w: BoundsWalker, region) -> List[LoopInfo]:
    out = []
    r = region
    while r is not None:
        if r.kind == "loop" and r.node is not None and id(r.node) in w.loopinfo:
            out.append(w.loopinfo[id(r.node)])
        r = r.parent
    return list(reversed(out))


def _extreme(a: Affine, loops: List[LoopInfo], lower: bool) -> Optional[Rat]:
    r = a.rat()
    for lp in reversed(loops):
        try:
            aa = Affine(r)
        except ValueError:
            return None
        c = aa.t.get(lp.var)
        if not c:
            continue
        sub = lp.lo if (c > 0) == lower else lp.hi
        from ..props.c11 import _subst_atom
        r = _subst_atom(r, lp.var, sub)
    return r


def analyse_kernel(rep: Report, k: Kernel) -> Dict[str, int]:
    mins = MINS.get(k.name, {})
    w = BoundsWalker(k, mins)
    for a, b in PRECOND.get(k.name, []):
        w.canon[a] = b
    w.run()
    prover = Prover(w, {w.canon.get(a, a): v for a, v in mins.items()}, {})
    stats = {"subs": 0, "parts": 0, "affine": 0, "lemma": 0, "contract": 0, "slice": 0, "mask": 0, "full": 0, "wrapped": 0, "const": 0, "tuple": 0}
    for s in w.subs:
        stats["subs"] += 1
        shape = s.shape
        for i, p in enumerate(s.parts):
            stats["parts"] += 1
            role = f"{s.base}[{', '.join(q.text for q in s.parts)}] axis {i}"
            L = shape[i] if shape is not None and i < len(shape) else None

            def ob(ok, kind, detail=""):
                rep.ob("R-BOUNDS", k.file, k.name, role, ok, detail, s.stmt, line=s.node.lineno, kind=kind, store=s.store)
            if p.kind == "full":
                stats["full"] += 1
                ob(True, "full-slice")
                continue
            if p.kind == "slice":
                stats["slice"] += 1
                ob(True, "slice-clamped")
                continue
            if p.kind == "mask":
                stats["mask"] += 1
                # shape equality of mask and indexed axis
                ms = p.mshape
                ok = bool(ms) and L is not None and ms[0] is not None and w.cz(ms[0]).equals(w.cz(L))
                if ok:
                    ob(True, "mask: same length")
                elif (k.name, s.base) in MASK_CONTRACT:
                    stats["contract"] += 1
                    ob(True, "contract:" + MASK_CONTRACT[(k.name, s.base)])
                else:
                    ob(False, "mask", f"boolean mask of length {ms[0].key() if ms and ms[0] is not None else '?'} indexes an axis of length {L.key() if L is not None else '?'}")
                continue
            e = p.e
            if (k.name, s.base, p.text) in CONTRACT:
                stats["contract"] += 1
                ob(True, "contract:" + CONTRACT[(k.name, s.base, p.text)])
                continue
            if e is None or L is None:
                ob(False, "unknown", f"cannot bound index `{p.text}` against axis length {L.key() if L is not None else 'unknown'} of `{s.base}`")
                continue
            c = e.const_value()
            if c is not None and c < 0 and isinstance(_const_node(s.node, i), (ast.UnaryOp, ast.Constant)):
                # syntactic negative constant: in bounds iff len >= |c|
                okc = prover.nonneg(L + e, s.loops, s.facts) is not None
                stats["const"] += 1
                ob(okc, "negative-constant", "" if okc else f"axis length {L.key()} may be smaller than {-c}")
                continue
            ok, cert, wrapped = prover.in_bounds(e, L, s.loops, s.facts)
            if ok:
                stats["affine"] += 1
                if wrapped:
                    stats["wrapped"] += 1
                    rep.note(f"wrapped: {k.file}:{s.node.lineno} {k.name} {role} is in bounds only through negative wrap-around for the smallest contract sizes")
                ob(True, cert)
                continue
            # loop-carried scalars in the index
            loopvars = {n.target.id for n in ast.walk(k.node) if isinstance(n, ast.For) and isinstance(n.target, ast.Name)}
            atoms = [a for a in e.atoms() if a.isidentifier() and a not in loopvars]
            solved = False
            for a in atoms:
                lr = loop_counter_range(w, a, s)
                if lr is not None:
                    lo, hi, why = lr
                    from ..props.c11 import _subst_atom
                    try:
                        aff = Affine(e)
                    except ValueError:
                        break
                    coef = aff.t.get(a, Fraction(0))
                    e_lo = _subst_atom(e, a, lo if coef > 0 else hi)
                    e_hi = _subst_atom(e, a, hi if coef > 0 else lo)
                    ok1 = prover.nonneg(e_lo, s.loops, s.facts) is not None or prover.nonneg(e_lo + L, s.loops, s.facts) is not None
                    ok2 = prover.nonneg(L - Rat.const(1) - e_hi, s.loops, s.facts) is not None
                    if ok1 and ok2:
                        stats["lemma"] += 1
                        ob(True, why)
                        solved = True
                        break
                pr = plain_scalar_range(w, prover, a)
                if pr is not None:
                    los, his, why = pr
                    from ..props.c11 import _subst_atom
                    try:
                        aff = Affine(e)
                    except ValueError:
                        break
                    coef = aff.t.get(a, Fraction(0))
                    okall = True
                    for lo, hi in zip(los, his):
                        e_lo = _subst_atom(e, a, lo if coef > 0 else hi)
                        e_hi = _subst_atom(e, a, hi if coef > 0 else lo)
                        if not (prover.nonneg(e_lo, s.loops, s.facts) is not None and prover.nonneg(L - Rat.const(1) - e_hi, s.loops, s.facts) is not None):
                            okall = False
                    if okall:
                        stats["lemma"] += 1
                        ob(True, "lemma:value-set (" + why + ")")
                        solved = True
                        break
            if not solved and len(atoms) == 1 and e.equals(Rat.atom(atoms[0])):
                pc = pair_counter(w, atoms[0], s)
                if pc is not None and pc[0].equals(L):
                    stats["lemma"] += 1
                    ob(True, pc[1])
                    solved = True
            if solved:
                continue
            ob(False, "UNPROVED", f"index `{p.text}` = {e.key()} against axis length {L.key()}: {cert} "
               f"(loops {[ (lp.var, lp.lo.key(), lp.hi.key()) for lp in s.loops]}; facts {[(t, d.key()) for t, d in s.facts][:4]})")
    stats["_walker"] = (w, prover)
    return stats


# ---- preconditions at call sites -------------------------------------------------------------------------------
CALL_PRE = {
    # callee -> (list of (argA, argB) that must have equal length, list of (arg, minimum length, reason))
    "ws2d": ([(0, 2)], [(0, 2, "ws2d indexes rows 0, 1, m-1, m: series length >= 2")]),
    "_ws2doptvp": ([(0, 1)], [(0, 2, "series length >= 2"), (3, 2, "srange of at least two entries")]),
    "_ws2dwcvp": ([(0, 1)], [(0, 2, "series length >= 2"), (3, 2, "srange of at least two entries")]),
}


def call_preconditions(rep: Report, k: Kernel, w: BoundsWalker, prover: Prover) -> int:
    n = 0
    for c in w.callrecs:
        if c.callee not in CALL_PRE:
            continue
        eqs, mins = CALL_PRE[c.callee]
        n += 1
        for a, b in eqs:
            sa, sb = (c.shapes[a] if a < len(c.shapes) else None), (c.shapes[b] if b < len(c.shapes) else None)
            ok = bool(sa) and bool(sb) and sa[0] is not None and sb[0] is not None and sa[0].equals(sb[0])
            rep.ob("R-BOUNDS(call)", k.file, k.name, f"{c.callee}: arguments {a} and {b} have equal length", ok,
                   f"lengths {sa[0].key() if sa and sa[0] is not None else '?'} vs {sb[0].key() if sb and sb[0] is not None else '?'}", c.stmt,
                   line=c.node.lineno, kind="shape equality")
        for a, mn, why in mins:
            sa = c.shapes[a] if a < len(c.shapes) else None
            ok = bool(sa) and sa[0] is not None and prover.nonneg(sa[0] - Rat.const(mn), c.loops, c.facts) is not None
            rep.ob("R-BOUNDS(call)", k.file, k.name, f"{c.callee}: argument {a} has length >= {mn}", ok,
                   f"length {sa[0].key() if sa and sa[0] is not None else '?'} is not provably >= {mn} ({why})", c.stmt, line=c.node.lineno, kind="contract minimum")
    return n


# ---- R-MUSTWRITE ---------------------------------------------------------------------------------------------------
PARTITION_CONTRACT = {
    ("gammastd_grp", "yy"): "group ids lie within 0..num_groups-1, so the masks `groups == grp` partition the series",
    ("mean_grp", "yy"): "group ids lie within 0..num_groups-1, so the masks `groups == grp` partition the series",
}
COUNTER_CONTRACT = {
    ("tinterpolate", "out"): "contiguous labels: the run index visits 0..len(out)-1 exactly once (C20 descriptor: one store per finished run + final flush)",
}
INIT_CTORS = {"zeros", "ones", "full", "full_like", "zeros_like", "ones_like", "copy", "array", "arange"}


def init_rule(rep: Report, k: Kernel):
    """R-INIT: every local array is created by an initialising constructor, a copy or a computed expression; `np.empty`
    leaves heap content that an index reached before its store (e.g. a wrapped index at a boundary size) would read."""
    for st in ast.walk(k.node):
        if isinstance(st, ast.Assign) and isinstance(st.value, ast.Call):
            f = ast.unparse(st.value.func).split(".")[-1]
            if f in ("empty", "empty_like"):
                rep.ob("R-INIT", k.file, k.name, "local arrays are created initialised (results do not depend on previous heap content)", False,
                       f"`{norm_stmt(st)}` allocates without initialising: a cell read before it is written (boundary sizes, wrapped indices) "
                       f"makes repeated calls disagree", st)
    rep.ob("R-INIT", k.file, k.name, "no uninitialised allocation in the kernel", True, "", f"{k.name}: allocations", kind="summary") if not any(
        o.rule == "R-INIT" and o.function == k.name and not o.ok for o in rep.obls) else None


def must_write(rep: Report, k: Kernel, w: BoundsWalker):
    if k.kind != "guvectorize":
        # returned arrays must come from an initialising constructor or another kernel
        names = set()
        for n in ast.walk(k.node):
            if isinstance(n, ast.Return) and n.value is not None:
                for e in ([n.value] if not isinstance(n.value, ast.Tuple) else n.value.elts):
                    if isinstance(e, ast.Name) and e.id in w.arrays:
                        names.add(e.id)
        for nm in sorted(names):
            defs = [st for st in ast.walk(k.node) if isinstance(st, ast.Assign) and isinstance(st.targets[0], ast.Name) and st.targets[0].id == nm]
            bad = []
            for st in defs:
                v = st.value
                f = ast.unparse(v.func).split(".")[-1] if isinstance(v, ast.Call) else None
                if f == "empty" or (f is None and not isinstance(v, (ast.BinOp, ast.Subscript, ast.Name, ast.Compare, ast.UnaryOp))):
                    bad.append(st)
            rep.ob("R-MUSTWRITE", k.file, k.name, f"returned array `{nm}` is created by an initialising constructor or a computed expression", not bad,
                   f"`{norm_stmt(bad[0])}` leaves the array uninitialised" if bad else "", defs[0] if defs else nm)
        return
    cfg = CFG(k.node)
    dims = dict(zip(k.params, k.in_dims + k.out_dims))
    for O in k.outputs:
        scalar_slot = dims[O] == ()
        W = set()
        why = []
        for n in cfg.stmt_nodes():
            st = n.stmt
            if n.kind == "stmt" and isinstance(st, (ast.Assign, ast.AugAssign)):
                tg = st.targets if isinstance(st, ast.Assign) else []
                for t in tg:
                    for tt in (t.elts if isinstance(t, ast.Tuple) else [t]):
                        if isinstance(tt, ast.Subscript) and isinstance(tt.value, ast.Name) and tt.value.id == O:
                            sl = tt.slice
                            if isinstance(sl, ast.Slice) and sl.lower is None and sl.upper is None:
                                W.add(n.id)
                            elif scalar_slot and isinstance(sl, ast.Constant) and sl.value == 0:
                                W.add(n.id)
            if n.kind == "stmt" and isinstance(st, ast.Expr) and isinstance(st.value, ast.Call) and ast.unparse(st.value.func).split(".")[-1] == "round"                     and len(st.value.args) == 3 and ast.unparse(st.value.args[2]) == O:
                W.add(n.id)
            if n.kind == "for" and isinstance(st.iter, ast.Call) and ast.unparse(st.iter.func) == "range" and isinstance(st.target, ast.Name):
                g = st.target.id
                # every path through the body stores O[...] with an index/mask depending on the loop variable
                body_nodes = {x.id for x in cfg.stmt_nodes() if any(y is x.stmt for y in ast.walk(st)) and x is not n}
                stores = set()
                kind = None
                for x in cfg.stmt_nodes():
                    if x.id in body_nodes and x.kind == "stmt" and isinstance(x.stmt, ast.Assign):
                        for t in x.stmt.targets:
                            if isinstance(t, ast.Subscript) and isinstance(t.value, ast.Name) and t.value.id == O:
                                if isinstance(t.slice, ast.Name) and t.slice.id == g:
                                    stores.add(x.id)
                                    kind = "index"
                                elif isinstance(t.slice, ast.Name) and (k.name, O) in PARTITION_CONTRACT:
                                    stores.add(x.id)
                                    kind = "partition"
                if stores:
                    entry = [s_ for s_, lab in n.succ if lab == "body"]
                    if entry and (entry[0].id in stores or n.id not in cfg.reachable_from(entry[0], avoid=stores)):
                        if kind == "index":
                            full = len(st.iter.args) == 1 and _covers(w, st.iter.args[0], O)
                            if full:
                                W.add(n.id)
                        elif kind == "partition":
                            W.add(n.id)
                            why.append("contract:" + PARTITION_CONTRACT[(k.name, O)])
        if (k.name, O) in COUNTER_CONTRACT:
            # counter-indexed stores: at least one store after the scanning loop on every path (the flush) and one inside
            cs = [n.id for n in cfg.stmt_nodes() if n.kind == "stmt" and isinstance(n.stmt, ast.Assign) and isinstance(n.stmt.targets[0], ast.Subscript)
                  and isinstance(n.stmt.targets[0].value, ast.Name) and n.stmt.targets[0].value.id == O]
            top_level = [i for i in cs if cfg.nodes[i].stmt in k.node.body]
            W |= set(top_level)
            why.append("contract:" + COUNTER_CONTRACT[(k.name, O)])
        ok = bool(W) and cfg.must_pass(cfg.entry, W)
        rep.ob("R-MUSTWRITE", k.file, k.name, f"every path fully writes output `{O}`", ok,
               "" if ok else f"a path from entry to exit avoids every full write of `{O}` (full-write statements at lines {sorted(cfg.nodes[i].line for i in W)}): "
               f"the output keeps whatever the buffer held", f"{k.name}: writes of {O}", kind="; ".join(why) or "must-pass-through on the CFG")


def _covers(w: BoundsWalker, arg: ast.AST, O: str) -> bool:
    try:
        r = w.cz(w.N().norm(arg))
    except Unsupported:
        return False
    shp = w.shapes.get(O)
    return bool(shp) and shp[0] is not None and r.equals(shp[0])


def _const_node(node: ast.Subscript, i: int):
    sl = node.slice
    elems = sl.elts if isinstance(sl, ast.Tuple) else [sl]
    return elems[i]


def run(repo: Repo, tier: str) -> Report:
    rep = Report("C14")
    rep.decided = ["every subscript of every kernel is within [-len, len) under the kernel's contract (R-BOUNDS)",
                   "ws2d's precondition (equal lengths >= 2) holds at each of its call sites",
                   "every path through each gufunc fully writes every output; returned arrays are allocated by an initialising constructor (R-MUSTWRITE)"]
    rep.declined = []
    rep.trusted = ["CPython ast", "array arguments have the ranks the signatures declare", "Numba wraps negative indices (so -len <= e is in bounds)",
                   "the frozen contract table of this module (each entry names the contract clause it relies on)"]
    kernels = load_kernels(repo)
    rep.floor("kernel records", len(kernels), 35)
    tot: Dict[str, int] = {}
    ncalls = 0
    for name in sorted(kernels):
        if kernels[name].inlined:
            rep.note(f"{name}: helper not present in the reference tree, analysed inlined in its callers (sa/canon.py)")
            continue
        st = analyse_kernel(rep, kernels[name])
        w, prover = st.pop("_walker")
        ncalls += call_preconditions(rep, kernels[name], w, prover)
        must_write(rep, kernels[name], w)
        init_rule(rep, kernels[name])
        for k_, v in st.items():
            tot[k_] = tot.get(k_, 0) + v
    tot["helper_call_sites"] = ncalls
    rep.floor("ws2d / helper call sites checked", ncalls, 22)
    rep.floor("R-MUSTWRITE obligations", sum(1 for o in rep.obls if o.rule == "R-MUSTWRITE"), 30)
    rep.analysed = {"kernels": len(kernels), **tot}
    # a signature that declares `::1` makes the compiled inner loop index a strided argument as if it were packed: reads outside the series
    from ..rules import nb_layout
    nb_layout(rep, kernels, rule="R-LAYOUT")
    rep.floor("subscripts analysed", tot.get("subs", 0), 450)
    return rep


def thorough(repo: Repo, rep: Report):
    """Cross-check of the AST array-ness approximation (used by R-DIVGUARD / E5) against Numba's typed IR."""
    from ..thorough import crosscheck_arrays
    kernels = load_kernels(repo)
    return {"arrays_ast_vs_typed_ir": crosscheck_arrays(repo, kernels, None)}

"""C08 — SPI preserves ordering, never wraps, never crashes.

R-NARROW (the float64 -> int16 stores of the scaled index are range-restricted on every
path), raise-freedom and R-DIVGUARD over the nopython call graph of the two drivers,
unfittable-pixel arms return all-nodata, loop-invariance of (p0, alpha, beta) in the
per-cell expression (structural half of the monotone chain).
"""
from __future__ import annotations

import ast
from typing import Dict, List

from ..core import AnalysisError, Report, Repo, norm_stmt
from ..rules import divguard
from ..typedir import typed_facts
from .spi_common import FILE, SPI

INT16 = (-32768, 32767)


def clip_bounds(key: str):
    """Range restriction recognised in a normal-form key: min[max[E;lo];hi], max[min[E;hi];lo], clip[E;lo;hi]."""
    def num(s):
        try:
            return float(__import__("fractions").Fraction(s))
        except Exception:  # noqa: BLE001
            return None
    if key.startswith("min[max[") and key.endswith("]"):
        body = key[len("min[max["):-1]
        # E;lo];hi
        head, hi = body.rsplit(";", 1)
        if head.endswith("]"):
            e, lo = head[:-1].rsplit(";", 1)
            return e, num(lo), num(hi)
    if key.startswith("max[min[") and key.endswith("]"):
        body = key[len("max[min["):-1]
        head, lo = body.rsplit(";", 1)
        if head.endswith("]"):
            e, hi = head[:-1].rsplit(";", 1)
            return e, num(lo), num(hi)
    if key.startswith("clip[") and key.endswith("]"):
        parts = key[5:-1].rsplit(";", 2)
        if len(parts) == 3:
            return parts[0], num(parts[1]), num(parts[2])
    return None


def run(repo: Repo, tier: str) -> Report:
    rep = Report("C08")
    rep.decided = [
        "both stores of the scaled float64 index into int16 are preceded on every path by a restriction to the int16 range (R-NARROW; also maps +-inf to the range ends)",
        "no raise/assert and no unguarded scalar division in the nopython call graph of gammastd_yxt / gammastd_grp (one bad pixel cannot abort the array)",
        "unfittable pixels (no valid cell, > 90% zeros, no fit) return nodata in every cell; negative and nodata cells never reach gammainc",
        "p0, alpha, beta are invariant in the per-cell loop: nothing cell-dependent but x[ix] enters the index expression",
    ]
    rep.declined = ["monotonicity of SciPy's gammainc/ndtri at the float64 resolution limit", "behaviour of the Brent iteration's internal float differences (listed)"]
    rep.trusted = ["CPython ast", "Numba type inference", "composition of non-decreasing maps is non-decreasing (1 - p0 >= 0, beta > 0 under the dominating guards)"]
    spi = SPI(repo)
    nd = spi.nodata

    def ob(rule, fn, role, ok, detail="", stmt=None, kind="", line=0):
        rep.ob(rule, FILE, fn, role, ok, detail, stmt if stmt is not None else role, kind=kind, line=line)

    # ---- 1. R-NARROW: typed IR says which stores narrow; AST says whether the value was clipped
    facts = [f for f in typed_facts(repo.root, ["gammastd_grp", "gammastd_yxt"]) if f["kernel"] in ("gammastd_grp", "gammastd_yxt")]
    narrowing: Dict[tuple, dict] = {}
    for f in facts:
        if not f["ok"]:
            ob("NB-TYPES", f["kernel"], f"signature {f['args']} types", False, f["error"][:200], f"{f['kernel']}{tuple(f['args'])}")
            continue
        for s in f["setitems"]:
            if s["target_dtype"] == "int16" and s["value_dtype"] in ("float64", "float32") and s["value_type"].startswith("array"):
                narrowing[(f["kernel"], s["line"])] = s
    rep.floor("narrowing array stores float -> int16 (typed IR)", len(narrowing), 2)
    for (drv, line), s in sorted(narrowing.items()):
        d = spi.sc[drv]
        st = [x for x in d.stores if x.line == line]
        if not st:
            raise AnalysisError(f"typed store at {FILE}:{line} not found in the syntax tree")
        st = st[0]
        buf = st.rhs.key().split("[")[0]
        # every store that scales the buffer must be range-restricted to int16; or a whole-array clip precedes the narrowing store
        scales = [x for x in d.stores if x.arr == buf and x.seq < st.seq]
        whole = [c for c in d.calls if c.func == "clip" and c.seq < st.seq and c.args and c.args[0] == buf and len(c.args) >= 4 and c.args[3] == buf]
        whole += [x for x in d.arrays_assigned.get(buf, []) if x[0].key().startswith(f"clip[{buf};")]
        ok = bool(scales) or bool(whole)
        details = []
        if not whole:
            for x in scales:
                cb = clip_bounds(x.rhs.key())
                if cb is None:
                    if "1000" in x.rhs.key() or x.rhs.key() != nd:
                        ok = False
                        details.append(f"`{norm_stmt(x.stmt)}` (line {x.line}) is not range-restricted")
                    continue
                e, lo, hi = cb
                if lo is None or hi is None or lo < INT16[0] or hi > INT16[1]:
                    ok = False
                    details.append(f"`{norm_stmt(x.stmt)}` clips to [{lo}, {hi}], outside int16")
        if not scales and not whole:
            details.append("the stored buffer is never range-restricted")
        ob("R-NARROW", drv, "the scaled index is restricted to the int16 range before the narrowing store", ok,
           "; ".join(details) + (f" -> {s['value_type']} stored into {s['target_type']}: values beyond +-32767 (or +-inf) wrap to arbitrary numbers" if not ok else ""),
           st.stmt, line=line, kind=f"{s['target_dtype']} <- {s['value_dtype']}")

    # ---- 2. raise-freedom + divisions over the call graph
    graph = sorted(set(spi.callees("gammastd_yxt")) | set(spi.callees("gammastd_grp")))
    rep.analysed = {"call_graph": graph}
    rep.floor("functions in the SPI nopython call graph", len(graph), 5)
    for name in graph:
        k = spi.kernels[name]
        bad = [n for n in ast.walk(k.node) if isinstance(n, (ast.Raise, ast.Assert))]
        ob("R-NORAISE", name, "no raise / assert in nopython code reachable from the SPI drivers", not bad,
           f"`{norm_stmt(bad[0])}` aborts the whole array for one pixel" if bad else "", bad[0] if bad else f"{name}: raise/assert")
    divguard(rep, repo, spi.kernels, graph, flavours=("scalar",))
    rep.floor("SPI division obligations", sum(1 for o in rep.obls if o.rule == "R-DIVGUARD"), 5)

    # ---- 3. unfittable pixel => nodata everywhere
    sc = spi.sc["gammastd"]
    x = spi.x
    rets = [e for e in sc.exits if e.kind == "return" and e.value is not None]
    allnd = f"full_like[{x};{nd};dtype='float64']"
    early = [e for e in rets if e.value.key() == allnd]
    conds = {tuple(e.guards)[-1] if e.guards else "" for e in early}
    pz = f"gt0[(-9/10*{spi.valid} + {spi.zero})/({spi.valid})]"
    need = {f"eq0[{spi.valid}]": "no valid cell", pz: "more than 90% zeros"}
    for c, why in need.items():
        ob("R-FORMULA", "gammastd", f"{why}: every cell is nodata", c in conds, f"all-nodata returns under {sorted(conds)}; required one under {c}",
           f"return np.full_like(x, nodata) when {why}")
    nofit = [c for c in conds if c.startswith("or[eq0[") and c.count("eq0[") == 2]
    ob("R-FORMULA", "gammastd", "no fit (alpha == 0 or beta == 0): every cell is nodata", len(nofit) == 1, f"conditions {sorted(conds)}",
       "return np.full_like(x, nodata) when alpha == 0 or beta == 0")
    # drivers: all-nodata guards + only non-nodata cells are scaled (C07) ; all-nodata pixel short-circuits
    for drv in ("gammastd_yxt", "gammastd_grp"):
        d = spi.sc[drv]
        sent = [s for s in d.stores if s.rhs.key() == "nodata" and s.guards and s.guards[-1].startswith("eq0[sum[ne0[")]
        ob("R-FORMULA", drv, "an all-nodata pixel is written as nodata without calling the fit", len(sent) == 1,
           f"stores of nodata: {[norm_stmt(s.stmt) for s in d.stores if s.rhs.key() == 'nodata']}", sent[0].stmt if sent else f"{drv}: all-nodata store")
    # ---- 4. loop invariance in the cell loop
    cell = [s for s in sc.stores if s.region.kind == "loop" and s.arr not in spi.k["gammastd"].params]
    if not cell:
        raise AnalysisError("missing anchor: per-cell store in gammastd")
    loop = cell[-1].region.node
    ix = cell[-1].region.var
    assigned_in_loop = {n.id for n in ast.walk(loop) if isinstance(n, ast.Name) and isinstance(n.ctx, ast.Store)} - {ix}
    used = set()
    for s in cell:
        used |= {n.id for n in ast.walk(s.stmt.value) if isinstance(n, ast.Name)}
    dep = sorted(assigned_in_loop & used)
    ob("R-LOOPINV", "gammastd", "p0, alpha, beta are pixel constants: nothing assigned in the cell loop enters the index expression", not dep,
       f"names assigned inside the cell loop and used in the expression: {dep}", loop)
    final = cell[-1]
    atoms = {a for a in final.rhs.atoms()}
    # the only cell-dependent atom is x[ix]
    celldep = sorted(a for a in _flatten_atoms(final.rhs.key()) if f"[{ix}]" in a and not a.startswith(f"{x}[{ix}]"))
    ob("R-LOOPINV", "gammastd", "the only cell-dependent input of the index is the observation x[ix]", not celldep,
       f"other cell-dependent terms: {celldep}", f"cell dependence of {norm_stmt(final.stmt)}")
    rep.floor("C08 obligations", len(rep.obls), 20)
    return rep


def _flatten_atoms(key: str) -> List[str]:
    import re
    return re.findall(r"[A-Za-z_][A-Za-z_0-9]*\[[^\[\];]*\]", key)

"""C08 — SPI preserves ordering, never wraps, never crashes.

R-NARROW (the float64 -> int16 stores of the scaled index are range-restricted on every
path), raise-freedom and R-DIVGUARD over the nopython call graph of the two drivers,
unfittable-pixel arms return all-nodata, loop-invariance of (p0, alpha, beta) in the
per-cell expression (structural half of the monotone chain).
"""
from __future__ import annotations

import ast
from typing import Dict, List

from ..core import AnalysisError, Report, Repo, norm_stmt
from ..rules import divguard
from ..typedir import typed_facts
from .spi_common import FILE, SPI

INT16 = (-32768, 32767)


def clip_bounds(key: str):
    """Range restriction recognised in a normal-form key: min[max[E;lo];hi], max[min[E;hi];lo], clip[E;lo;hi]."""
    def num(s):
        try:
            return float(__import__("fractions").Fraction(s))
        except Exception:  # noqa: BLE001
            return None
    if key.startswith("min[max[") and key.endswith("]"):
        body = key[len("min[max["):-1]
        # E;lo];hi
        head, hi = body.rsplit(";", 1)
        if head.endswith("]"):
            e, lo = head[:-1].rsplit(";", 1)
            return e, num(lo), num(hi)
    if key.startswith("max[min[") and key.endswith("]"):
        body = key[len("max[min["):-1]
        head, lo = body.rsplit(";", 1)
        if head.endswith("]"):
            e, hi = head[:-1].rsplit(";", 1)
            return e, num(lo), num(hi)
    if key.startswith("clip[") and key.endswith("]"):
        parts = key[5:-1].rsplit(";", 2)
        if len(parts) == 3:
            return parts[0], num(parts[1]), num(parts[2])
    return None


def run(repo: Repo, tier: str) -> Report:
    rep = Report("C08")
    rep.decided = [
        "both stores of the scaled float64 index into int16 are preceded on every path by a restriction to the int16 range (R-NARROW; also maps +-inf to the range ends)",
        "no raise/assert and no unguarded scalar division in the nopython call graph of gammastd_yxt / gammastd_grp (one bad pixel cannot abort the array)",
        "unfittable pixels (no valid cell, > 90% zeros, no fit) return nodata in every cell; negative and nodata cells never reach gammainc",
        "p0, alpha, beta are invariant in the per-cell loop: nothing cell-dependent but x[ix] enters the index expression",
    ]
    rep.declined = ["monotonicity of SciPy's gammainc/ndtri at the float64 resolution limit", "behaviour of the Brent iteration's internal float differences (listed)"]
    rep.trusted = ["CPython ast", "Numba type inference", "composition of non-decreasing maps is non-decreasing (1 - p0 >= 0, beta > 0 under the dominating guards)"]
    spi = SPI(repo)
    nd = spi.nodata

    def ob(rule, fn, role, ok, detail="", stmt=None, kind="", line=0):
        rep.ob(rule, FILE, fn, role, ok, detail, stmt if stmt is not None else role, kind=kind, line=line)

    # ---- 1. R-NARROW: typed IR says which stores narrow; AST says whether the value was clipped
    facts = [f for f in typed_facts(repo.root, ["gammastd_grp", "gammastd_yxt"]) if f["kernel"] in ("gammastd_grp", "gammastd_yxt")]
    narrowing: Dict[tuple, dict] = {}
    scalar_narrow: Dict[tuple, dict] = {}
    fptoint: Dict[tuple, dict] = {}
    n_scalar = 0
    for f in facts:
        if not f["ok"]:
            ob("NB-TYPES", f["kernel"], f"signature {f['args']} types", False, f["error"][:200], f"{f['kernel']}{tuple(f['args'])}")
            continue
        for s in f["setitems"]:
            if s["target_dtype"] == "int16" and s["value_dtype"] in ("float64", "float32") and s["value_type"].startswith("array"):
                narrowing[(f["kernel"], s["line"])] = s
            elif s["target_dtype"] == "int16" and s["value_dtype"] != "int16" and not s["value_type"].startswith("array"):
                scalar_narrow[(f["kernel"], s["line"])] = s
        # float -> integer conversions inside the drivers: the machine conversion of +-inf / NaN / out-of-range is undefined
        for c in f["calls"]:
            if c["ret"].startswith(("int", "uint")) and any(a.startswith("float") for a in c["args"]) and c["callee"] in ("function:round", "function:int"):
                fptoint[(f["kernel"], c["line"])] = c
    for (drv, line), c in sorted(fptoint.items()):
        k = spi.kernels[drv]
        calls = [n for n in ast.walk(k.node) if isinstance(n, ast.Call) and n.lineno <= line <= (n.end_lineno or n.lineno)
                 and isinstance(n.func, ast.Name) and n.func.id in ("round", "int")]
        okc = bool(calls)
        det = ""
        for n in calls:
            from ..symb import StoreCollector  # noqa
            arg = ast.unparse(n.args[0]) if n.args else ""
            a0 = n.args[0] if n.args else None
            clamped = (isinstance(a0, ast.Call) and isinstance(a0.func, ast.Name) and a0.func.id in ("min", "max")
                       and any(isinstance(x, ast.Call) and isinstance(x.func, ast.Name) and x.func.id in ("min", "max") for x in a0.args))
            if not clamped:
                okc = False
                det = (f"`{ast.unparse(n)}` converts {c['args'][0]} to {c['ret']} before any range restriction: at +-inf (a CDF that rounds to 0 or 1) "
                       f"the conversion is undefined and yields INT64_MIN on x86, so the wettest observation gets the driest index")
        ob("R-NARROW", drv, "a float is converted to an integer only after it was restricted to a finite range", okc, det,
           calls[0] if calls else f"{drv}: float->int conversion", line=line, kind=f"{c['ret']} <- {c['args'][0]}")
    for (drv, line), s in sorted(scalar_narrow.items()):
        d = spi.sc[drv]
        st = [x for x in d.stores if x.line == line]
        if not st:
            raise AnalysisError(f"typed store at {FILE}:{line} not found in the syntax tree")
        st = st[0]
        if st.rhs.key() == nd:
            continue      # the caller's nodata value itself (contract: representable in the output type)
        cb = clip_bounds(st.rhs.key())
        okc = cb is not None and cb[1] is not None and cb[2] is not None and cb[1] >= INT16[0] and cb[2] <= INT16[1]
        n_scalar += 1
        ob("R-NARROW", drv, "the scaled index is restricted to the int16 range before the narrowing store", okc,
           f"`{norm_stmt(st.stmt)}` stores {s['value_type']} into {s['target_type']} " + (f"clipped to [{cb[1]}, {cb[2]}]" if cb else "without range restriction"),
           st.stmt, line=line, kind=f"{s['target_dtype']} <- {s['value_dtype']}")
    rep.floor("narrowing index stores -> int16 (typed IR)", len({k_ for k_, _ in narrowing}) + n_scalar, 2)
    for (drv, line), s in sorted(narrowing.items()):
        d = spi.sc[drv]
        st = [x for x in d.stores if x.line == line]
        if not st:
            raise AnalysisError(f"typed store at {FILE}:{line} not found in the syntax tree")
        st = st[0]
        buf = st.rhs.key().split("[")[0]
        # every store that scales the buffer must be range-restricted to int16; or a whole-array clip precedes the narrowing store
        scales = [x for x in d.stores if x.arr == buf and x.seq < st.seq]
        whole = [c for c in d.calls if c.func == "clip" and c.seq < st.seq and c.args and c.args[0] == buf and len(c.args) >= 4 and c.args[3] == buf]
        whole += [x for x in d.arrays_assigned.get(buf, []) if x[0].key().startswith(f"clip[{buf};")]
        ok = bool(scales) or bool(whole)
        details = []
        if not whole:
            for x in scales:
                cb = clip_bounds(x.rhs.key())
                if cb is None:
                    if "1000" in x.rhs.key() or x.rhs.key() != nd:
                        ok = False
                        details.append(f"`{norm_stmt(x.stmt)}` (line {x.line}) is not range-restricted")
                    continue
                e, lo, hi = cb
                if lo is None or hi is None or lo < INT16[0] or hi > INT16[1]:
                    ok = False
                    details.append(f"`{norm_stmt(x.stmt)}` clips to [{lo}, {hi}], outside int16")
        if not scales and not whole:
            details.append("the stored buffer is never range-restricted")
        ob("R-NARROW", drv, "the scaled index is restricted to the int16 range before the narrowing store", ok,
           "; ".join(details) + (f" -> {s['value_type']} stored into {s['target_type']}: values beyond +-32767 (or +-inf) wrap to arbitrary numbers" if not ok else ""),
           st.stmt, line=line, kind=f"{s['target_dtype']} <- {s['value_dtype']}")

    # ---- 2. raise-freedom + divisions over the call graph
    graph = sorted(set(spi.callees("gammastd_yxt")) | set(spi.callees("gammastd_grp")))
    rep.analysed = {"call_graph": graph}
    rep.floor("functions in the SPI nopython call graph", len(graph), 5)
    for name in graph:
        k = spi.kernels[name]
        bad = [n for n in ast.walk(k.node) if isinstance(n, (ast.Raise, ast.Assert))]
        ob("R-NORAISE", name, "no raise / assert in nopython code reachable from the SPI drivers", not bad,
           f"`{norm_stmt(bad[0])}` aborts the whole array for one pixel" if bad else "", bad[0] if bad else f"{name}: raise/assert")
    divguard(rep, repo, spi.kernels, graph, flavours=("scalar",))
    rep.floor("SPI division obligations", sum(1 for o in rep.obls if o.rule == "R-DIVGUARD"), 5)

    # ---- 3. unfittable pixel => nodata everywhere
    sc = spi.sc["gammastd"]
    x = spi.x
    rets = [e for e in sc.exits if e.kind == "return" and e.value is not None]
    allnd = f"full_like[{x};{nd};dtype='float64']"
    early = [e for e in rets if e.value.key() == allnd]
    conds = {tuple(e.guards)[-1] if e.guards else "" for e in early}
    pz = f"gt0[(-9/10*{spi.valid} + {spi.zero})/({spi.valid})]"
    need = {f"eq0[{spi.valid}]": "no valid cell", pz: "more than 90% zeros"}
    for c, why in need.items():
        ob("R-FORMULA", "gammastd", f"{why}: every cell is nodata", c in conds, f"all-nodata returns under {sorted(conds)}; required one under {c}",
           f"return np.full_like(x, nodata) when {why}")
    from .spi_common import threshold_rule
    threshold_rule(ob, spi)
    nofit = [c for c in conds if c.startswith("or[eq0[") and c.count("eq0[") == 2]
    ob("R-FORMULA", "gammastd", "no fit (alpha == 0 or beta == 0): every cell is nodata", len(nofit) == 1, f"conditions {sorted(conds)}",
       "return np.full_like(x, nodata) when alpha == 0 or beta == 0")
    # drivers: all-nodata guards + only non-nodata cells are scaled (C07) ; all-nodata pixel short-circuits
    for drv in ("gammastd_yxt", "gammastd_grp"):
        d = spi.sc[drv]
        sent = [s for s in d.stores if s.rhs.key() == "nodata" and s.guards and (s.guards[-1].startswith("eq0[sum[ne0[") or s.guards[-1].startswith("not[any[ne0["))]
        ob("R-FORMULA", drv, "an all-nodata pixel is written as nodata without calling the fit", len(sent) == 1,
           f"stores of nodata: {[norm_stmt(s.stmt) for s in d.stores if s.rhs.key() == 'nodata']}", sent[0].stmt if sent else f"{drv}: all-nodata store")
        # the sentinel survives the scaling: only cells of the *result* buffer that differ from nodata are multiplied by 1000 (a selection taken
        # from the input series also scales the nodata that gammastd returns for negative observations: -9999 * 1000 saturates to -32768)
        kp = spi.k[drv].params
        for sca in [s_ for s_ in d.stores if "1000" in s_.rhs.key() and s_.arr not in kp]:
            buf = sca.arr
            cell = f"{buf}[{sca.idx_key}]"
            sel_ok = (f"ne0[-1*{nd} + {cell}]" in sca.guards) or sca.idx_key == f"ne0[-1*{nd} + {buf}]"
            ob("R-NARROW", drv, "only cells of the index buffer that differ from nodata are scaled (the sentinel is never multiplied)", sel_ok,
               f"`{norm_stmt(sca.stmt)}` selects `{sca.idx_key}` under {list(sca.guards)}", sca.stmt)
    # every pixel / group iteration leaves a defined value in the output: either the output starts nodata-filled, or every path
    # through the iteration (including the one where the fit returns an all-nodata series) stores into it
    from ..cfg import CFG
    for drv in ("gammastd_yxt", "gammastd_grp"):
        k = spi.kernels[drv]
        cfg = CFG(k.node)
        out = k.outputs[0] if k.outputs else None
        if out is None:
            rets = [n.value.id for n in ast.walk(k.node) if isinstance(n, ast.Return) and isinstance(n.value, ast.Name)]
            out = rets[0] if rets else None
        if out is None:
            raise AnalysisError(f"missing anchor: output array of {drv}")
        prefilled = [st for st in ast.walk(k.node) if isinstance(st, ast.Assign) and isinstance(st.targets[0], ast.Name) and st.targets[0].id == out
                     and isinstance(st.value, ast.Call) and ast.unparse(st.value.func).split(".")[-1] in ("full_like", "full")
                     and any(ast.unparse(a) == nd for a in st.value.args[1:2])]
        loops = [n for n in cfg.nodes if n.kind == "for" and any(isinstance(c, ast.Call) and ast.unparse(c.func) == "gammastd" for c in ast.walk(n.stmt))]
        if not loops:
            raise AnalysisError(f"missing anchor: loop calling gammastd in {drv}")
        L = max(loops, key=lambda n: n.stmt.lineno)      # innermost
        W = set()
        for n in cfg.stmt_nodes():
            if n.kind == "stmt" and isinstance(n.stmt, ast.Assign) and any(n.stmt is x for x in ast.walk(L.stmt)):
                t = n.stmt.targets[0]
                if isinstance(t, ast.Subscript) and isinstance(t.value, ast.Name) and t.value.id == out:
                    W.add(n.id)
        first = [s_ for s_, lab in L.succ if lab == "body"]
        every = bool(first) and bool(W) and all(cfg.must_pass(f_, W, target=L) for f_ in first)
        ob("R-MUSTWRITE", drv, "every pixel/group iteration leaves a defined value in the output (unfittable ones: nodata)", bool(prefilled) or every,
           f"`{out}` is not created nodata-filled and a path through the iteration at line {L.line} (e.g. the fit returning an all-nodata series) stores nothing into it: "
           f"the cells keep whatever the buffer held", L.stmt, kind="nodata-prefilled" if prefilled else "must-pass-through per iteration")
    # ---- 4. loop invariance in the cell loop
    cell = [s for s in sc.stores if s.region.kind == "loop" and s.arr not in spi.k["gammastd"].params]
    if not cell:
        raise AnalysisError("missing anchor: per-cell store in gammastd")
    loop = cell[-1].region.node
    ix = cell[-1].region.var
    assigned_in_loop = {n.id for n in ast.walk(loop) if isinstance(n, ast.Name) and isinstance(n.ctx, ast.Store)} - {ix}
    used = set()
    for s in cell:
        used |= {n.id for n in ast.walk(s.stmt.value) if isinstance(n, ast.Name)}
    # a loop-local scalar that is itself a function of x[ix] and pixel constants only (val = x[ix]; cdf = gammainc(alpha, val / beta)) is not a
    # second cell-dependent input: resolve such temporaries through their single definition in the loop
    loop_defs = {}
    k_g = spi.k["gammastd"].node
    in_loop_ids = {id(n_) for n_ in ast.walk(loop)}
    assigned_outside = {n_.id for n_ in ast.walk(k_g) if isinstance(n_, ast.Name) and isinstance(n_.ctx, ast.Store) and id(n_) not in in_loop_ids} | set(spi.k["gammastd"].params)
    for st_ in ast.walk(loop):
        if isinstance(st_, ast.Assign) and len(st_.targets) == 1 and isinstance(st_.targets[0], ast.Name):
            loop_defs.setdefault(st_.targets[0].id, []).append(st_.value)

    def cell_function(name, seen=()):
        if name in seen or len(loop_defs.get(name, [])) != 1:
            return False
        v = loop_defs[name][0]
        if any(isinstance(n_, ast.Name) and n_.id == name for n_ in ast.walk(v)):
            return False      # loop-carried: the value of an earlier cell flows in
        if name in assigned_outside:
            # the name is also bound elsewhere: fine only if this definition dominates every read inside the loop
            # (it is a top-level statement of the loop body, or of the block that contains all reads, and no read precedes it)
            def_st = [st_ for st_ in ast.walk(loop) if isinstance(st_, ast.Assign) and st_.value is v][0]
            reads = [n_ for n_ in ast.walk(loop) if isinstance(n_, ast.Name) and n_.id == name and isinstance(n_.ctx, ast.Load)]

            def covers(block):
                if def_st not in block:
                    return None
                i_ = block.index(def_st)
                later = {id(n_) for st_ in block[i_ + 1:] for n_ in ast.walk(st_)}
                return all(id(r_) in later for r_ in reads)
            verdicts = [covers(b_) for b_ in [loop.body] + [getattr(n_, f_) for n_ in ast.walk(loop) for f_ in ("body", "orelse") if isinstance(getattr(n_, f_, None), list)]]
            if not any(v_ for v_ in verdicts if v_ is not None):
                return False
        if any(isinstance(n_, ast.Subscript) and not (isinstance(n_.value, ast.Name) and n_.value.id == x and ast.unparse(n_.slice) == ix) for n_ in ast.walk(v)
               if isinstance(n_, ast.Subscript) and isinstance(n_.value, ast.Name) and n_.value.id in assigned_in_loop | {x}):
            return False
        for n_ in ast.walk(v):
            if isinstance(n_, ast.Name) and n_.id in assigned_in_loop and n_.id != name and not cell_function(n_.id, seen + (name,)):
                return False
        return True
    dep = sorted(n_ for n_ in assigned_in_loop & used if not cell_function(n_))
    ob("R-LOOPINV", "gammastd", "p0, alpha, beta are pixel constants: nothing assigned in the cell loop enters the index expression", not dep,
       f"names assigned inside the cell loop and used in the expression: {dep}", loop)
    final = cell[-1]
    atoms = {a for a in final.rhs.atoms()}
    # the only cell-dependent atom is x[ix]
    celldep = sorted(a for a in _flatten_atoms(final.rhs.key()) if f"[{ix}]" in a and not a.startswith(f"{x}[{ix}]"))
    ob("R-LOOPINV", "gammastd", "the only cell-dependent input of the index is the observation x[ix]", not celldep,
       f"other cell-dependent terms: {celldep}", f"cell dependence of {norm_stmt(final.stmt)}")
    # no neighbouring cell: every subscript inside the cell loop whose index mentions the loop variable addresses the current cell itself
    # (a copy from / comparison with x[ix - 1], y[ix - 1] makes the index of a cell a function of its position in the series)
    neigh = sorted({ast.unparse(n_) for n_ in ast.walk(loop) if isinstance(n_, ast.Subscript)
                    and any(isinstance(m_, ast.Name) and m_.id == ix for m_ in ast.walk(n_.slice)) and ast.unparse(n_.slice) != ix})
    ob("R-LOOPINV", "gammastd", "inside the cell loop arrays are addressed at the current cell only (no neighbouring observation or index enters a cell's index)",
       not neigh, f"accesses at other positions: {neigh}", loop)
    from ..rules import r_truthy
    r_truthy(rep, repo, "PixelAlgorithms", "spi", ["nodata"], "0 is a legitimate nodata value (it is the one the test-suite uses); a truth test silently replaces or drops it")
    from ..rules import r_stateless
    r_stateless(rep, repo, [('PixelAlgorithms', 'spi')])
    rep.floor("C08 obligations", len(rep.obls), 20)
    return rep


def _flatten_atoms(key: str) -> List[str]:
    import re
    return re.findall(r"[A-Za-z_][A-Za-z_0-9]*\[[^\[\];]*\]", key)

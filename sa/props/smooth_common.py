"""E8 — block descriptors of the Whittaker smoother family (shared by C02..C06, C12, C14).

Every kernel is reduced to *behavioural facts* located by content, never by position or
name: the validity mask (predicates that zero the weight, either dialect), the valid-count
guard, every solver call with its resolved weight factors, the IRLS blocks (bound,
envelope comparison, weights on either side, convergence test, carry, start state, final
solve), the pass-through arm and the rounding store.
"""
from __future__ import annotations

import ast
import re
from dataclasses import dataclass, field
from typing import Dict, List, Optional, Set, Tuple

from ..core import AnalysisError, Repo, norm_stmt
from ..kernels import Kernel, kernel, load_kernels
from ..poly import Normaliser, Poly, Rat, Unsupported, parse_expr
from ..symb import Region, Store, StoreCollector

SMOOTHERS = ["ws2dgu", "ws2dpgu", "ws2doptv", "ws2doptvp", "ws2doptvplc", "ws2dwcv", "ws2dwcvp"]
HELPERS = ["_ws2doptvp", "_ws2dwcvp"]
DRIVER = "ws2doptvplc_tyx"
ASYM = ["ws2dpgu", "ws2doptvp", "ws2doptvplc", "ws2dwcvp", "_ws2doptvp", "_ws2dwcvp"]


def split_args(key: str) -> List[str]:
    """Split the argument list of an atom key `f[a;b;c]` at top-level semicolons."""
    i = key.find("[")
    body = key[i + 1:-1]
    out, depth, cur = [], 0, ""
    for ch in body:
        if ch == "[":
            depth += 1
        elif ch == "]":
            depth -= 1
        if ch == ";" and depth == 0:
            out.append(cur)
            cur = ""
        else:
            cur += ch
    out.append(cur)
    return out


def strip_index(key: str, var: str) -> str:
    """y[j] -> y for the element-wise view of a loop-dialect expression."""
    return re.sub(r"\[" + re.escape(var) + r"\]", "", key)


@dataclass
class Solve:
    target: str
    args: List[str]
    guards: Tuple[str, ...]
    region: Region
    stmt: ast.AST
    seq: int

    @property
    def series(self):
        return self.args[0]

    @property
    def lam(self):
        return self.args[1]

    @property
    def weight(self):
        return self.args[2]


@dataclass
class IRLS:
    loop: Region
    bound: Optional[str]
    solve: Optional[Solve]
    envelope: Dict[str, str] = field(default_factory=dict)   # condition key (element-wise) -> weight value key
    wa: Optional[str] = None
    weight_factors: Set[str] = field(default_factory=set)
    conv: Optional[str] = None          # canonical description of the break test
    conv_ok: bool = False
    carry_ok: bool = False
    carry: Optional[str] = None
    start: Optional[str] = None         # "zeros" | "reset" | "warm" | None
    final: Optional[Solve] = None
    series: Optional[str] = None
    z: Optional[str] = None
    znew: Optional[str] = None
    problems: List[str] = field(default_factory=list)


class Smoother:
    def __init__(self, repo: Repo, kernels: Dict[str, Kernel], name: str):
        self.name = name
        self.k = kernel(kernels, name)
        self.file = self.k.file
        self.sc = StoreCollector(self.k.node, self.file, loop_atoms_by_name=True, strict=False, keep_arrays=True).run()
        self.events = self._events()
        self.mask = self._mask()
        self.solves = self._solves()
        self.irls = self._irls()

    # ------------------------------------------------------------------ event log
    def _events(self):
        ev = []
        for s in self.sc.stores:
            ev.append((s.seq, "store", s))
        for n, ds in self.sc.arrays_assigned.items():
            for (r, st, g, seq) in ds:
                ev.append((seq, "array", (n, r, st, g)))
        for c in self.sc.calls:
            ev.append((c.seq, "call", c))
        for e in self.sc.exits:
            ev.append((e.seq, "exit", e))
        for n, ds in self.sc.scalars.items():
            for d in ds:
                ev.append((d.seq, "scalar", d))
        return sorted(ev, key=lambda t: t[0])

    # ------------------------------------------------------------------ mask
    def _mask(self) -> Optional[dict]:
        sc = self.sc
        # vector dialect
        for n, ds in sc.arrays_assigned.items():
            for (r, st, g, seq) in ds:
                k = r.key()
                m = re.fullmatch(r"-1\*array\[listcomp\[(.*);(\w+)\];dtype=float64\] \+ 1", k)
                if m:
                    pred, series = m.group(1), m.group(2)
                    parts = split_args(pred) if pred.startswith("or[") else [pred]
                    preds = set()
                    nod = None
                    for p in parts:
                        if p == f"isnan[elem[{series}]]":
                            preds.add("nan")
                        elif p == f"isinf[elem[{series}]]":
                            preds.add("inf")
                        elif p == f"not[isfinite[elem[{series}]]]":      # not finite <=> NaN or +-inf
                            preds.update(("nan", "inf"))
                        else:
                            mm = re.fullmatch(r"eq0\[-1\*elem\[" + series + r"\] \+ (\w+)\]", p) or re.fullmatch(r"eq0\[elem\[" + series + r"\] \+ -1\*(\w+)\]", p)
                            if mm:
                                preds.add("nodata")
                                nod = mm.group(1)
                            else:
                                preds.add("?" + p)
                    cnt = [d for nm, dd in sc.scalars.items() for d in dd if d.rhs.key() == f"sum[{n}]"]
                    return dict(name=n, preds=preds, series=series, nodata=nod, dialect="vector", stmt=st, seq=seq,
                                count=f"sum[{n}]", count_name=cnt[0].name if cnt else None, full=True)
        # loop dialect: W[i] = 0 under the missing-cell predicate, W[i] = 1 under its complement, over the whole series
        from ..symb import negate_key
        zeros: Dict[str, Store] = {}
        ones: Dict[str, Store] = {}
        for s in sc.stores:
            if s.region.kind != "loop" or s.idx_key != s.region.var or not s.guards:
                continue
            v = s.rhs.const_value()
            if v == 0:
                zeros[s.arr] = s
            elif v == 1:
                ones[s.arr] = s
        for n, z0 in zeros.items():
            o1 = ones.get(n)
            if o1 is None or o1.region is not z0.region:
                continue
            npre = 0
            while npre < min(len(z0.guards), len(o1.guards)) and z0.guards[npre] == o1.guards[npre]:
                npre += 1
            zg, og = list(z0.guards[npre:]), list(o1.guards[npre:])
            if len(zg) != 1:
                continue
            iv = z0.region.var
            g = zg[0]
            parts = split_args(g) if g.startswith("or[") else [g]
            if set(og) != {negate_key(p_) for p_ in parts}:
                continue
            preds, nod, series = set(), None, None
            okp = True
            for p_ in parts:
                mm = re.fullmatch(r"eq0\[-1\*(\w+) \+ (\w+)\[" + iv + r"\]\]", p_)
                m2 = re.fullmatch(r"is(nan|inf)\[(\w+)\[" + iv + r"\]\]", p_)
                if mm:
                    preds.add("nodata")
                    nod, ser = mm.group(1), mm.group(2)
                elif m2:
                    preds.add(m2.group(1))
                    ser = m2.group(2)
                else:
                    okp = False
                    break
                if series is not None and ser != series:
                    okp = False
                    break
                series = ser
            if not okp or "nodata" not in preds:
                continue
            rng = z0.region.rng
            full = rng is not None and len(rng) == 1 and rng[0].key() in (f"len0[{series}]",)
            cnt = None
            for nm, dd in sc.scalars.items():
                for d in dd:
                    if d.aug and d.region is z0.region and list(d.guards) == list(o1.guards) and (d.rhs - Rat.atom(nm)).equals(Rat.const(1)):
                        cnt = nm
            if cnt is None:
                cs = [d for nm, dd in sc.scalars.items() for d in dd if d.rhs.key() == f"sum[{n}]"]
                cnt = f"sum[{n}]" if cs else None
            return dict(name=n, preds=preds, series=series, nodata=nod, dialect="loop", stmt=z0.stmt, seq=z0.seq,
                        count=cnt, count_name=cnt, full=full, region=z0.region)
        # helper: the mask is a parameter
        if "w" in self.k.params:
            return dict(name="w", preds=None, series=self.k.params[0], nodata=None, dialect="parameter", stmt=self.k.node, seq=0, count=None,
                        count_name=None, full=True)
        return None

    # ------------------------------------------------------------------ solver calls
    def _solves(self) -> List[Solve]:
        out = []
        for seq, kind, e in self.events:
            if kind == "store" and e.rhs.key().startswith("ws2d["):
                out.append(Solve(e.arr, split_args(e.rhs.key()), e.guards, e.region, e.stmt, seq))
            elif kind == "array" and e[1].key().startswith("ws2d["):
                n, r, st, g = e
                reg = self._region_of(st)
                out.append(Solve(n, split_args(r.key()), tuple(g), reg, st, seq))
        return out

    def _region_of(self, stmt) -> Region:
        # innermost loop region whose node contains stmt
        best = None
        for r in self.sc.regions:
            if r.kind == "loop" and r.node is not None and any(x is stmt for x in ast.walk(r.node)):
                if best is None or any(x is r.node for x in ast.walk(best.node)):
                    best = r
        return best if best is not None else self.sc.regions[0]

    # ------------------------------------------------------------------ weight factor resolution
    def factors(self, key: str, at_seq: Optional[int] = None, depth=0) -> List[Set[str]]:
        """All alternative factor sets (one per reaching definition) of a weight expression key."""
        if depth > 4:
            return [{key}]
        try:
            r = Normaliser().norm(parse_expr(key)) if re.fullmatch(r"[\w*\s\[\]:+\-,0-9]+", key) and "[" not in key else None
        except (Unsupported, SyntaxError):
            r = None
        names: List[str]
        if r is not None and len(r.n.t) == 1 and r.d.const_value() is not None:
            mono = list(r.n.t)[0]
            names = [a for a, _ in mono]
        elif re.fullmatch(r"\w+", key):
            names = [key]
        else:
            names = [key]
        alts: List[Set[str]] = [set()]
        for nm in names:
            sub = self._defs_of_array(nm, at_seq)
            if not sub or (self.mask and nm == self.mask["name"]):
                alts = [a | {nm} for a in alts]
                continue
            new = []
            for dkey in sub:
                for fs in self.factors(dkey, at_seq, depth + 1):
                    for a in alts:
                        new.append(a | fs | {nm})
            alts = new
        return alts

    def _defs_of_array(self, name: str, at_seq: Optional[int]) -> List[str]:
        """Product definitions of an array name (whole-array assignments and element stores), element index stripped."""
        out = []
        for (r, st, g, seq) in self.sc.arrays_assigned.get(name, []):
            k = r.key()
            if k.startswith(("zeros[", "ones[", "array[", "ws2d[", "pow[", "full[", "arange[")) or "listcomp[" in k:
                continue
            if len(r.n.t) == 1 and r.d.const_value() is not None and len(list(r.n.t)[0]) >= 2:
                out.append("*".join(a for a, _ in list(r.n.t)[0]))
        for s in self.sc.stores:
            if s.arr == name and s.region.kind == "loop" and s.idx_key == s.region.var:
                r = s.rhs
                if len(r.n.t) == 1 and r.d.const_value() is not None and len(list(r.n.t)[0]) >= 2:
                    out.append("*".join(strip_index(a, s.region.var) for a, _ in list(r.n.t)[0]))
        return sorted(set(out))

    # ------------------------------------------------------------------ IRLS blocks
    def _irls(self) -> List[IRLS]:
        out = []
        sc = self.sc
        for loop in [r for r in sc.regions if r.kind == "loop"]:
            inside = [s for s in self.solves if s.region is loop]
            if not inside:
                continue
            sv = inside[0]
            # weight must depend on a comparison between the series and the iterate: look for envelope stores in the loop
            wa_stores = self._stores_in(loop, recursive=True)
            env: Dict[str, str] = {}
            wa_name = None
            for s in wa_stores:
                cond = None
                ik = s.idx_key
                # boolean-mask store through a named comparison array: substitute its definition
                mname = re.fullmatch(r"(inv\[)?(\w+)(\])?", ik)
                if mname and mname.group(2) in sc.arrays_assigned:
                    dk = sc.arrays_assigned[mname.group(2)][-1][0].key()
                    ik = f"inv[{dk}]" if mname.group(1) else dk
                if s.region is loop and ik.startswith(("lt0[", "inv[", "gt0[", "le0[", "ge0[")) and s.region.kind == "loop":
                    from ..symb import negate_key
                    cond = negate_key(ik[4:-1]) if ik.startswith("inv[") else ik
                elif s.region is not loop and s.idx_key == s.region.var and s.guards and len(s.guards) > len(sv.guards):
                    cond = strip_index(s.guards[-1], s.region.var)
                if cond is None:
                    continue
                if re.search(r"\b(lt0|ge0|gt0|le0)\[", cond):
                    env[cond] = s.rhs.key()
                    wa_name = s.arr
            if not env:
                continue
            b = IRLS(loop=loop, bound=loop.rng[0].key() if loop.rng and len(loop.rng) == 1 else None, solve=sv, envelope=env, wa=wa_name)
            b.series, b.znew = sv.series, sv.target
            # weight factors (all alternatives)
            alts = self.factors(sv.weight, sv.seq)
            b.weight_factors = set.intersection(*alts) if alts else set()
            # convergence / carry
            brk = [e for e in sc.exits if e.kind == "break" and e.region is loop]
            carry = [s for s in sc.stores if s.region is loop and s.rhs.key() in (f"{b.znew}[:]", f"{b.znew}[0:len0[{b.series}]]")
                     and s.idx_key in (":", f"0:len0[{b.series}]")]
            if carry:
                b.z = carry[0].arr
                b.carry = carry[0].arr
            if brk and b.z:
                g = brk[0].guards[-1] if brk[0].guards else ""
                l1_vec = f"eq0[sum[abs[-1*{b.z} + {b.znew}]]]"
                ok = g == l1_vec
                if not ok and g.startswith("eq0[") and g.endswith("]"):
                    acc = g[4:-1]
                    defs = sc.scalars.get(acc, [])
                    zero = [d for d in defs if not d.aug and d.region is loop and d.rhs.equals(Rat.const(0))]
                    adds = [d for d in defs if d.aug and d.region.parent is loop]
                    okadd = len(adds) == 1 and adds[0].region.parent is loop and adds[0].region.rng is not None \
                        and adds[0].region.rng[0].key() == f"len0[{b.series}]" and len(adds[0].region.rng) == 1 \
                        and (adds[0].rhs - Rat.atom(acc)).key() == f"abs[-1*{b.z}[{adds[0].region.var}] + {b.znew}[{adds[0].region.var}]]"
                    ok = bool(zero) and okadd and zero[0].seq > sv.seq and adds[0].seq > zero[0].seq
                b.conv = g
                b.conv_ok = ok and brk[0].seq > sv.seq
                b.carry_ok = bool(carry) and carry[0].seq > brk[0].seq
            # start state: last event on z before the loop
            if b.z:
                first_seq = min([s.seq for s in wa_stores] + [sv.seq])
                last = None
                for seq, kind, e in self.events:
                    if seq >= first_seq:
                        break
                    if kind == "array" and e[0] == b.z:
                        last = ("zeros" if e[1].key().startswith("zeros[") else "other:" + e[1].key()[:30], seq, e[2])
                    elif kind == "store" and e.arr == b.z:
                        if e.idx_key == ":" and e.rhs.const_value() == 0:
                            last = ("reset", seq, e.stmt)
                        else:
                            last = ("written:" + e.rhs.key()[:30], seq, e.stmt)
                if loop.parent is not None and loop.parent.kind == "loop":
                    # inside an outer loop the iterate of the previous outer iteration flows in unless reset inside that loop
                    inner_reset = last is not None and last[0] in ("reset", "zeros") and any(x is last[2] for x in ast.walk(loop.parent.node))
                    b.start = last[0] if inner_reset else "warm"
                else:
                    b.start = last[0] if last else None
            # final solve: first solve after the loop, not inside any IRLS loop
            after = [s for s in self.solves if s.seq > sv.seq and s.region is not loop]
            for s in after:
                same_level = (s.region.kind == "line" and loop.parent is None) or (loop.parent is not None and s.region is loop.parent)
                if same_level:
                    b.final = s
                break
            out.append(b)
        return out

    def _stores_in(self, loop: Region, recursive=False) -> List[Store]:
        out = []
        for s in self.sc.stores:
            r = s.region
            if r is loop:
                out.append(s)
            elif recursive:
                p = r.parent
                while p is not None:
                    if p is loop:
                        out.append(s)
                        break
                    p = p.parent
        return out

    # ------------------------------------------------------------------ misc facts
    def count_guard(self) -> Optional[Tuple[str, int]]:
        """(count expression, threshold k) of the dominating test `count > k` of the solver calls."""
        for s in self.solves:
            for g in s.guards:
                m = re.fullmatch(r"lt0\[-1\*(.+) \+ (\d+)\]", g)
                if m:
                    return m.group(1), int(m.group(2))
        return None

    def rounds(self):
        return [c for c in self.sc.calls if c.func == "round" and len(c.args) == 3]

    def passthrough(self):
        out_names = self.k.outputs
        return [s for s in self.sc.stores if s.arr in out_names and s.rhs.key().endswith("[:]") and s.idx_key == ":"]


def load_family(repo: Repo, names=None) -> Tuple[Dict[str, Kernel], Dict[str, Smoother]]:
    kernels = load_kernels(repo)
    fam = {}
    for n in (names or SMOOTHERS + HELPERS):
        fam[n] = Smoother(repo, kernels, n)
    return kernels, fam

"""C06 — smoothers keep linear series, commute with offsets and time reversal (necessary structural clauses).

1. On the band coefficients *extracted from ws2d's code*: every penalty row sums to 0 and has
   zero first moment (D'D annihilates affine sequences) and the band is persymmetric.
2. Use-shape rule: in every selecting kernel the input series reaches the selection criteria
   only through offset-equivariant uses (mask test, solver argument, difference with / order
   comparison against a solver output).
3. The V-curve criteria sum position-independent, sign-even summands over the whole extent.
"""
from __future__ import annotations

import ast
from fractions import Fraction
from typing import Dict, List, Optional

from ..core import AnalysisError, Report, Repo, norm_stmt
from ..kernels import kernel, load_kernels
from ..poly import Normaliser, Rat
from . import c01, c04
from .smooth_common import Smoother, load_family

FILE = "hdc/algo/ops/ws2d.py"
SELECTING = ["ws2doptv", "ws2doptvp", "ws2doptvplc", "_ws2doptvp", "ws2dwcv", "ws2dwcvp", "_ws2dwcvp"]
FIXED = ["ws2dgu", "ws2dpgu"]


def extracted_band(repo: Repo):
    fn, sc, names, params = c01.analyse(repo)
    coef: Dict[str, Dict[str, Optional[Fraction]]] = {}
    by = {}
    for s in sc.stores:
        arr = names.get(s.arr, s.arr)
        rk = c01.row_key(s.idx)
        by.setdefault((arr, rk), []).append(s)
    L = "lmda"
    for rk in ("0", "1", "ROW", "M-1", "M"):
        row = {}
        d = by.get(("d", rk))
        if d:
            row["diag"] = d[0].rhs.simple().n.coeff_of(L).const_value() if d[0].rhs.d.const_value() is not None else None
        c = by.get(("c", rk))
        if c:
            # c[R] = (off1*lmda - ...)/d[R]  -> numerator coefficient of lmda
            num = c[0].rhs.n
            den_atoms = c[0].rhs.d.atoms()
            row["off1"] = num.coeff_of(L).const_value()
            row["off1_den"] = sorted(den_atoms)
        e = by.get(("e", rk))
        if e:
            row["off2"] = e[0].rhs.n.coeff_of(L).const_value()
        coef[rk] = row
    return coef, by


def assemble(coef, n: int):
    """Full (W-free) penalty matrix for n points from the extracted row classes."""
    m = n - 1

    def cls(r):
        if r == 0:
            return "0"
        if r == 1:
            return "1"
        if r == m - 1:
            return "M-1"
        if r == m:
            return "M"
        return "ROW"
    A = [[Fraction(0)] * n for _ in range(n)]
    for r in range(n):
        c = coef[cls(r)]
        A[r][r] = c.get("diag")
        if r + 1 < n:
            A[r + 1][r] = A[r][r + 1] = c.get("off1")
        if r + 2 < n:
            A[r + 2][r] = A[r][r + 2] = c.get("off2")
    return A


def run(repo: Repo, tier: str) -> Report:
    rep = Report("C06")
    rep.decided = [
        "penalty rows extracted from ws2d's code sum to 0 and have zero first moment (a linear series is a fixed point of the solve for any weights; "
        "adding a constant to y adds it to z); the band is persymmetric (the solve commutes with time reversal)",
        "selection criteria see the data only through offset-equivariant quantities (use-shape rule over every use of the input series)",
        "V-curve criteria are sums over the whole extent of sign-even, position-independent summands",
    ]
    rep.declined = ["the +-1 rounding-tie tolerance and equality of lambda where the criterion is tied",
                    "the asymmetric reweighting starts from the zero curve (its first pass is not offset-equivariant; equality after <= 10 passes is a convergence fact)"]
    rep.trusted = ["CPython ast", "C01 (the code's factorisation is the LDL' of the matrix assembled from these coefficients)",
                   "A 1 = 0 and A t = 0 imply (W + lambda A)^-1 W maps affine series to themselves"]
    fn0 = repo.func("hdc.algo.ops.ws2d", "ws2d")
    pre = [n for n in ast.walk(fn0) if isinstance(n, (ast.If, ast.While, ast.Try, ast.IfExp, ast.With, ast.Break, ast.Continue, ast.Raise))]
    rets = [n for n in ast.walk(fn0) if isinstance(n, ast.Return)]
    if pre or len(rets) != 1:
        bad = pre[0] if pre else rets[0]
        rep.ob("R-BAND", FILE, "ws2d", "the solve is one straight-line algorithm: the band extracted from it governs every input", False,
               f"`{norm_stmt(bad)}` special-cases some inputs ({len(rets)} return statement(s)): for them the result is not (W + lambda A)^-1 W y, "
               f"so gaps are not filled on the line and reversal / offset commutation need not hold", bad)
        return rep
    coef, by = extracted_band(repo)
    rep.analysed = {"extracted_band_classes": {k: {kk: str(vv) for kk, vv in v.items()} for k, v in coef.items()}}
    need = {"0": ("diag", "off1", "off2"), "1": ("diag", "off1", "off2"), "ROW": ("diag", "off1", "off2"), "M-1": ("diag", "off1"), "M": ("diag",)}
    complete = True
    for rk, keys in need.items():
        for k in keys:
            if coef.get(rk, {}).get(k) is None:
                complete = False
                rep.ob("R-BAND", FILE, "ws2d", f"coefficient {k} of row class {rk} is a constant multiple of lambda", False,
                       f"could not extract {k} for row class {rk}: {coef.get(rk)}", f"{k}[{rk}]")
    if complete:
        for n in (5, 6, 9, 12):
            coef2 = {k: dict(v) for k, v in coef.items()}
            for k in coef2:
                coef2[k].setdefault("off1", Fraction(0))
                coef2[k].setdefault("off2", Fraction(0))
            A = assemble(coef2, n)
            sums = [sum(A[r]) for r in range(n)]
            mom = [sum(A[r][c] * c for c in range(n)) for r in range(n)]
            bad_s = [r for r in range(n) if sums[r] != 0]
            bad_m = [r for r in range(n) if mom[r] != 0]
            rep.ob("R-BAND", FILE, "ws2d", f"every penalty row sums to 0 (n = {n}): constants are not penalised", not bad_s,
                   f"rows {bad_s} sum to {[str(sums[r]) for r in bad_s]}: adding an offset to y no longer adds it to z", f"row sums n={n}", kind="extracted coefficients")
            rep.ob("R-BAND", FILE, "ws2d", f"every penalty row has zero first moment (n = {n}): linear series are not penalised", not bad_m,
                   f"rows {bad_m} have first moment {[str(mom[r]) for r in bad_m]}: a linear series is no longer returned unchanged", f"row moments n={n}",
                   kind="extracted coefficients")
            per = all(A[r][c] == A[n - 1 - r][n - 1 - c] for r in range(n) for c in range(n))
            rep.ob("R-BAND", FILE, "ws2d", f"the band is persymmetric (n = {n}): the solve commutes with time reversal", per,
                   "row r differs from row m-r reversed", f"persymmetry n={n}", kind="extracted coefficients")
    # right-hand side is w*y: also offset/reversal equivariant (checked in C01); weights enter only the diagonal
    for rk in need:
        d = by.get(("d", rk))
        if d:
            num = d[0].rhs.simple().n
            watoms = [a for a in num.atoms() if a.startswith("w[")]
            okw = len(watoms) == 1 and num.coeff_of(watoms[0]).const_value() == 1 and num.degree_in(watoms[0]) == 1
            rep.ob("R-BAND", FILE, "ws2d", f"the weight of row {rk} enters its own diagonal entry with coefficient 1", okw,
                   f"d[{rk}] = {d[0].rhs.key()}", d[0].stmt)

    # ---- 2. use-shape rule
    kernels, fam = load_family(repo, SELECTING + FIXED)
    for name in SELECTING + FIXED:
        s = fam[name]
        k = s.k
        y = s.mask["series"] if s.mask else k.params[0]
        zlike = {sv.target for sv in s.solves} | {b.z for b in s.irls if b.z} | {"y_temp"}
        # scalar aliases of elements
        aliases = {y: "array"}
        zalias = set()
        for st in ast.walk(k.node):
            if isinstance(st, ast.Assign) and isinstance(st.targets[0], ast.Name) and isinstance(st.value, ast.Subscript) and isinstance(st.value.value, ast.Name):
                if st.value.value.id == y:
                    aliases[st.targets[0].id] = "elem"
                elif st.value.value.id in zlike:
                    zalias.add(st.targets[0].id)
        par = {}
        for p_ in ast.walk(k.node):
            for c in ast.iter_child_nodes(p_):
                par[id(c)] = p_

        def is_z(e) -> bool:
            if isinstance(e, ast.Name):
                return e.id in zlike or e.id in zalias
            if isinstance(e, ast.Subscript) and isinstance(e.value, ast.Name):
                return e.value.id in zlike
            return False
        bad = []
        n_uses = 0
        for n in ast.walk(k.node):
            if not (isinstance(n, ast.Name) and n.id in aliases and isinstance(n.ctx, ast.Load)):
                continue
            # an alias name may be re-used for other values (z_tmp style): only count when its reaching value is the series
            n_uses += 1
            node = n
            p_ = par.get(id(node))
            if isinstance(p_, ast.Subscript) and p_.value is node:
                node, p_ = p_, par.get(id(p_))
            # allowed contexts
            if isinstance(p_, ast.Attribute) and p_.attr in ("shape", "size"):
                continue
            if isinstance(p_, ast.Call):
                f = ast.unparse(p_.func).split(".")[-1]
                if f == "ws2d" and p_.args and p_.args[0] is node:
                    continue
                if f in ("isnan", "isinf", "len"):
                    continue
                if f == "where" and len(p_.args) == 3 and p_.args[1] is node:
                    continue   # y = where(mask, y, 0): sanitised copy of the series
            if isinstance(p_, ast.comprehension):
                continue
            if isinstance(p_, ast.Compare):
                other = [x for x in [p_.left] + p_.comparators if x is not node]
                if all(isinstance(o, ast.Name) and o.id == (s.mask.get("nodata") if s.mask else None) for o in other):
                    continue
                if all(is_z(o) for o in other) and len(p_.ops) == 1 and isinstance(p_.ops[0], (ast.Gt, ast.Lt, ast.GtE, ast.LtE)):
                    continue
            if isinstance(p_, ast.BinOp) and isinstance(p_.op, ast.Sub):
                other = p_.right if p_.left is node else p_.left
                if is_z(other):
                    continue
            if isinstance(p_, ast.Assign):
                # alias definition / pass-through store / rebinding
                t = p_.targets[0]
                if isinstance(t, ast.Name) and (t.id in aliases):
                    continue
                if isinstance(t, ast.Subscript) and isinstance(t.value, ast.Name) and t.value.id in k.outputs:
                    continue
            if isinstance(p_, ast.For) and p_.iter is node:
                continue
            if isinstance(p_, ast.Tuple) and isinstance(par.get(id(p_)), ast.Call) and "ws2d" in ast.unparse(par[id(p_)].func):
                continue
            bad.append((n, p_))
        detail = ""
        if bad:
            n0, p0 = bad[0]
            stmt = p0
            while stmt is not None and not isinstance(stmt, ast.stmt):
                stmt = par.get(id(stmt))
            detail = (f"`{n0.id}` is used raw in `{norm_stmt(stmt) if stmt is not None else ast.unparse(p0)}` (line {n0.lineno}): a criterion built from the value of y itself "
                      f"changes when a constant is added to the series")
        rep.ob("R-USESHAPE", k.file, name, "the input series is used only as mask test, solver argument, difference with or order comparison against a solver output",
               not bad and n_uses > 0, detail or f"{n_uses} uses", f"{name}: uses of the series `{y}`")
    # ---- 2b. cells outside the mask hold a sanitised placeholder (0 / nodata) that does NOT shift with the offset:
    #          commuting with offsets needs them weightless in every solve
    n_mask = 0
    for name in SELECTING + FIXED:
        s = fam[name]
        if s.mask is None:
            continue
        for sv in s.solves:
            alts = s.factors(sv.weight, sv.seq)
            n_mask += 1
            rep.ob("R-MASK", s.file, name, f"solver weight `{sv.weight}` vanishes outside the validity mask (the placeholder there does not shift with the series)",
                   bool(alts) and all(s.mask["name"] in a for a in alts), f"factor sets {[sorted(a) for a in alts]}; the mask is `{s.mask['name']}`", sv.stmt)
    rep.floor("C06 solver calls", n_mask, 15)
    # the asymmetric fixed-lambda smoother reaches its fixed point by re-weighting until the CURVE stops changing; a stop test on anything that
    # depends on the level of the series (the sign pattern of y - z from the zero start, a value threshold) is not offset-equivariant
    from .c03 import check_irls
    pg = fam["ws2dpgu"]
    if len(pg.irls) == 1:
        check_irls(rep, pg, pg.irls[0], pg.k.params[3] if len(pg.k.params) > 3 else "p", "expectile reweighting (offset commutation needs convergence of the curve)",
                   lam=pg.k.params[1])
    else:
        rep.ob("R-IRLS", pg.file, "ws2dpgu", "the asymmetric smoother contains one reweighting loop that stops on the change of the curve", False,
               f"{len(pg.irls)} reweighting blocks recognised (stop test must be `sum |znew - z| == 0` after the solve)", "ws2dpgu: reweighting loop")
    # ---- 3. reversal: V-curve criteria over the whole extent (re-uses the C04 extraction)
    sub = Report("C06")  # scratch
    import sa.core as core
    core.CURRENT = rep
    for n in c04.COPIES:
        s = fam[n] if n in fam else None
        if s is None:
            continue
        scratch = Report("C06-scratch")
        core.CURRENT = rep
        c04.vcurve(scratch, s, "p" if "p" in s.k.params else None)
        want_roles = ("fit term = sum over all cells of (w (y - z))^2", "first differences of the curve over all m-1 neighbours",
                      "roughness term = sum over all m-2 second differences squared")
        got = {o.role: o for o in scratch.obls if o.role in want_roles}
        for role in want_roles:
            o = got.get(role)
            rep.ob("R-REVERSAL", s.file, n, role + " (position-independent, sign-even summand over the whole extent)", o is not None and o.ok,
                   o.detail if o is not None else "criterion not found", o.stmt if o is not None else f"{n}: {role}", line=o.line if o else 0)
    c04.lc_from_raw(rep, kernels, "R-USESHAPE")
    rep.floor("C06 obligations", len(rep.obls), 35)
    return rep

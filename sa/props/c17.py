"""C17 — rolling sum and grouped mean reduce exactly the valid cells.

R-SENTINEL-ACC (typestate on the output cell of rolling_sum), prefix/trim agreement,
mean_grp accumulation descriptor, sentinel independence (nodata is never an arithmetic
operand), R-BIND and nodata resolution order.
"""
from __future__ import annotations

import ast
from typing import Dict, List, Optional

from ..cfg import enclosing_loops
from ..core import AnalysisError, Report, Repo, norm_stmt
from ..divs import DivAnalysis, guard_atoms, negate_key
from ..kernels import kernel, load_kernels
from ..poly import Normaliser, Rat, Unsupported, cmp_key, int_cmp, parse_expr
from ..rules import array_params_of, divguard, r_bind
from ..sites import load_sites

FILE = "hdc/algo/ops/stats.py"
AFILE = "hdc/algo/accessors.py"


def names_in(e) -> set:
    return {n.id for n in ast.walk(e) if isinstance(n, ast.Name)}


def sentinel_discipline(rep: Report, k, nodata: str, da: DivAnalysis):
    """nodata occurs only in comparisons with data or as the whole stored value; a variable that may
    hold nodata is never an arithmetic operand."""
    fn = k.node
    bad = []
    n_occ = 0
    parents: Dict[int, ast.AST] = {}
    for p in ast.walk(fn):
        for c in ast.iter_child_nodes(p):
            parents[id(c)] = p
    holders = set()
    for n in ast.walk(fn):
        if isinstance(n, ast.Name) and n.id == nodata and isinstance(n.ctx, ast.Load):
            n_occ += 1
            par = parents.get(id(n))
            if isinstance(par, ast.Compare):
                continue
            if isinstance(par, ast.Assign) and par.value is n:
                t = par.targets[0]
                if isinstance(t, ast.Name):
                    holders.add(t.id)
                continue
            bad.append(par)
    for b in bad:
        rep.ob("R-SENTINEL", k.file, k.name, "nodata is used only in comparisons or stored as the sentinel itself", False,
               f"`{nodata}` is an operand of `{norm_stmt(b)}`: the result then depends on the numeric value chosen as nodata", b)
    if not bad:
        rep.ob("R-SENTINEL", k.file, k.name, "nodata is used only in comparisons or stored as the sentinel itself", True,
               f"{n_occ} occurrence(s)", f"{k.name}: occurrences of {nodata}")
    # variables that may hold the sentinel must not be arithmetic operands while holding it
    for node in da.cfg.stmt_nodes():
        st = node.stmt
        exprs = []
        if node.kind == "stmt" and isinstance(st, ast.AugAssign) and isinstance(st.target, ast.Name):
            exprs.append((st.target.id, st))
        for x in ast.walk(st) if node.kind == "stmt" else []:
            if isinstance(x, ast.BinOp):
                for side in (x.left, x.right):
                    if isinstance(side, ast.Name):
                        exprs.append((side.id, st))
        for nm, where in exprs:
            if nm not in holders:
                continue
            for d in da.cfg.stmt_nodes():
                if not (d.kind == "stmt" and isinstance(d.stmt, ast.Assign) and isinstance(d.stmt.targets[0], ast.Name)
                        and d.stmt.targets[0].id == nm and isinstance(d.stmt.value, ast.Name) and d.stmt.value.id == nodata):
                    continue
                # within one iteration of the outermost loop (iterations are independent: R-LOOPCARRY) and def-clear
                outer_heads = {n.id for n in da.cfg.nodes if n.kind == "for" and not enclosing_loops(fn).get(id(n.stmt))}
                redefs = {n.id for n in da.cfg.stmt_nodes() if n is not d and n is not node and nm in da.rd.gen[n.id]
                          and not isinstance(n.stmt, ast.AugAssign)}
                if node.id in da.cfg.reachable_from(d, avoid=outer_heads | redefs):
                    rep.ob("R-SENTINEL", k.file, k.name, f"`{nm}` is not used in arithmetic while it holds the sentinel", False,
                           f"`{nm} = {nodata}` (line {d.line}) reaches the arithmetic `{norm_stmt(where)}` within the same iteration", where)


def run(repo: Repo, tier: str) -> Report:
    rep = Report("C17")
    rep.decided = [
        "rolling_sum: after the sentinel is stored into an output cell no path of the same window adds to it (typestate R-SENTINEL-ACC); "
        "the sentinel is stored only for the prefix, on a nodata cell, or when no valid cell was added; valid cells are added exactly under != nodata",
        "the kernel's prefix (positions < window-1) equals what the accessor trims",
        "mean_grp: per group, cells != nodata are summed and counted, n == 0 gives nodata else sum/n (R-DIVGUARD), scatter index == gather index, all groups covered",
        "nodata never enters arithmetic (sentinel independence)", "argument binding and nodata resolution order (argument, attrs, else ValueError)",
    ]
    rep.declined = ["exactness of float32 sums for large magnitudes"]
    rep.trusted = ["CPython ast", "xarray apply_ufunc core-dimension contract"]
    kernels = load_kernels(repo)
    rs = kernel(kernels, "rolling_sum")
    mg = kernel(kernels, "mean_grp")

    # =============================================================== R-ACC (typed IR, before any structural reading of the kernels)
    # Whatever the shape of the reduction, a sum of window / group cells is held in a float or a 64-bit integer for every declared signature:
    # a computed value stored into a narrower integer element wraps as soon as the running total leaves that type.
    from ..typedir import typed_facts
    INT_BITS = {"int8": 8, "uint8": 8, "int16": 16, "uint16": 16, "int32": 32, "uint32": 32}
    tnames = ["rolling_sum", "mean_grp"]
    # njit helpers they call (typed with the argument types of the call sites), transitively; read from the source as written, because
    # the loader inlines helpers the reference tree does not have
    raw = {n_.name: n_ for n_ in ast.parse(repo.mod(rs.module).src).body if isinstance(n_, ast.FunctionDef)}
    work = [raw[x] for x in ("rolling_sum", "mean_grp") if x in raw]
    while work:
        cur = work.pop()
        for c_ in ast.walk(cur):
            if isinstance(c_, ast.Call) and isinstance(c_.func, ast.Name) and c_.func.id in raw and c_.func.id in kernels and c_.func.id not in tnames:
                tnames.append(c_.func.id)
                work.append(raw[c_.func.id])
    tfacts = [f for f in typed_facts(repo.root, tnames) if f["kernel"] in tnames]
    rep.floor("typed rolling_sum / mean_grp signatures", len(tfacts), 7)
    n_st = 0
    for f in tfacts:
        if not f["ok"]:
            rep.ob("NB-TYPES", FILE, f["kernel"], f"signature {f['args']} types", False, f["error"][:200], f"{f['kernel']}{tuple(f['args'])}")
            continue
        for st_ in f["setitems"]:
            n_st += 1
            tb = INT_BITS.get(st_["target_dtype"])
            if tb is None or st_["value_type"].startswith("Literal") or st_["value_dtype"] == st_["target_dtype"]:
                continue
            rep.ob("R-ACC", FILE, f["kernel"], "computed sums are stored in float or 64-bit integer elements", False,
                   f"line {st_['line']}: a {st_['value_dtype']} value is stored into `{st_['target']}` with {st_['target_dtype']} elements under signature "
                   f"({', '.join(f['args'])}): a running total / sum of cells wraps at {2 ** (tb - (0 if st_['target_dtype'].startswith('u') else 1)) - 1}",
                   f"{f['kernel']}: {st_['target']} <- {st_['value_dtype']} [{st_['target_dtype']}]", line=st_["line"], kind=f"{st_['target_dtype']} <- {st_['value_dtype']}")
    rep.ob("R-ACC", FILE, "rolling_sum/mean_grp", "no computed value is stored into a narrow integer element (all declared signatures)", True,
           f"{n_st} typed stores over {len(tfacts)} signatures", "typed stores of rolling_sum and mean_grp", kind="typed IR")
    # =============================================================== rolling_sum
    xx, ws, nodata, yy = rs.params
    da = DivAnalysis(rs.node, FILE, array_params_of(rs))
    loops = enclosing_loops(rs.node)
    cfg = da.cfg
    outer = [n for n in cfg.nodes if n.kind == "for" and not loops.get(id(n.stmt))]
    if len(outer) != 1:
        raise AnalysisError(f"unsupported construct: rolling_sum must have one outer loop over positions ({FILE}:{rs.node.lineno})")
    outer = outer[0]
    ii = outer.stmt.target.id

    def is_cell(t):
        return isinstance(t, ast.Subscript) and isinstance(t.value, ast.Name) and t.value.id == yy and isinstance(t.slice, ast.Name) \
            and t.slice.id == ii

    # a scalar accumulator that is stored into the cell (`acc = 0; ...; acc += xx[jj]; ...; yy[ii] = acc`) stands for the cell
    proxies = set()
    for n in cfg.stmt_nodes():
        st = n.stmt
        if n.kind == "stmt" and isinstance(st, ast.Assign) and is_cell(st.targets[0]) and isinstance(st.value, ast.Name) and st.value.id not in (nodata,):
            if any(isinstance(m.stmt, ast.AugAssign) and isinstance(m.stmt.target, ast.Name) and m.stmt.target.id == st.value.id for m in cfg.stmt_nodes() if m.kind == "stmt"):
                proxies.add(st.value.id)
    _is_cell_only = is_cell

    def is_cell(t):  # noqa: F811
        return _is_cell_only(t) or (isinstance(t, ast.Name) and t.id in proxies)

    S, A, WHOLE = [], [], []
    OTHER = []
    for n in cfg.stmt_nodes():
        st = n.stmt
        if n.kind != "stmt":
            continue
        if isinstance(st, ast.Assign) and is_cell(st.targets[0]) and isinstance(st.value, ast.Name) and st.value.id == nodata:
            S.append(n)
        elif isinstance(st, ast.Assign) and isinstance(st.targets[0], ast.Subscript) and isinstance(st.targets[0].value, ast.Name) \
                and st.targets[0].value.id == yy and isinstance(st.value, ast.Name) and st.value.id == nodata:
            WHOLE.append(n)
        elif isinstance(st, ast.AugAssign) and is_cell(st.target) and isinstance(st.op, ast.Add):
            A.append(n)
        elif isinstance(st, ast.Assign) and is_cell(st.targets[0]) and isinstance(st.value, ast.BinOp):
            A.append(n)
        elif isinstance(st, ast.AugAssign) and is_cell(st.target):
            OTHER.append(n)
    rep.floor("rolling_sum sentinel stores", len(S), 1)
    rep.floor("rolling_sum accumulation statements", len(A), 1)
    rep.analysed = {"rolling_sum": {"sentinel_stores": len(S), "accumulations": len(A), "cfg_nodes": len(cfg.nodes)}}

    def ob(rule, role, ok, detail="", stmt=None, kind="", fn="rolling_sum"):
        rep.ob(rule, FILE, fn, role, ok, detail, stmt if stmt is not None else role, kind=kind)

    for o_ in OTHER:
        ob("R-FORMULA", "the cell is only ever added to (a window sum has no subtraction / scaling step)", False,
           f"`{norm_stmt(o_.stmt)}`: an incremental update carries rounding and the state of earlier windows (sentinels included) into later ones", o_.stmt)
    a_ids = {n.id for n in A}
    justs = []
    for s in S:
        reach = cfg.reachable_from(s, avoid={outer.id})
        hit = sorted(reach & a_ids)
        detail = ""
        if hit:
            a = cfg.nodes[hit[0]]
            detail = (f"after `{norm_stmt(s.stmt)}` (line {s.line}) the same window can still execute `{norm_stmt(a.stmt)}` (line {a.line}): "
                      f"valid cells are added to the stored sentinel (an amalgam of nodata and data)")
        ob("R-SENTINEL-ACC", "no accumulation into the cell after the sentinel was stored (same window)", not hit, detail, s.stmt,
           kind="typestate: path query on the CFG without the outer loop header")
        # the sentinel store must be justified: prefix / nodata cell / no valid cell counted
        atoms = guard_atoms(da, s)
        atoms_raw = guard_atoms(da, s, resolved=False)
        just = None
        for a in atoms + atoms_raw:
            if a.startswith("eq0[") and nodata in a and (xx + "[") in a:
                just = "a window cell equals nodata"
        for g, arm in cfg.guards_of(s):
            t = g.stmt.test
            if arm and isinstance(t, ast.Compare) and ws in names_in(t) and ii in names_in(t):
                try:
                    tag, d = int_cmp(t, Normaliser())
                except Unsupported:
                    continue
                if tag == "le0" and d.n.coeff_of(ii).const_value() == 1 and d.n.coeff_of(ws).const_value() == -1:
                    just = "prefix position (incomplete window)"
        if just is None:
            for a in atoms_raw:
                if (a.startswith("eq0[") or a.startswith("le0[")) and a.endswith("]") and a[4:-1].isidentifier():
                    cnt = a[4:-1]
                    # counter: zeroed in the iteration before the window loop, incremented next to every accumulation
                    incs = [n for n in cfg.stmt_nodes() if n.kind == "stmt" and isinstance(n.stmt, ast.AugAssign)
                            and isinstance(n.stmt.target, ast.Name) and n.stmt.target.id == cnt]
                    zero = [n for n in cfg.stmt_nodes() if n.kind == "stmt" and isinstance(n.stmt, ast.Assign)
                            and isinstance(n.stmt.targets[0], ast.Name) and n.stmt.targets[0].id == cnt
                            and isinstance(n.stmt.value, ast.Constant) and n.stmt.value.value == 0 and loops.get(id(n.stmt)) == [outer.stmt]]
                    same_block = all(any(guard_atoms(da, i) == guard_atoms(da, a_) and loops.get(id(i.stmt)) == loops.get(id(a_.stmt))
                                         for i in incs) for a_ in A)
                    one_per = all(isinstance(i.stmt.value, ast.Constant) and i.stmt.value.value == 1 for i in incs)
                    if incs and zero and same_block and one_per and len(incs) == len(A):
                        just = f"`{cnt}` counts the valid cells of the window and is 0"
        ob("R-SENTINEL-ACC", "the sentinel is stored only for an incomplete window, a nodata cell, or a window without valid cells",
           just is not None, f"guards of the store: {atoms_raw}", f"guard of {norm_stmt(s.stmt)} @{'/'.join(atoms_raw)[:60]}",
           kind=just or "")
        justs.append(just)
    # sentinel fills of more than the current cell: admissible only when no position has a complete window (window > length)
    for wn in WHOLE:
        okw = False
        facts = []
        for g, arm in cfg.guards_of(wn):
            t = g.stmt.test
            if arm and isinstance(t, ast.Compare):
                try:
                    tag, d = int_cmp(t, Normaliser({"n": parse_expr(f"{xx}.size")} if False else {}))
                except Unsupported:
                    continue
                facts.append((tag, d.key()))
                # window_size > n  <=>  n - window_size + 1 <= 0   (n = series length under any spelling)
                for ln in (f"size[{xx}]", f"len0[{xx}]", "n"):
                    if tag == "le0" and d.equals(Normaliser().norm(parse_expr("LN - WS + 1".replace("WS", ws))) if False else None) if False else False:
                        pass
                lens = [Rat.atom(f"size[{xx}]"), Rat.atom(f"len0[{xx}]"), Rat.atom("n")]
                for L_ in lens:
                    if tag == "le0" and d.equals(L_ - Rat.atom(ws) + Rat.const(1)):
                        okw = True
        ob("R-SENTINEL-ACC", "a sentinel fill of the whole output happens only when no position has a complete window (window > length)", okw,
           f"`{norm_stmt(wn.stmt)}` runs under {facts}: positions with a complete, fully valid window lose their sum", wn.stmt)
    early = [n for n in cfg.stmt_nodes() if n.kind == "stmt" and isinstance(n.stmt, ast.Return)]
    for e in early:
        pre = [w_ for w_ in WHOLE if e.id in cfg.reachable_from(w_) and w_.stmt.lineno < e.stmt.lineno]
        ob("R-SENTINEL-ACC", "an early exit leaves a fully written output (sentinel fill under an admissible condition)", bool(pre),
           "early `return` without a preceding whole-output store", e.stmt)
    ob("R-SENTINEL-ACC", "a complete window without any valid cell yields the sentinel",
       any(j and not j.startswith("prefix") for j in justs),
       "no sentinel store for complete windows: an all-nodata window would keep the initial 0", "sentinel store for complete windows")
    for a in A:
        atoms = guard_atoms(da, a, resolved=False)
        inner = [l for l in loops.get(id(a.stmt), []) if l is not outer.stmt]
        okl = False
        jj = None
        if len(inner) == 1 and isinstance(inner[0], ast.For) and isinstance(inner[0].iter, ast.Call) and len(inner[0].iter.args) == 2:
            jj = inner[0].target.id
            lo, hi = [Normaliser().norm(x) for x in inner[0].iter.args]
            okl = lo.equals(Normaliser().norm(parse_expr(f"{ii} - {ws} + 1"))) and hi.equals(Normaliser().norm(parse_expr(f"{ii} + 1")))
        ob("R-FORMULA", "the window is the window_size cells ending at the position", okl,
           f"window loop: {norm_stmt(inner[0]) if inner else None}", inner[0] if inner else "window loop")
        if jj:
            need = cmp_key(ast.NotEq(), Normaliser().norm(parse_expr(f"{xx}[{jj}]")), Rat.atom(nodata))
            data_atoms = [x for x in atoms if (xx + "[") in x]
            st = a.stmt
            val = st.value if isinstance(st, ast.AugAssign) else None
            okv = val is not None and Normaliser().norm(val).equals(Normaliser().norm(parse_expr(f"{xx}[{jj}]")))
            ob("R-FORMULA", "a window cell is added exactly when it differs from nodata", data_atoms == [need] and okv,
               f"guards {atoms}; addend {ast.unparse(val) if val is not None else None}; required guard {need} and addend {xx}[{jj}]", a.stmt)
    # cell starts from zero
    zero_all = any(isinstance(st, ast.Assign) and isinstance(st.targets[0], ast.Subscript) and ast.unparse(st.targets[0]) == f"{yy}[:]"
                   and isinstance(st.value, ast.Constant) and st.value.value == 0 for st in rs.node.body)
    zero_cell = any(n.kind == "stmt" and isinstance(n.stmt, ast.Assign) and is_cell(n.stmt.targets[0]) and isinstance(n.stmt.value, ast.Constant)
                    and n.stmt.value.value == 0 and (not isinstance(n.stmt.targets[0], ast.Name) or loops.get(id(n.stmt)) == [outer.stmt])
                    for n in cfg.stmt_nodes())
    if proxies:
        zero_all = False        # the accumulator, not the output, must be reset for every position
    ob("R-MUSTWRITE", "every output cell starts from 0 before accumulation", zero_all or zero_cell, "no `yy[:] = 0` / `yy[ii] = 0`", f"{yy}[:] = 0")

    # prefix / trim agreement
    prefix = None
    for s in S:
        for g, arm in cfg.guards_of(s):
            t = g.stmt.test
            if arm and isinstance(t, ast.Compare) and ws in names_in(t) and ii in names_in(t):
                try:
                    tag, d = int_cmp(t, Normaliser())
                except Unsupported:
                    continue
                if tag == "le0":
                    prefix = (d, g, s)
    site = [s for s in load_sites(repo, kernels) if s.kernel == "rolling_sum"]
    rep.floor("rolling_sum call sites", len(site), 1)
    site = site[0]
    trim = None
    m = repo.method("hdc.algo.accessors", "RollingWindowAlgos", "sum")
    for st in ast.walk(m):
        if isinstance(st, ast.Subscript) and isinstance(st.slice, ast.Tuple) and any(isinstance(e, ast.Slice) for e in st.slice.elts):
            sl = [e for e in st.slice.elts if isinstance(e, ast.Slice)][0]
            if sl.lower is not None and sl.upper is None:
                trim = (sl.lower, st)
    okp = False
    detail = "prefix test or trimming slice not found"
    if prefix and trim:
        d, g, s = prefix
        # d = ii + c0 <= 0  => prefix positions 0..-c0  => count = 1 - c0
        c0 = d - Rat.atom(ii)
        count = Rat.const(1) - c0
        acc_ws = ast.unparse(site.args[1]) if len(site.args) > 1 else None
        tr = Normaliser({acc_ws: Rat.atom(ws)} if acc_ws else {}).norm(trim[0])
        okp = count.equals(tr)
        detail = f"kernel marks the first {count.key()} positions, the accessor drops the first {tr.key()}"
        # after the prefix store, the iteration ends
        okcont = outer.id in {x.id for x, _ in []} or not (cfg.reachable_from(s, avoid={outer.id}) & a_ids)
    ob("R-FORMULA", "prefix marked by the kernel == positions trimmed by the accessor", okp, detail,
       prefix[1].stmt if prefix else "prefix test")

    sentinel_discipline(rep, rs, nodata, da)
    r_bind(rep, site, rs)
    # trimming applies to the last axis (the core dimension is moved last by apply_ufunc)
    icd = ast.unparse(site.opts.get("input_core_dims")) if site.opts.get("input_core_dims") is not None else ""
    ocd = ast.unparse(site.opts.get("output_core_dims")) if site.opts.get("output_core_dims") is not None else ""
    rep.ob("R-BIND", AFILE, site.where(), "the rolled dimension is the core dimension of input and output", icd == "[[dimension], [], []]" and
           ocd == "[[dimension]]", f"input_core_dims={icd} output_core_dims={ocd}", "core dims of rolling_sum site", line=site.line)

    # =============================================================== mean_grp
    gx, groups, ng, gnod, gy = mg.params
    dm = DivAnalysis(mg.node, FILE, array_params_of(mg))
    mloops = enclosing_loops(mg.node)
    gl = [n for n in dm.cfg.nodes if n.kind == "for" and not mloops.get(id(n.stmt))]
    if len(gl) != 1:
        raise AnalysisError("unsupported construct: mean_grp must have one outer loop over groups")
    gl = gl[0]
    grp = gl.stmt.target.id
    okg = isinstance(gl.stmt.iter, ast.Call) and ast.unparse(gl.stmt.iter) == f"range({ng})"
    ob("R-COVER", "every group 0..num_groups-1 is processed", okg, f"loop: {norm_stmt(gl.stmt)}", gl.stmt, fn="mean_grp")
    # the value written for a group is computed in that group's iteration: no definition from before the group loop (or, through it, from an
    # earlier group) may reach the scatter - a group without valid cells would otherwise repeat its predecessor's mean instead of nodata
    from ..dataflow import ReachingDefs
    rd_ = ReachingDefs(dm.cfg)
    in_gl = {id(x) for x in ast.walk(gl.stmt)}
    for n in dm.cfg.stmt_nodes():
        st = n.stmt
        if n.kind == "stmt" and isinstance(st, ast.Assign) and isinstance(st.targets[0], ast.Subscript) and isinstance(st.targets[0].value, ast.Name) \
                and st.targets[0].value.id == gy and isinstance(st.value, ast.Name) and id(st) in in_gl:
            outside = [d_ for d_ in rd_.reaching(n, st.value.id) if d_.stmt is not None and id(d_.stmt) not in in_gl]
            ob("R-LOOPCARRY", "the value scattered for a group is defined in that group's own iteration on every path", not outside,
               f"`{norm_stmt(outside[0].stmt)}` (line {outside[0].line}, outside the group loop) reaches `{norm_stmt(st)}`: on the path that assigns nothing "
               f"(no valid cell in the group) the previous group's value is written" if outside else "", st, fn="mean_grp")
    # gather / scatter
    gather = scatter = None
    for n in dm.cfg.stmt_nodes():
        st = n.stmt
        if n.kind != "stmt" or not isinstance(st, ast.Assign):
            continue
        if isinstance(st.value, ast.Subscript) and isinstance(st.value.value, ast.Name) and st.value.value.id == gx:
            gather = (n, st)
        if isinstance(st.targets[0], ast.Subscript) and isinstance(st.targets[0].value, ast.Name) and st.targets[0].value.id == gy:
            scatter = (n, st)
    if gather is None or scatter is None:
        raise AnalysisError("missing anchor: gather xx[mask] / scatter yy[mask] in mean_grp")
    gk = dm.resolve(gather[1].value.slice, gather[0]).key()
    sk = dm.resolve(scatter[1].targets[0].slice, scatter[0]).key()
    wantmask = cmp_key(ast.Eq(), Rat.atom(groups), Rat.atom(grp))
    ob("R-FORMULA", "group members are selected by groups == group id", gk == wantmask, f"gather mask = {gk}; expected {wantmask}", gather[1], fn="mean_grp")
    ob("R-FORMULA", "the mean is scattered through the index it was gathered with", gk == sk, f"gather {gk} vs scatter {sk}", scatter[1], fn="mean_grp")
    pix = gather[1].targets[0].id
    inner = [n for n in dm.cfg.nodes if n.kind == "for" and mloops.get(id(n.stmt)) == [gl.stmt]]
    if len(inner) != 1 or ast.unparse(inner[0].stmt.iter) != pix:
        raise AnalysisError("unsupported construct: mean_grp must iterate once over the gathered cells")
    cell = inner[0].stmt.target.id
    valid = cmp_key(ast.NotEq(), Rat.atom(cell), Rat.atom(gnod))
    # accumulation statements inside the inner loop
    accv = scatter[1].value.id if isinstance(scatter[1].value, ast.Name) else None
    adds, cnts = [], []
    for n in dm.cfg.stmt_nodes():
        st = n.stmt
        if n.kind != "stmt" or inner[0].stmt not in mloops.get(id(st), []):
            continue
        if isinstance(st, (ast.Assign, ast.AugAssign)):
            tgt = st.targets[0] if isinstance(st, ast.Assign) else st.target
            if isinstance(tgt, ast.Name) and tgt.id == accv:
                adds.append(n)
            elif isinstance(tgt, ast.Name) and isinstance(st, ast.AugAssign):
                cnts.append(n)
    rep.floor("mean_grp accumulation statements", len(adds), 1)
    counter = cnts[0].stmt.target.id if cnts else None
    for n in adds:
        st = n.stmt
        atoms = guard_atoms(dm, n, resolved=False)
        if isinstance(st, ast.AugAssign):
            okv = isinstance(st.op, ast.Add) and Normaliser().norm(st.value).equals(Rat.atom(cell))
            role = "adds the cell"
        else:
            okv = Normaliser().norm(st.value).equals(Rat.atom(cell))
            role = "starts from the first valid cell"
        other = [a for a in atoms if a != valid]
        okguard = valid in atoms
        if isinstance(st, ast.Assign):
            okguard = okguard and other == [f"eq0[{counter}]"]
        else:
            okguard = okguard and other in ([], [f"ne0[{counter}]"])
        ob("R-FORMULA", f"accumulator {role} exactly for cells != nodata", okv and okguard,
           f"value {ast.unparse(st.value)}, guards {atoms}; required cell `{cell}` under {valid}", st, fn="mean_grp")
    okc = len(cnts) == 1 and isinstance(cnts[0].stmt.op, ast.Add) and isinstance(cnts[0].stmt.value, ast.Constant) \
        and cnts[0].stmt.value.value == 1 and guard_atoms(dm, cnts[0], resolved=False) == [valid]
    ob("R-FORMULA", "the count is incremented once per cell != nodata", okc,
       f"counter statements: {[norm_stmt(c.stmt) for c in cnts]}", cnts[0].stmt if cnts else "counter", fn="mean_grp")
    # initialisation per group
    if counter:
        z = [n for n in dm.cfg.stmt_nodes() if n.kind == "stmt" and isinstance(n.stmt, ast.Assign) and isinstance(n.stmt.targets[0], ast.Name)
             and n.stmt.targets[0].id == counter and mloops.get(id(n.stmt)) == [gl.stmt]
             and isinstance(n.stmt.value, ast.Constant) and n.stmt.value.value == 0]
        ob("R-LOOPCARRY", "the count restarts at 0 for every group", len(z) == 1, "", f"{counter} = 0", fn="mean_grp")
    if not any(isinstance(n.stmt, ast.Assign) for n in adds):
        z = [n for n in dm.cfg.stmt_nodes() if n.kind == "stmt" and isinstance(n.stmt, ast.Assign) and isinstance(n.stmt.targets[0], ast.Name)
             and n.stmt.targets[0].id == accv and mloops.get(id(n.stmt)) == [gl.stmt] and isinstance(n.stmt.value, ast.Constant)
             and n.stmt.value.value in (0, 0.0)]
        ob("R-LOOPCARRY", "the sum restarts at 0 for every group", len(z) == 1, "", f"{accv} = 0", fn="mean_grp")
    # finalisation
    fin_nodata = fin_mean = None
    for n in dm.cfg.stmt_nodes():
        st = n.stmt
        if n.kind == "stmt" and isinstance(st, ast.Assign) and isinstance(st.targets[0], ast.Name) and st.targets[0].id == accv \
                and mloops.get(id(st)) == [gl.stmt]:
            atoms = guard_atoms(dm, n, resolved=False)
            if isinstance(st.value, ast.Name) and st.value.id == gnod:
                fin_nodata = (n, atoms)
            elif isinstance(st.value, ast.BinOp) and isinstance(st.value.op, ast.Div):
                fin_mean = (n, atoms)
    if fin_mean is None:
        # `avg /= n` is the same finalisation as `avg = avg / n`
        for n in dm.cfg.stmt_nodes():
            st = n.stmt
            if n.kind == "stmt" and isinstance(st, ast.AugAssign) and isinstance(st.target, ast.Name) and st.target.id == accv and isinstance(st.op, ast.Div) \
                    and mloops.get(id(st)) == [gl.stmt]:
                eq = ast.copy_location(ast.Assign(targets=[ast.Name(id=accv, ctx=ast.Store())],
                                                  value=ast.BinOp(left=ast.Name(id=accv, ctx=ast.Load()), op=ast.Div(), right=st.value)), st)
                ast.fix_missing_locations(eq)

                class _N:        # same interface as the CFG node for the two uses below
                    stmt = eq
                fin_mean = (_N, guard_atoms(dm, n, resolved=False))
    ob("R-FORMULA", "a group without valid cells yields nodata", fin_nodata is not None and fin_nodata[1] == [f"eq0[{counter}]"],
       f"found {norm_stmt(fin_nodata[0].stmt) if fin_nodata else None} under {fin_nodata[1] if fin_nodata else None}",
       fin_nodata[0].stmt if fin_nodata else "avg = nodata", fn="mean_grp")
    okm = fin_mean is not None and Normaliser().norm(fin_mean[0].stmt.value).equals(Rat.atom(accv) / Rat.atom(counter)) \
        and fin_mean[1] == [f"ne0[{counter}]"]
    ob("R-FORMULA", "otherwise the mean is sum / count", okm,
       f"found {norm_stmt(fin_mean[0].stmt) if fin_mean else None} under {fin_mean[1] if fin_mean else None}",
       fin_mean[0].stmt if fin_mean else "avg = avg / n", fn="mean_grp")
    divguard(rep, repo, kernels, ["mean_grp", "rolling_sum"], flavours=("scalar",))
    from ..rules import no_early_exit
    from ..symb import StoreCollector
    no_early_exit(rep, StoreCollector(mg.node, FILE, loop_atoms_by_name=True, strict=False, keep_arrays=True, array_params=array_params_of(mg)).run(), FILE, "mean_grp", "group loop and member loop",
                  allowed={("continue", f"eq0[-1*elem[{pix}] + {gnod}]"), ("continue", f"eq0[elem[{pix}] + -1*{gnod}]")})
    sentinel_discipline(rep, mg, gnod, dm)
    msite = [s for s in load_sites(repo, kernels) if s.kernel == "mean_grp"]
    rep.floor("mean_grp call sites", len(msite), 1)
    r_bind(rep, msite[0], mg)

    # nodata resolution order in both accessors
    for cls, meth in (("RollingWindowAlgos", "sum"), ("PixelAlgorithms", "mean_grp")):
        f = repo.method("hdc.algo.accessors", cls, meth)
        txt = ast.unparse(f)
        uses_attr = "self._obj.attrs.get('nodata'" in txt
        raises = any(isinstance(n, ast.Raise) and "ValueError" in ast.unparse(n) for n in ast.walk(f))
        first = None
        for st in f.body:
            if isinstance(st, ast.If) and norm_stmt(st.test) == "nodata is None":
                first = st
                break
        rep.ob("R-FORMULA", AFILE, f"{cls}.{meth}", "nodata: explicit argument, then attrs['nodata'], else ValueError",
               first is not None and uses_attr and raises, "", f"{cls}.{meth}: nodata resolution")
    # mean_grp accessor: group ids reach the kernel in its declared element type; num_groups counts the distinct ids; length validated
    f = repo.method("hdc.algo.accessors", "PixelAlgorithms", "mean_grp")
    site = msite[0]
    gname = ast.unparse(site.call.args[2]) if len(site.call.args) > 2 else "?"
    ngname = ast.unparse(site.call.args[3]) if len(site.call.args) > 3 else "?"
    gpos = mg.params.index("groups") if "groups" in mg.params else 1
    want_t = sorted({sig[gpos][0] for sig in mg.sigs})
    casts = []
    for n in ast.walk(f):
        if isinstance(n, ast.Call) and n.keywords and ast.unparse(n.func) in ("np.array", "np.asarray", "numpy.array") and n.args and ast.unparse(n.args[0]) == gname:
            casts += [k_.value.value for k_ in n.keywords if k_.arg == "dtype" and isinstance(k_.value, ast.Constant)]
        if isinstance(n, ast.Call) and isinstance(n.func, ast.Attribute) and n.func.attr == "astype" and ast.unparse(n.func.value) == gname and n.args and isinstance(n.args[0], ast.Constant):
            casts.append(n.args[0].value)
    rep.ob("R-BIND", AFILE, "PixelAlgorithms.mean_grp", "group labels are converted to the element type the kernel declares for them", bool(casts) and all([c] == want_t for c in casts),
           f"conversions to {casts}; mean_grp declares {want_t} (a narrower type wraps ids beyond its range)", f"{gname}: conversion dtype")
    ngd = [norm_stmt(st.value) for st in ast.walk(f) if isinstance(st, ast.Assign) and isinstance(st.targets[0], ast.Name) and st.targets[0].id == ngname]
    rep.ob("R-COVER", AFILE, "PixelAlgorithms.mean_grp", "num_groups is the number of distinct group ids (ids are 0..n-1, so every group is processed)",
           ngd in ([f"np.unique({gname}).size"], [f"len(np.unique({gname}))"], [f"np.unique({gname}).shape[0]"]), f"{ngname} = {ngd}", f"{ngname} = number of distinct ids")
    lens = [norm_stmt(n.test) for n in ast.walk(f) if isinstance(n, ast.If) and any(isinstance(x, ast.Raise) for x in n.body)]
    rep.ob("R-VALIDATE", AFILE, "PixelAlgorithms.mean_grp", "the label array must have the length of the time axis (ValueError otherwise)",
           any(t in (f"{gname}.size != self._obj.time.size", f"len({gname}) != len(self._obj.time)", f"{gname}.size != self._obj.sizes['time']") for t in lens),
           f"raising tests {lens}", f"{gname}: length check")
    from ..rules import r_truthy
    r_truthy(rep, repo, "PixelAlgorithms", "mean_grp", ["nodata"], "0 is a legitimate nodata value (it is the one the test-suite uses); a truth test silently replaces or drops it")
    r_truthy(rep, repo, "RollingWindowAlgos", "sum", ["nodata"], "0 is a legitimate nodata value (it is the one the test-suite uses); a truth test silently replaces or drops it")
    from ..rules import r_stateless
    r_stateless(rep, repo, [('PixelAlgorithms', 'mean_grp'), ('RollingWindowAlgos', 'sum')])
    rep.floor("C17 obligations", len(rep.obls), 30)
    return rep

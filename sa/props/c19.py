"""C19 — iterative aggregation yields exactly the complete trailing windows.

R-APISENTINEL: ``Index.get_indexer`` reports a missing label as -1 (it does not raise);
both results must be tested against that sentinel on every path before use, the failing
arm raising ValueError.  R-FORMULA on the window index arithmetic, stamping and the
reducer table.  Everything is decided on the syntax tree / CFG of ``_iteragg``.
"""
from __future__ import annotations

import ast
from typing import Dict, List, Optional

from ..cfg import CFG
from ..core import AnalysisError, Report, Repo, norm_stmt
from ..poly import Normaliser, Rat, Unsupported, int_cmp, parse_expr

MOD = "hdc.algo.accessors"
FILE = "hdc/algo/accessors.py"
CLS = "IterativeAggregation"


def names_read(node: ast.AST) -> set:
    return {n.id for n in ast.walk(node) if isinstance(n, ast.Name) and isinstance(n.ctx, ast.Load)}


def raises_valueerror(stmts: List[ast.stmt]) -> bool:
    if not stmts:
        return False
    last = stmts[-1]
    if not isinstance(last, ast.Raise) or last.exc is None:
        return False
    e = last.exc
    name = ast.unparse(e.func) if isinstance(e, ast.Call) else ast.unparse(e)
    return name == "ValueError"


def run(repo: Repo, tier: str) -> Report:
    rep = Report("C19")
    rep.decided = [
        "both Index.get_indexer results are compared with the -1 sentinel on every path before use; the failing arm raises ValueError (R-APISENTINEL)",
        "window index arithmetic: begin_ix = pos(begin)+1 (default: axis length), end_ix = pos(end) (default 0), descending loop to 1, "
        "stop at ii <= end_ix, window [ii-n, ii) only when ii-n >= 0 (R-FORMULA)",
        "stamping uses the same jj/ii as the region; reducer table sum->nansum, mean->nanmean, full->no reduction",
    ]
    rep.declined = ["semantics of xarray reduce/expand_dims/assign_attrs (trusted API)"]
    rep.trusted = ["CPython ast", "pandas contract: Index.get_indexer returns -1 for a label it cannot locate and does not raise KeyError",
                   "xarray reduce/expand_dims/isel semantics"]
    fn = repo.method(MOD, CLS, "_iteragg")
    params = [a.arg for a in fn.args.args]
    if len(params) != 7:
        raise AnalysisError(f"missing anchor: _iteragg(self, func, n, dim, begin, end, method) in {FILE}")
    _, p_func, p_n, p_dim, p_begin, p_end, p_method = params
    from ..rules import r_truthy
    r_truthy(rep, repo, CLS, "_iteragg", [p_begin, p_end], "0 / 0.0 is a legitimate label of a numeric axis; a truth test treats it as 'not given' and falls back to the first / last step",
             afile=FILE, module=MOD)
    from ..rules import r_position_truthy
    r_position_truthy(rep, repo, fn, f"{CLS}._iteragg", afile=FILE)
    cfg = CFG(fn)
    rep.analysed = {"function": f"{FILE}:{CLS}._iteragg", "cfg_nodes": len(cfg.nodes)}
    N = Normaliser()

    def ob(rule, role, ok, detail="", stmt=None, kind=""):
        rep.ob(rule, FILE, "_iteragg", role, ok, detail, stmt if stmt is not None else role, kind=kind)

    # ---- locate the two lookups
    lookups: Dict[str, dict] = {}
    for node in cfg.stmt_nodes():
        st = node.stmt
        if node.kind != "stmt" or not isinstance(st, ast.Assign):
            continue
        calls = [c for c in ast.walk(st.value) if isinstance(c, ast.Call) and isinstance(c.func, ast.Attribute)
                 and c.func.attr == "get_indexer"]
        if not calls:
            continue
        if len(calls) != 1:
            raise AnalysisError(f"unsupported construct: two get_indexer calls in one statement {FILE}:{st.lineno}")
        call = calls[0]
        tgt = st.targets[0]
        if isinstance(tgt, (ast.Tuple, ast.List)) and len(tgt.elts) == 1 and isinstance(tgt.elts[0], ast.Name):
            var = tgt.elts[0].id
        elif isinstance(tgt, ast.Name):
            raise AnalysisError(f"unsupported construct: get_indexer result kept as an array in {FILE}:{st.lineno}")
        else:
            raise AnalysisError(f"unsupported construct: get_indexer assignment target {FILE}:{st.lineno}")
        # offset: value = call + k
        marker = "GETIX"

        class Rep(ast.NodeTransformer):
            def visit_Call(self, c):
                if c is call:
                    return ast.Name(id=marker, ctx=ast.Load())
                return self.generic_visit(c)
        import copy
        val = Rep().visit(copy.deepcopy(st.value)) if False else None
        # do the replacement on a fresh parse to keep identity simple
        src = ast.unparse(st.value).replace(ast.unparse(call), marker)
        r = N.norm(parse_expr(src))
        k = (r - Rat.atom(marker)).const_value()
        if k is None:
            raise AnalysisError(f"unsupported construct: position is not get_indexer(...) + const in {FILE}:{st.lineno}")
        arg0 = call.args[0] if call.args else None
        label = None
        if isinstance(arg0, (ast.List, ast.Tuple)) and len(arg0.elts) == 1 and isinstance(arg0.elts[0], ast.Name):
            label = arg0.elts[0].id
        elif arg0 is not None:
            if isinstance(arg0, ast.Name):
                # a temporary: take the closest earlier assignment to it (same function, textually before the lookup)
                prev = [a_ for a_ in ast.walk(fn) if isinstance(a_, ast.Assign) and len(a_.targets) == 1 and isinstance(a_.targets[0], ast.Name)
                        and a_.targets[0].id == arg0.id and a_.lineno < st.lineno]
                if prev:
                    arg0 = max(prev, key=lambda a_: a_.lineno).value
            # the label reaches the lookup through a conversion: which label is it, and what was done to it?
            inside = [n_.id for n_ in ast.walk(arg0) if isinstance(n_, ast.Name) and n_.id in (p_begin, p_end)]
            if len(set(inside)) == 1:
                label = inside[0]
                ob("R-FORMULA", f"{label} is looked up exactly as given", False,
                   f"`{ast.unparse(arg0)}` converts the label before the lookup: a label between two axis values (or of another type) is changed into "
                   f"one that is found, so neither the ValueError nor the method-based resolution sees the caller's value", st)
        kws = {kw.arg: ast.unparse(kw.value) for kw in call.keywords}
        lookups[label or f"?{st.lineno}"] = dict(var=var, k=int(k), node=node, stmt=st, call=call, kws=kws,
                                                 index=ast.unparse(call.func.value))
    # ---- lookups made through a helper (a nested closure, a module-level function or a method that returns the position, possibly through
    # another such helper): `X = helper(.., label, ..) + k`. The sentinel obligation moves into the helper that calls get_indexer.
    if len(lookups) < 2:
        from ..rules import position_helpers
        possrc, pfuncs, callee_name, _ = position_helpers(repo, fn)
        for node in cfg.stmt_nodes():
            st = node.stmt
            if node.kind != "stmt" or not isinstance(st, ast.Assign) or len(st.targets) != 1:
                continue
            hcalls = [c for c in ast.walk(st.value) if isinstance(c, ast.Call) and callee_name(c) in possrc]
            if len(hcalls) != 1 or isinstance(st.value, (ast.BoolOp, ast.IfExp)):
                continue
            call = hcalls[0]
            tgt = st.targets[0]
            if isinstance(tgt, (ast.Tuple, ast.List)) and len(tgt.elts) == 1 and isinstance(tgt.elts[0], ast.Name):
                var = tgt.elts[0].id
            elif isinstance(tgt, ast.Name):
                var = tgt.id
            else:
                continue
            labs = [a.id for a in list(call.args) + [k_.value for k_ in call.keywords] if isinstance(a, ast.Name) and a.id in (p_begin, p_end)]
            if len(labs) != 1:
                continue
            src = ast.unparse(st.value).replace(ast.unparse(call), "GETIX")
            try:
                k = (N.norm(parse_expr(src)) - Rat.atom("GETIX")).const_value()
            except Unsupported:
                k = None
            if k is None:
                raise AnalysisError(f"unsupported construct: position is not helper(...) + const in {FILE}:{st.lineno}")
            info = _helper_lookup(pfuncs, callee_name, possrc, call, {p_method}, fn, depth=0)
            lookups[labs[0]] = dict(var=var, k=int(k), node=node, stmt=st, call=call, kws={"method": p_method if info["method_ok"] else None},
                                    index=info["index"] or "?", helper=info)
    rep.floor("get_indexer lookups", len(lookups), 2)
    for lab in (p_begin, p_end):
        if lab not in lookups:
            raise AnalysisError(f"missing anchor: get_indexer([{lab}]) lookup in _iteragg")

    # ---- R-APISENTINEL
    offsets_pending = []
    for lab, want_k in ((p_begin, 1), (p_end, 0)):
        lk = lookups[lab]
        var, k = lk["var"], lk["k"]
        if lk.get("helper") is not None:
            h_ = lk["helper"]
            ob("R-APISENTINEL", f"lookup of {lab} is checked against -1 before use", h_["sentinel_ok"] and h_["surfaces_valueerror"],
               f"through {' -> '.join(h_['chain'])}: {h_['detail']}", lk["stmt"], kind="must-pass-through inside the helper that calls get_indexer")
            ob("R-FORMULA", f"{lab}_ix offset", k == want_k,
               f"position of {lab} is helper(...) + {k}; the window arithmetic needs + {want_k}", lk["stmt"])
            ob("R-FORMULA", f"{lab} lookup passes the caller's method", lk["kws"].get("method") == p_method,
               f"method reaches get_indexer: {h_['method_ok']}", f"get_indexer([{lab}], method=...)")
            continue
        guards = set()
        for g in cfg.nodes:
            if g.kind != "if" or not isinstance(g.stmt.test, ast.Compare):
                continue
            t = g.stmt.test
            if var not in names_read(t):
                continue
            try:
                tag, d = int_cmp(t, N)
            except Unsupported:
                continue
            X = Rat.atom(var)
            catches = False
            if tag == "eq0" and d.equals(X - Rat.const(k - 1)):
                catches = True          # X == k-1   <=> result == -1
            elif tag == "eq0" and (-d).equals(X - Rat.const(k - 1)):
                catches = True
            elif tag == "le0" and d.equals(X - Rat.const(k - 1)):
                catches = True          # X <= k-1   <=> result <= -1
            if catches and raises_valueerror(g.stmt.body):
                guards.add(g.id)
        uses = [n for n in cfg.stmt_nodes()
                if n.id not in guards and n is not lk["node"] and var in names_read(_head(n))
                and lk["node"].id != n.id and n.id in cfg.reachable_from(lk["node"])]
        bad = []
        for u in uses:
            if not cfg.must_pass(lk["node"], guards, target=u):
                bad.append(u)
        ok = bool(uses) and not bad
        detail = ""
        if bad:
            u = bad[0]
            detail = (f"`{var}` (= get_indexer([{lab}]) + {k}) reaches `{norm_stmt(u.stmt)}` at line {u.line} on a path without a test "
                      f"for the missing-label sentinel ({var} == {k - 1}) that raises ValueError; an off-axis {lab} is then used as a position")
        ob("R-APISENTINEL", f"lookup of {lab} is checked against -1 before use", ok, detail, lk["stmt"],
           kind=f"must-pass-through over {len(uses)} use(s), {len(guards)} guard(s)")
        offsets_pending.append((lab, want_k, lk))
        ob("R-FORMULA", f"{lab} lookup passes the caller's method", lk["kws"].get("method") == p_method,
           f"keywords = {lk['kws']}", f"get_indexer([{lab}], method=...)")

    # the looked-up position may be carried on in a second variable (`pos = lookup; ...; begin_ix = pos + 1`, e.g. after a lookup helper was
    # inlined): the window arithmetic is then judged on that variable with the combined offset
    for lab in (p_begin, p_end):
        lk = lookups[lab]
        if lk.get("helper") is not None:
            continue
        v0 = lk["var"]
        derived = []
        other_defs = {n.id for n in cfg.stmt_nodes() if n.kind == "stmt" and n is not lk["node"] and isinstance(n.stmt, ast.Assign)
                      and any(isinstance(x, ast.Name) and x.id == v0 and isinstance(x.ctx, ast.Store) for t_ in n.stmt.targets for x in ast.walk(t_))}

        def reached(n):   # some path from this lookup to n does not pass another definition of the variable
            return n.id in cfg.reachable_from(lk["node"]) and (not other_defs or n.id in other_defs or not cfg.must_pass(lk["node"], other_defs, target=n))
        for n in cfg.stmt_nodes():
            st = n.stmt
            if n.kind == "stmt" and isinstance(st, ast.Assign) and len(st.targets) == 1 and isinstance(st.targets[0], ast.Name) \
                    and st.targets[0].id != v0 and v0 in names_read(st.value) and reached(n):
                try:
                    c_ = (N.norm(st.value) - Rat.atom(v0)).const_value()
                except Unsupported:
                    c_ = None
                if c_ is not None:
                    derived.append((st.targets[0].id, int(c_), n))
        other_uses = [n for n in cfg.stmt_nodes() if n.kind != "if" and n is not lk["node"] and v0 in names_read(_head(n)) and reached(n)
                      and n.id not in other_defs and not any(n is d_[2] for d_ in derived)]
        if len(derived) == 1 and not other_uses:
            lk["var2"], lk["k2"], lk["node2"] = derived[0][0], lk["k"] + derived[0][1], derived[0][2]
    for lab, want_k, lk in offsets_pending:
        kk_ = lk.get("k2", lk["k"])
        ob("R-FORMULA", f"{lab}_ix offset", kk_ == want_k,
           f"position of {lab} is get_indexer + {kk_}; the window arithmetic needs + {want_k}", lk["stmt"])
    begin_var, end_var = lookups[p_begin].get("var2", lookups[p_begin]["var"]), lookups[p_end].get("var2", lookups[p_end]["var"])

    # ---- defaults
    def default_of(var, lk):
        outs = []
        for n in cfg.stmt_nodes():
            st = n.stmt
            if n.kind == "stmt" and isinstance(st, ast.Assign) and isinstance(st.targets[0], ast.Name) \
                    and st.targets[0].id == var and n is not lk["node"] and n is not lk.get("node2"):
                outs.append(st)
        return outs
    db = default_of(begin_var, lookups[p_begin])
    axis_len = {f"self._obj.sizes[{p_dim}]", f"self._obj[{p_dim}].size", f"len({lookups[p_begin]['index']})",
                f"{lookups[p_begin]['index']}.size", f"self._obj.sizes[{p_dim!s}]"}
    ob("R-FORMULA", "default begin_ix is the axis length", len(db) == 1 and norm_stmt(db[0].value) in axis_len,
       f"default assignments: {[norm_stmt(s) for s in db]}", db[0] if db else "begin default")
    de = default_of(end_var, lookups[p_end])
    ob("R-FORMULA", "default end_ix is 0", len(de) == 1 and norm_stmt(de[0].value) == "0",
       f"default assignments: {[norm_stmt(s) for s in de]}", de[0] if de else "end default")

    # ---- the loop
    loops = [n for n in cfg.nodes if n.kind == "for"]
    if len(loops) != 1:
        raise AnalysisError(f"unsupported construct: expected one loop in _iteragg, found {len(loops)}")
    loop = loops[0].stmt
    ii = loop.target.id if isinstance(loop.target, ast.Name) else None
    okr = False
    if isinstance(loop.iter, ast.Call) and ast.unparse(loop.iter.func) == "range" and len(loop.iter.args) == 3:
        a, b, c = [N.norm(x) for x in loop.iter.args]
        okr = a.equals(Rat.atom(begin_var)) and b.equals(Rat.const(0)) and c.equals(Rat.const(-1))
    ob("R-FORMULA", "loop runs ii = begin_ix .. 1 descending", okr, f"loop is `{norm_stmt(loop)}`", loop)

    # environment of the body: jj etc.
    env: Dict[str, ast.expr] = {}
    yields = []
    breaks = []
    for n in cfg.stmt_nodes():
        st = n.stmt
        if n.kind == "stmt" and isinstance(st, ast.Assign) and isinstance(st.targets[0], ast.Name) and n.id in cfg.reachable_from(loops[0]):
            env.setdefault(st.targets[0].id, st.value)
        if n.kind == "stmt" and isinstance(st, ast.Expr) and isinstance(st.value, (ast.Yield, ast.YieldFrom)):
            yields.append(n)
        if n.kind == "stmt" and isinstance(st, ast.Break):
            breaks.append(n)
    scal = {k: v for k, v in env.items() if k not in (begin_var, end_var)}
    NN = Normaliser({k: v for k, v in scal.items() if isinstance(v, ast.BinOp)})
    I, E, Nn = Rat.atom(ii), Rat.atom(end_var), Rat.atom(p_n)

    if len(yields) != 1:
        raise AnalysisError(f"unsupported construct: expected one yield in _iteragg, found {len(yields)}")
    y = yields[0]
    # stop condition
    okb = False
    det = "no `break` guarded by ii <= end_ix"
    for b in breaks:
        for g, arm in cfg.guards_of(b):
            if arm and isinstance(g.stmt.test, ast.Compare):
                try:
                    tag, d = int_cmp(g.stmt.test, NN)
                except Unsupported:
                    continue
                if tag == "le0" and d.equals(I - E):
                    # the break test must be evaluated before the yield in each iteration
                    okb = cfg.must_pass(loops[0], {g.id}, target=y)
                    det = "" if okb else "the stop test does not precede the yield"
                else:
                    det = f"stop test is `{norm_stmt(g.stmt.test)}`; windows end between end and begin inclusive only with `ii <= end_ix`"
    ob("R-FORMULA", "iteration stops when ii <= end_ix", okb, det, breaks[0].stmt if breaks else "break")

    # guards of the yield
    conds = []
    for g, arm in cfg.guards_of(y):
        if not arm:
            continue
        t = g.stmt.test
        parts = t.values if isinstance(t, ast.BoolOp) and isinstance(t.op, ast.And) else [t]
        for p in parts:
            if isinstance(p, ast.Compare):
                try:
                    conds.append(int_cmp(p, NN))
                except Unsupported:
                    pass
    okc = any(tag == "le0" and d.equals(-(I - Nn)) for tag, d in conds)
    ob("R-FORMULA", "a window is yielded only when it fits inside the axis (ii - n >= 0)", okc,
       f"guards of the yield: {[(t, d.key()) for t, d in conds]}", y.stmt)
    extra = [(t, d) for t, d in conds if not (t == "le0" and d.equals(-(I - Nn))) and not (t == "eq0" and d.is_zero())]
    ob("R-FORMULA", "no further restriction on yielded windows", not extra,
       f"additional conditions {[(t, d.key()) for t, d in extra]} drop complete windows", f"guards of {norm_stmt(y.stmt)}")

    # region
    region_ok = False
    reg = env.get("region")
    region_src = None
    for v in env.values():
        for c in ast.walk(v):
            if isinstance(c, ast.Call) and ast.unparse(c.func) == "slice":
                region_src = c
    if region_src is not None and len(region_src.args) == 2:
        lo, hi = NN.norm(region_src.args[0]), NN.norm(region_src.args[1])
        region_ok = lo.equals(I - Nn) and hi.equals(I)
    ob("R-FORMULA", "region is the n steps [ii-n, ii)", region_ok,
       f"slice is {ast.unparse(region_src) if region_src is not None else None}", region_src if region_src is not None else "slice")

    # stamping
    attrs = None
    for v in env.values():
        for c in ast.walk(v):
            if isinstance(c, ast.Call) and isinstance(c.func, ast.Attribute) and c.func.attr == "assign_attrs" and c.args \
                    and isinstance(c.args[0], ast.Dict):
                attrs = c.args[0]
    if attrs is None:
        raise AnalysisError("missing anchor: assign_attrs({...}) in _iteragg")
    amap = {k.value: v for k, v in zip(attrs.keys, attrs.values) if isinstance(k, ast.Constant)}
    idx = lookups[p_begin]["index"]

    def sub_index(e):
        """str(_index[e]) -> normal form of e"""
        if isinstance(e, ast.Call) and ast.unparse(e.func) == "str" and len(e.args) == 1:
            e = e.args[0]
        if isinstance(e, ast.Subscript) and ast.unparse(e.value) == idx:
            return e.slice
        return None
    s0 = sub_index(amap.get("agg_start"))
    ob("R-FORMULA", "agg_start is the label of the window's first step", s0 is not None and not isinstance(s0, ast.Slice)
       and NN.norm(s0).equals(I - Nn), f"agg_start = {ast.unparse(amap['agg_start']) if 'agg_start' in amap else None}",
       amap.get("agg_start", "agg_start"))
    s1 = sub_index(amap.get("agg_stop"))
    ob("R-FORMULA", "agg_stop is the label of the window's last step", s1 is not None and not isinstance(s1, ast.Slice)
       and NN.norm(s1).equals(I - Rat.const(1)), f"agg_stop = {ast.unparse(amap['agg_stop']) if 'agg_stop' in amap else None}",
       amap.get("agg_stop", "agg_stop"))
    an = amap.get("agg_n")
    okn = False
    if isinstance(an, ast.Attribute) and an.attr == "size" and isinstance(an.value, ast.Subscript) and isinstance(an.value.slice, ast.Slice):
        sl = an.value.slice
        okn = (ast.unparse(an.value.value) == idx and sl.lower is not None and sl.upper is not None
               and NN.norm(sl.lower).equals(I - Nn) and NN.norm(sl.upper).equals(I) and sl.step is None)
    elif an is not None:
        try:
            okn = NN.norm(an).equals(Nn)
        except Unsupported:
            okn = False
    ob("R-FORMULA", "agg_n is the size of the window", okn, f"agg_n = {ast.unparse(an) if an is not None else None}", an if an is not None else "agg_n")

    # time stamp of reduced results
    exp = None
    for n in cfg.stmt_nodes():
        for c in ast.walk(n.stmt) if n.kind == "stmt" else []:
            if isinstance(c, ast.Call) and isinstance(c.func, ast.Attribute) and c.func.attr == "expand_dims":
                exp = c
    okx = False
    if exp is not None:
        kws = {k.arg: k.value for k in exp.keywords}
        tv = kws.get("time")
        if isinstance(tv, ast.List) and len(tv.elts) == 1:
            for c in ast.walk(tv.elts[0]):
                if isinstance(c, ast.Subscript) and ast.unparse(c.value) in ("self._obj.time", idx, "self._obj[dim]", "self._obj['time']"):
                    okx = NN.norm(c.slice).equals(I - Rat.const(1))
    ob("R-FORMULA", "reduced result is stamped with the window's last time step", okx,
       f"expand_dims call: {ast.unparse(exp) if exp is not None else None}", exp if exp is not None else "expand_dims")

    # reduce call uses func over dim, keeps attrs
    red = None
    for n in cfg.stmt_nodes():
        for c in ast.walk(n.stmt) if n.kind == "stmt" else []:
            if isinstance(c, ast.Call) and isinstance(c.func, ast.Attribute) and c.func.attr == "reduce":
                red = (c, n)
    okred = False
    if red is not None:
        c, n = red
        kws = {k.arg: ast.unparse(k.value) for k in c.keywords}
        args = [ast.unparse(a) for a in c.args]
        okred = args[:2] == [p_func, p_dim] and kws.get("keep_attrs") == "True"
        gs = [(norm_stmt(g.stmt.test), arm) for g, arm in cfg.guards_of(n)]
        base = [(norm_stmt(g.stmt.test), arm) for g, arm in cfg.guards_of(y)]
        extra_g = [g for g in gs if g not in base]
        # the reduction runs for EVERY yielded window of a reducing aggregator: its only own condition is `func is not None`
        okred = okred and extra_g == [(f"{p_func} is not None", True)]
    ob("R-FORMULA", "reduction applies func over dim, keeps the agg_* attrs, skipped when func is None", okred,
       f"reduce call: {ast.unparse(red[0]) if red else None}", red[0] if red else "reduce")

    # ---- reducer table
    want = {"sum": "np.nansum", "mean": "np.nanmean", "full": "None"}
    for name, f in want.items():
        m = repo.method(MOD, CLS, name)
        call = None
        for c in ast.walk(m):
            if isinstance(c, ast.Call) and ast.unparse(c.func) == "self._iteragg":
                call = c
        mp = [a.arg for a in m.args.args][1:]
        ok = call is not None and [ast.unparse(a) for a in call.args] == [f] + mp and mp == ["n", "dim", "begin", "end", "method"]
        rep.ob("R-WHOCALLS", FILE, name, f"iteragg.{name} reduces with {f} and forwards n, dim, begin, end, method", ok,
               f"call = {ast.unparse(call) if call is not None else None}", call if call is not None else name)

    from ..rules import r_stateless
    r_stateless(rep, repo, [('IterativeAggregation', '_iteragg'), ('IterativeAggregation', 'sum'), ('IterativeAggregation', 'mean'), ('IterativeAggregation', 'full')])
    rep.floor("C19 obligations", len(rep.obls), 20)
    return rep


def _returns_valueerror(fdef: ast.FunctionDef) -> bool:
    rets = [r for r in ast.walk(fdef) if isinstance(r, ast.Return)]
    return bool(rets) and all(isinstance(r.value, ast.Call) and ast.unparse(r.value.func) == "ValueError" for r in rets)


def _helper_lookup(pfuncs, callee_name, possrc, call: ast.Call, method_names: set, outer: ast.FunctionDef, depth: int) -> dict:
    """Follow `call` into the helper it names until the function that calls get_indexer; report whether the caller's method reaches the lookup,
    whether the -1 sentinel is tested (with a raising arm) on every path to a return, and whether the failure surfaces as ValueError."""
    name = callee_name(call)
    h = pfuncs[name]
    params = [a.arg for a in h.args.args]
    if params and params[0] in ("self", "cls") and isinstance(call.func, ast.Attribute):
        params = params[1:]
    bound = dict(zip(params, call.args))
    bound.update({k_.arg: k_.value for k_ in call.keywords if k_.arg})
    nested = any(n is h for n in ast.walk(outer))
    inner_methods = {pn for pn, av in bound.items() if isinstance(av, ast.Name) and av.id in method_names} | (set(method_names) if nested else set())
    out = dict(chain=[name], index=None, method_ok=False, sentinel_ok=False, surfaces_valueerror=False, detail="")
    # does a handler around the position-producing call convert KeyError into ValueError?
    converts = False
    for tr in ast.walk(h):
        if isinstance(tr, ast.Try):
            for hd in tr.handlers:
                if hd.type is not None and "KeyError" in ast.unparse(hd.type) and raises_valueerror_like(hd.body, pfuncs):
                    converts = True
    gi = [c for c in ast.walk(h) if isinstance(c, ast.Call) and isinstance(c.func, ast.Attribute) and c.func.attr == "get_indexer"]
    if gi:
        c = gi[0]
        kws = {k_.arg: ast.unparse(k_.value) for k_ in c.keywords}
        out["method_ok"] = kws.get("method") in inner_methods
        iv = c.func.value
        out["index"] = ast.unparse(bound[iv.id]) if isinstance(iv, ast.Name) and iv.id in bound else ast.unparse(iv)
        hc = CFG(h)
        NN_ = Normaliser()
        lookup_nodes = [n for n in hc.stmt_nodes() if n.kind == "stmt" and isinstance(n.stmt, ast.Assign) and any(x is c for x in ast.walk(n.stmt))]
        ok, detail, raised = False, "get_indexer result is not bound to a name", set()
        if lookup_nodes:
            ln = lookup_nodes[0]
            tg = ln.stmt.targets[0]
            pv = tg.elts[0].id if isinstance(tg, (ast.Tuple, ast.List)) and len(tg.elts) == 1 and isinstance(tg.elts[0], ast.Name) else None
            if pv is not None:
                src = ast.unparse(ln.stmt.value).replace(ast.unparse(c), "GETIX")
                try:
                    kk = (NN_.norm(parse_expr(src)) - Rat.atom("GETIX")).const_value()
                except Unsupported:
                    kk = None
                guards = set()
                for g in hc.nodes:
                    if g.kind != "if" or not isinstance(g.stmt.test, ast.Compare) or pv not in names_read(g.stmt.test) or kk is None:
                        continue
                    try:
                        tag, d = int_cmp(g.stmt.test, NN_)
                    except Unsupported:
                        continue
                    X = Rat.atom(pv)
                    if ((tag == "eq0" and (d.equals(X - Rat.const(kk - 1)) or (-d).equals(X - Rat.const(kk - 1))))
                            or (tag == "le0" and d.equals(X - Rat.const(kk - 1)))) and g.stmt.body and isinstance(g.stmt.body[-1], ast.Raise):
                        guards.add(g.id)
                        e_ = g.stmt.body[-1].exc
                        raised.add(ast.unparse(e_.func) if isinstance(e_, ast.Call) else ast.unparse(e_) if e_ is not None else "?")
                uses = [n for n in hc.stmt_nodes() if n.id not in guards and n is not ln and pv in names_read(_head(n)) and n.id in hc.reachable_from(ln)]
                bad = [u for u in uses if not hc.must_pass(ln, guards, target=u)]
                ok = bool(uses) and not bad and kk is not None
                detail = (f"`{pv}` is tested against the sentinel by {len(guards)} raising guard(s) before its {len(uses)} use(s) in {name}" if ok else
                          f"`{pv}` reaches `{norm_stmt(bad[0].stmt) if bad else 'no use'}` in {name} without a raising test for the missing-label sentinel")
        out["sentinel_ok"], out["detail"] = ok, detail
        out["raised"] = raised
        out["surfaces_valueerror"] = bool(raised) and all(r_ == "ValueError" or (r_ in pfuncs and _returns_valueerror(pfuncs[r_])) or (r_ == "KeyError" and converts)
                                                          for r_ in raised)
        return out
    if depth >= 2:
        out["detail"] = "helper chain too deep"
        return out
    inner = [c for c in ast.walk(h) if isinstance(c, ast.Call) and callee_name(c) in possrc and callee_name(c) != name]
    if not inner:
        out["detail"] = f"{name} neither calls get_indexer nor a position helper"
        return out
    sub = _helper_lookup(pfuncs, callee_name, possrc, inner[0], inner_methods, h if not nested else outer, depth + 1)
    sub["chain"] = [name] + sub["chain"]
    if not sub["surfaces_valueerror"] and sub.get("raised") and all(r_ in ("KeyError", "ValueError") for r_ in sub["raised"]) and converts:
        sub["surfaces_valueerror"] = True
    if isinstance(sub.get("index"), str) and sub["index"] in bound:
        sub["index"] = ast.unparse(bound[sub["index"]])
    return sub


def raises_valueerror_like(stmts, pfuncs) -> bool:
    if not stmts or not isinstance(stmts[-1], ast.Raise) or stmts[-1].exc is None:
        return False
    e = stmts[-1].exc
    nm = ast.unparse(e.func) if isinstance(e, ast.Call) else ast.unparse(e)
    return nm == "ValueError" or (nm in pfuncs and _returns_valueerror(pfuncs[nm]))


def _head(n):
    """The part of a CFG node that is evaluated at that node (test of an if, iter of a for)."""
    st = n.stmt
    if n.kind == "if":
        return st.test
    if n.kind == "for":
        return st.iter
    if n.kind == "while":
        return st.test
    if isinstance(st, ast.Try):
        return ast.Pass()
    return st

"""C15 — lag-1 autocorrelation is a Pearson correlation with mean-filled gaps.

Accumulator roles are identified by guard and addend (never by name); the code's result
expression is compared, as a rational normal form with sqrt atoms (squared, plus one
sign-determining point), with the closed form of the mean-filled Pearson correlation
derived from the statement; zero cases and divisions are guarded; the int/float copies
and the two layouts are siblings; site binding and declared dtype.
"""
from __future__ import annotations

import ast
from fractions import Fraction
from typing import Dict, List, Optional, Tuple

from ..core import AnalysisError, Report, Repo, norm_stmt
from ..kernels import kernel, load_kernels
from ..poly import Normaliser, Poly, Rat, SQRT_REGISTRY, desqrt, parse_expr
from ..rules import divguard, r_bind
from ..sites import const_list, load_sites
from ..symb import StoreCollector

FILE = "hdc/algo/ops/autocorr.py"
AFILE = "hdc/algo/accessors.py"
ROLES = ["Sx", "Sxx", "nx", "Sy", "Syy", "ny", "Sx_", "Sy_", "Sxy", "nxy"]


def eval_rat(r: Rat, env: Dict[str, Fraction]) -> Optional[float]:
    """Numeric value of a normal form at a point (used only to fix the sign of a square root identity)."""
    import math

    def atom_val(a: str) -> float:
        if a in env:
            return float(env[a])
        if a in SQRT_REGISTRY:
            v = eval_rat(SQRT_REGISTRY[a], env)
            return math.sqrt(v)
        raise KeyError(a)

    def pv(p: Poly) -> float:
        tot = 0.0
        for mono, c in p.t.items():
            t = float(c)
            for a, e in mono:
                t *= atom_val(a) ** e
            tot += t
        return tot
    d = pv(r.d)
    return pv(r.n) / d


def describe(repo: Repo, rep: Report, fname: str, kernels) -> Optional[dict]:
    k = kernel(kernels, fname)
    sc = StoreCollector(k.node, FILE, loop_atoms_by_name=True, strict=False).run()
    data = k.params[0]
    loops = [r for r in sc.regions if r.kind == "loop"]
    if len(loops) != 1:
        raise AnalysisError(f"unsupported construct: {fname} must have a single accumulation loop")
    lp = loops[0]
    i = lp.var
    X = Rat.atom(f"{data}[:-1][{i}]")
    Y = Rat.atom(f"{data}[1:][{i}]")
    okrange = lp.rng is not None and len(lp.rng) == 1 and lp.rng[0].key() == f"len0[{data}[:-1]]"
    rep.ob("R-COVER", FILE, fname, "the loop pairs every cell with its successor (X = data[:-1], Y = data[1:], all N = len-1 pairs)", okrange,
           f"loop {lp.label()}", lp.node, kind="affine")
    if fname.endswith("_int"):
        nd = k.params[1]
        vx, vy = f"ne0[-1*{data}[:-1][{i}] + {nd}]", f"ne0[-1*{data}[1:][{i}] + {nd}]"
    else:
        vx, vy = f"not[isnan[{data}[:-1][{i}]]]", f"not[isnan[{data}[1:][{i}]]]"
    want = {
        "Sx": ({vx}, X), "Sxx": ({vx}, X * X), "nx": ({vx}, Rat.const(1)),
        "Sy": ({vy}, Y), "Syy": ({vy}, Y * Y), "ny": ({vy}, Rat.const(1)),
        "Sx_": ({vx, vy}, X), "Sy_": ({vx, vy}, Y), "Sxy": ({vx, vy}, X * Y), "nxy": ({vx, vy}, Rat.const(1)),
    }
    found: Dict[str, str] = {}
    accs = []
    for name, ds in sc.scalars.items():
        for d in ds:
            if d.aug and d.region is lp:
                accs.append((name, d))
    for name, d in accs:
        add = d.rhs - Rat.atom(name)
        g = set(d.guards)
        for role, (wg, wa) in want.items():
            if g == wg and add.equals(wa) and role not in found:
                found[role] = name
                break
    from ..rules import no_early_exit
    no_early_exit(rep, sc, FILE, fname, "accumulation loop", loops=[lp])
    missing = [r for r in ROLES if r not in found]
    extra = [n for n, d in accs if n not in found.values()]
    rep.ob("R-FORMULA", FILE, fname, "the ten running sums (x, x^2, 1 | x valid; y, y^2, 1 | y valid; x, y, xy, 1 | both valid) exist with exactly these guards",
           not missing and not extra,
           f"missing roles {missing}; unmatched accumulators {[(n, d.rhs.key(), sorted(d.guards)) for n, d in accs if n in extra]}",
           f"{fname}: accumulator roles", kind="descriptor by guard and addend")
    for role, name in found.items():
        init = [d for d in sc.scalars[name] if not d.aug and d.region.kind == "line"]
        rep.ob("R-FORMULA", FILE, fname, f"{role} starts at 0", len(init) == 1 and init[0].rhs.equals(Rat.const(0)), "", init[0].stmt if init else name)
    if missing:
        return None
    rets = [e for e in sc.exits if e.kind == "return"]
    final = rets[-1]
    return dict(k=k, sc=sc, found=found, rets=rets, final=final, N=Rat.atom(f"len0[{data}[:-1]]"), vx=vx, vy=vy)


def run(repo: Repo, tier: str) -> Report:
    rep = Report("C15")
    rep.decided = [
        "accumulator roles (guard, addend) of both encodings", "result == mean-filled Pearson closed form (squared identity + sign)",
        "zero cases (no valid pair, no variance) return 0 before any division; divisions guarded",
        "int/nodata and float/NaN copies agree modulo the validity predicate; both layouts call the same per-pixel routine on their time slice; dispatch on nodata is None",
        "site binding, float32 declared and written",
    ]
    rep.declined = ["range bound [-1, 1] and affine invariance in floating point (true for the exact closed form by Cauchy-Schwarz)"]
    rep.trusted = ["CPython ast", "closed form: with gaps filled by the mean of the valid cells, N*cov = Sxy - mx*Sy_ - my*Sx_ + nxy*mx*my and N*var = Sxx - Sx^2/nx",
                   "if f^2 == g^2 as rational functions then f == +-g, one evaluation point fixes the sign"]
    kernels = load_kernels(repo)
    desc = {}
    for fname in ("autocorr_1d_int", "autocorr_1d_float"):
        d = describe(repo, rep, fname, kernels)
        if d is None:
            continue
        desc[fname] = d
        f = d["found"]
        A = {r: Rat.atom(n) for r, n in f.items()}
        mx, my = A["Sx"] / A["nx"], A["Sy"] / A["ny"]
        num = A["Sxy"] - mx * A["Sy_"] - my * A["Sx_"] + A["nxy"] * mx * my
        SSx = A["Sxx"] - A["Sx"] * A["Sx"] / A["nx"]
        SSy = A["Syy"] - A["Sy"] * A["Sy"] / A["ny"]
        res = d["final"].value
        lhs = desqrt(res * res) * SSx * SSy
        rhs = num * num
        ok_sq = lhs.equals(rhs)
        # sign at one point (all sums positive, gappy)
        pt = {f["Sx"]: Fraction(50), f["Sxx"]: Fraction(300), f["nx"]: Fraction(9), f["Sy"]: Fraction(55), f["Syy"]: Fraction(390), f["ny"]: Fraction(9),
              f["Sx_"]: Fraction(41), f["Sy_"]: Fraction(46), f["Sxy"]: Fraction(290), f["nxy"]: Fraction(8), d["N"].key(): Fraction(10)}
        try:
            sv = eval_rat(res, pt)
            sr = eval_rat(num, pt)
            ok_sign = sv * sr > 0
        except (KeyError, ValueError, ZeroDivisionError):
            ok_sign = False
            sv = sr = None
        ok = ok_sq and ok_sign
        detail = ""
        if not ok:
            detail = (f"code returns {res.key()} ; the mean-filled Pearson correlation of the statement is "
                      f"[{num.key()}] / sqrt([{SSx.key()}]*[{SSy.key()}]) (squares equal: {ok_sq}, same sign at the probe point: {ok_sign}). "
                      f"The code's numerator is the covariance of the valid pairs around the pair means; it coincides with the statement only when there are no gaps")
        canon_key = res
        for r_, n_ in f.items():
            canon_key = _rename(canon_key, n_, "<" + r_ + ">")
        canon_key = _rename(canon_key, d["N"].key(), "<N>")
        rep.ob("R-FORMULA", FILE, fname, "result == Pearson correlation of the mean-filled vectors", ok, detail,
               "result = " + canon_key.key(), line=d["final"].stmt.lineno, kind="normal-form equality (squared) + sign")
        # zero cases
        zero = [e for e in d["rets"][:-1] if e.value is not None and e.value.const_value() == 0]
        conds = [e.guards[-1] if e.guards else "" for e in zero]
        rep.ob("R-FORMULA", FILE, fname, "no valid pair returns 0", f"eq0[{f['nxy']}]" in conds, f"zero returns under {conds}", zero[0].stmt if zero else "return 0")
        novar = [c for c in conds if c.startswith("or[lt0[") and c.count("lt0[") == 2]
        rep.ob("R-FORMULA", FILE, fname, "no variance in either vector returns 0", len(novar) == 1, f"zero returns under {[c[:80] for c in conds]}",
               zero[-1].stmt if zero else "return 0")
        # the final division is reached only when both variances passed the threshold
        fin_g = [g for g in d["final"].guards if g.startswith("ge0[")]
        rep.ob("R-DIVGUARD", FILE, fname, "the normalisation is reached only with both variances above the threshold", len(fin_g) == 2,
               f"guards of the final return: {[g[:60] for g in d['final'].guards]}", f"guards of {norm_stmt(d['final'].stmt)}")
    divguard(rep, repo, kernels, ["autocorr_1d_int", "autocorr_1d_float"], flavours=("scalar",))
    # ---- products and sums are formed in 64 bit whatever the input dtype (same value for int16 / float32 / float64 encodings)
    from ..typedir import typed_facts
    tf = [f for f in typed_facts(repo.root, ["autocorr", "autocorr_tyx"]) if f["kernel"] in ("autocorr_1d_int", "autocorr_1d_float") and f["ok"]]
    rep.floor("typed autocorr_1d_* records", len(tf), 4)
    WIDE = {"float64", "int64"}
    for f in tf:
        bad = [b for b in f["binops"] + f["inplace"] if b["fn"] in ("mul", "add", "iadd", "sub") and not (b["lhs"] in WIDE and b["rhs"] in WIDE)
               and not (b["lhs"].startswith("array") or b["rhs"].startswith("array"))]
        rep.ob("R-ACC", FILE, f["kernel"], f"running sums and products are formed in 64 bit for input {f['args'][0]}", not bad,
               "; ".join(f"line {b['line']}: {b['lhs']} {b['fn']} {b['rhs']}" for b in bad[:4]) +
               (": squares of float32 / int16 samples lose bits or wrap before they are accumulated, so the encodings disagree" if bad else ""),
               f"{f['kernel']}({f['args'][0]}): operand types of sums and products", kind="typed IR")

    # ---- siblings: int vs float
    if len(desc) == 2:
        a, b = desc["autocorr_1d_int"], desc["autocorr_1d_float"]

        def canon(d):
            ren = {n: Rat.atom(r) for r, n in d["found"].items()}
            ren[d["N"].key()] = Rat.atom("N")
            from .c11 import _subst_atom
            r = d["final"].value
            # rename accumulators to their roles
            out = r
            for n, atom in ren.items():
                out = _rename(out, n, atom.key())
            return out
        ca, cb = canon(a), canon(b)
        rep.ob("R-SIBLING(encoding)", FILE, "autocorr_1d_int/float", "integer/nodata and float/NaN copies compute the same expression of the same sums",
               desqrt(ca * ca).equals(desqrt(cb * cb)), f"int: {ca.key()} ; float: {cb.key()}", "autocorr_1d_int vs autocorr_1d_float")
    # ---- dispatcher
    disp = kernel(kernels, "autocorr_1d")
    dsc = StoreCollector(disp.node, FILE, strict=False).run()
    dd, dn = disp.params[:2]
    defs = dsc.scalars.get("result", [])
    arms = {tuple(d.guards): d.rhs.key() for d in defs}
    okd = arms.get((f"is[{dn};None]",)) == f"autocorr_1d_float[{dd}]" and arms.get((f"not[is[{dn};None]]",)) == f"autocorr_1d_int[{dd};{dn}]"
    if not okd:
        okd = arms.get((f"is[{dn};None]",)) == f"autocorr_1d_float[{dd}]" and any(v == f"autocorr_1d_int[{dd};{dn}]" for v in arms.values())
    if not okd:
        # the same decision written with direct returns (early return, if/else of returns): value returned on each arm
        arms = {}
        for e in [e_ for e_ in dsc.exits if e_.kind == "return" and e_.value is not None]:
            if e.value.key() == "result":
                for d in defs:
                    if d.seq < e.seq:
                        arms[tuple(e.guards) + tuple(d.guards)] = d.rhs.key()
            else:
                arms[tuple(e.guards)] = e.value.key()
        isn, notn = f"is[{dn};None]", (f"not[is[{dn};None]]", f"isnot[{dn};None]")
        fl = [v for g, v in arms.items() if isn in g]
        it = [v for g, v in arms.items() if any(x in g for x in notn)]
        other = [v for g, v in arms.items() if isn not in g and not any(x in g for x in notn)]
        okd = fl == [f"autocorr_1d_float[{dd}]"] and it == [f"autocorr_1d_int[{dd};{dn}]"] and not other
    rep.ob("R-FORMULA", FILE, "autocorr_1d", "float/NaN routine when nodata is None, integer/nodata routine otherwise", okd, f"arms: {arms}", "dispatch on nodata is None")
    # ---- layouts
    for fn, sl in (("autocorr", "{x}[{r},{c},:]"), ("autocorr_tyx", "{x}[:,{r},{c}]")):
        k = kernel(kernels, fn)
        s_ = StoreCollector(k.node, FILE, loop_atoms_by_name=True, strict=False).run()
        xp, ndp = k.params[:2]
        st = [s for s in s_.stores if s.region.kind == "loop"]
        ok = False
        det = "no per-pixel store"
        if len(st) == 1:
            inner = st[0].region
            outer = inner.parent
            r, c = outer.var, inner.var
            want_rhs = f"autocorr_1d[{sl.format(x=xp, r=r, c=c)};{ndp}]"
            dims = ("len0", "len1") if fn == "autocorr" else ("len1", "len2")
            ok = (st[0].rhs.key() == want_rhs and st[0].idx_key == f"{r},{c}" and outer.rng[0].key() == f"{dims[0]}[{xp}]"
                  and inner.rng[0].key() == f"{dims[1]}[{xp}]")
            det = f"store {st[0].arr}[{st[0].idx_key}] = {st[0].rhs.key()} in {outer.label()} / {inner.label()}; required {want_rhs}"
        rep.ob("R-SIBLING(layout)", FILE, fn, f"every pixel gets autocorr_1d of its own time slice ({'time last' if fn == 'autocorr' else 'time first'})", ok, det,
               st[0].stmt if st else fn)
        al = [a for a in s_.allocs.values() if ast.unparse(a.func).split(".")[-1] == "zeros"]
        okt = len(al) == 1 and "float32" in ast.unparse(al[0])
        rep.ob("R-DTYPE-DECL", FILE, fn, "result raster is float32", okt, f"alloc {[norm_stmt(a) for a in al]}", al[0] if al else "zeros")
    # ---- sites
    sites = [s for s in load_sites(repo, kernels) if s.kernel in ("autocorr", "autocorr_tyx")]
    rep.floor("autocorr call sites", len(sites), 3)
    for s in sites:
        r_bind(rep, s, kernels[s.kernel])
        if s.mode == "apply_ufunc":
            rep.ob("R-DTYPE-DECL", AFILE, s.where(), "apply_ufunc site declares float32", const_list(s.opts.get("output_dtypes")) == ["float32"],
                   f"{ast.unparse(s.opts.get('output_dtypes')) if s.opts.get('output_dtypes') is not None else None}", "autocorr output_dtypes", line=s.line)
        if s.mode == "map_blocks":
            o = {k_: ast.unparse(v) for k_, v in s.opts.items()}
            rep.ob("R-DTYPE-DECL", AFILE, s.where(), "map_blocks site declares float32 and drops the time axis", o.get("dtype") == "'float32'" and o.get("drop_axis") == "0",
                   f"options {o}", "autocorr_tyx map_blocks options", line=s.line)
    m = repo.method("hdc.algo.accessors", "PixelAlgorithms", "autocorr")
    txt = ast.unparse(m)
    from ..rules import guard_chain
    T_ = "xx.dims[0] == 'time'"
    arms_ok = True
    seen_arms = []
    for s in sites:
        pol = [p_ for t_, p_ in guard_chain(m, s.call, canonical=True) if t_ in (T_, "'time' == xx.dims[0]")]
        seen_arms.append((s.kernel, s.mode, pol))
        arms_ok = arms_ok and pol == [s.kernel == "autocorr_tyx"]
    rep.ob("R-SIBLING(layout)", AFILE, "PixelAlgorithms.autocorr", "time-first data go to autocorr_tyx, everything else through apply_ufunc (time moved last) to autocorr",
           arms_ok and len(sites) >= 3, f"(kernel, mode, arm of `{T_}`): {seen_arms}", "dispatch on dims[0] == 'time'")
    # the time-first arm labels the result itself: remaining dims in order, every coordinate but time, the kernel's data
    das = [n for n in ast.walk(m) if isinstance(n, ast.Call) and ast.unparse(n.func).endswith("DataArray")]
    kw = {k_.arg: norm_stmt(k_.value) for k_ in das[0].keywords} if das else {}
    cnodes = [st.value for st in ast.walk(m) if isinstance(st, ast.Assign) and isinstance(st.targets[0], ast.Name) and st.targets[0].id == "coords"]
    cdefs = [norm_stmt(c) for c in cnodes]

    def all_but_time(c) -> bool:
        # {k: v for k, v in xx.coords.items() if k != 'time'} with any variable names
        if not (isinstance(c, ast.DictComp) and len(c.generators) == 1):
            return False
        g = c.generators[0]
        if not (isinstance(g.target, ast.Tuple) and len(g.target.elts) == 2 and all(isinstance(e, ast.Name) for e in g.target.elts)):
            return False
        kn, vn = g.target.elts[0].id, g.target.elts[1].id
        return (norm_stmt(g.iter) == "xx.coords.items()" and isinstance(c.key, ast.Name) and c.key.id == kn and isinstance(c.value, ast.Name) and c.value.id == vn
                and len(g.ifs) == 1 and norm_stmt(g.ifs[0]) in (f"{kn} != 'time'", f"'time' != {kn}", f"not {kn} == 'time'"))
    okl = (len(das) == 1 and kw.get("data") == "data" and kw.get("dims") in ("xx.dims[1:]", "tuple(xx.dims[1:])", "list(xx.dims[1:])") and kw.get("coords") == "coords"
           and len(cnodes) == 1 and all_but_time(cnodes[0]))
    rep.ob("R-BIND", AFILE, "PixelAlgorithms.autocorr", "time-first arm: the (y, x) result is labelled with the input's remaining dims in their order and all coordinates but time", okl,
           f"DataArray({kw}); coords = {cdefs}", das[0] if das else "xarray.DataArray(...)")
    from ..rules import r_truthy
    r_truthy(rep, repo, "PixelAlgorithms", "autocorr", ["nodata"], "0 is a legitimate nodata value (it is the one the test-suite uses); a truth test silently replaces or drops it")
    from ..rules import r_stateless
    r_stateless(rep, repo, [('PixelAlgorithms', 'autocorr')])
    rep.floor("C15 obligations", len(rep.obls), 40)
    return rep


def _tok_replace(text: str, old: str, new: str) -> str:
    import re
    return re.sub(r"(?<![A-Za-z0-9_<])" + re.escape(old) + r"(?![A-Za-z0-9_>])", new, text)


def _rename(r: Rat, old: str, new: str) -> Rat:
    def ren_poly(p: Poly) -> Poly:
        t = {}
        for mono, c in p.t.items():
            m2 = tuple(sorted(((new if a == old else _tok_replace(a, old, new) if a.startswith("sqrt[") else a), e) for a, e in mono))
            t[m2] = t.get(m2, 0) + c
        return Poly(t)
    out = Rat(ren_poly(r.n), ren_poly(r.d))
    # keep the sqrt registry in step
    for a in list(SQRT_REGISTRY):
        if old in a:
            SQRT_REGISTRY[_tok_replace(a, old, new)] = _rename_inner(SQRT_REGISTRY[a], old, new)
    return out


def _rename_inner(r: Rat, old: str, new: str) -> Rat:
    def ren_poly(p: Poly) -> Poly:
        t = {}
        for mono, c in p.t.items():
            m2 = tuple(sorted(((new if a == old else a), e) for a, e in mono))
            t[m2] = t.get(m2, 0) + c
        return Poly(t)
    return Rat(ren_poly(r.n), ren_poly(r.d))

"""C07 — SPI equals the gamma-MLE / zero-mixture / normal-quantile definition.

R-FORMULA: the code's expressions (after reaching-definition substitution) are compared,
as rational normal forms over uninterpreted special-function atoms, with the formula given
in the property statement; counting/fit loops are compared as guard descriptors; the order
scale -> round -> store of the drivers; the calibration slice; R-VENDOR overloads; R-BIND.
"""
from __future__ import annotations

import ast
from typing import Dict, List

from ..core import AnalysisError, Report, Repo, norm_stmt
from ..poly import Normaliser, Rat, Unsupported, parse_expr
from ..rules import r_bind
from ..sites import load_sites
from ..typedir import typed_facts
from .spi_common import FILE, SPI

AFILE = "hdc/algo/accessors.py"


def _regrouped(repo) -> str:
    """Name that holds the dense re-encoding of the group labels in spi (today the re-bound parameter `groups`; C09 decides the pipeline itself)."""
    m = repo.method("hdc.algo.accessors", "PixelAlgorithms", "spi")
    for st in ast.walk(m):
        if isinstance(st, ast.Assign) and isinstance(st.value, ast.Call) and ast.unparse(st.value.func) == "to_linspace" \
                and isinstance(st.targets[0], ast.Tuple) and st.targets[0].elts and isinstance(st.targets[0].elts[0], ast.Name):
            return st.targets[0].elts[0].id
    return "groups"


def run(repo: Repo, tier: str) -> Report:
    rep = Report("C07")
    rep.decided = [
        "gammastd stores ndtri(p0 + (1-p0)*gammainc(alpha, x/beta)) exactly for cells that are not nodata and >= 0; other cells keep nodata",
        "p0 = n_zero/n_valid counted over the whole series (skip nodata; zeros; values >= 0)",
        "gammafit: sums over values > 0, s = log(mean) - mean(log), Thom estimate, bracket +-40%, Brent root function log(a) - digamma(a) - s, beta = mean/alpha",
        "the fit receives exactly x[cal_start:cal_stop]", "drivers scale valid cells by 1000, then round, then store; both drivers agree",
        "special functions bind float64 overloads for every declared input dtype (typed IR)", "argument binding of the two spi sites",
    ]
    rep.declined = ["agreement with SciPy to one unit (accuracy of the Brent port, of the MLE root, of float32 logarithms)",
                    "the Brent iteration itself (only its root function, bracket and call are checked)"]
    rep.trusted = ["CPython ast", "Numba type inference", "scipy.special.gammainc/ndtri/digamma are the regularised lower incomplete gamma, "
                   "the inverse normal CDF and psi", "np.round rounds half to even"]
    spi = SPI(repo)
    x, nd, cs, ce = spi.x, spi.nodata, spi.cs, spi.ce
    sc = spi.sc["gammastd"]
    rep.analysed = {"functions": sorted(spi.k), "stores": {n: len(c.stores) for n, c in spi.sc.items()}}

    def ob(rule, fn, role, ok, detail="", stmt=None, kind=""):
        rep.ob(rule, FILE, fn, role, ok, detail, stmt if stmt is not None else role, kind=kind)

    from .spi_common import threshold_rule
    threshold_rule(ob, spi)
    # ---- 2. counting loop
    if spi.zero is None or spi.valid is None:
        ob("R-FORMULA", "gammastd", "zero and valid counters are identifiable by their guards", False,
           f"no counter incremented under `== 0` / `>= 0` in the loop over the series (found {list(spi.count_defs)})", "counting loop")
        return rep
    skip = f"ne0[-1*elem[{x}] + {nd}]"
    for role, name, cond in (("n_zero counts cells == 0", spi.zero, f"eq0[elem[{x}]]"), ("n_valid counts cells >= 0", spi.valid, f"ge0[elem[{x}]]")):
        ds = spi.count_defs[name]
        d = ds[0]
        inc1 = d.rhs.equals(Rat.atom(name) + Rat.const(1))
        from ..symb import minimal_guards
        guards = sorted(minimal_guards(d.guards))
        ok = len(ds) == 1 and inc1 and guards == sorted([skip, cond])
        ob("R-FORMULA", "gammastd", f"{role}, skipping nodata, over the whole series", ok,
           f"increment {d.rhs.key()} under {guards}; required +1 under exactly {sorted([skip, cond])}", d.stmt)
        init = [s for s in sc.scalars[name] if not s.aug]
        ob("R-FORMULA", "gammastd", f"{name} starts at 0", len(init) == 1 and init[0].rhs.equals(Rat.const(0)) and not init[0].guards, "", init[0].stmt if init else name)

    # ---- 1. the formula
    stores = [s for s in sc.stores if s.arr not in spi.k["gammastd"].params]
    cell_stores = [s for s in stores if s.region.kind == "loop"]
    rep.floor("gammastd cell stores", len(cell_stores), 1)
    final = cell_stores[-1]
    out = final.arr
    ix = final.region.var
    ref = Normaliser().norm(parse_expr(
        f"ndtri({spi.zero}/{spi.valid} + (1 - {spi.zero}/{spi.valid}) * gammainc(alpha_, {x}[{ix}] / beta_)))".replace(")))", "))")))
    # alpha/beta: whatever names the code uses for the two fit results: substitute their atoms
    alpha_defs = [n for n, ds in sc.scalars.items() if any("item0[gammafit[" in d.rhs.key() for d in ds)]
    beta_defs = [n for n, ds in sc.scalars.items() if any("item1[gammafit[" in d.rhs.key() for d in ds)]
    if len(alpha_defs) != 1 or len(beta_defs) != 1:
        raise AnalysisError("missing anchor: alpha, beta = gammafit(...) in gammastd")
    A, B = alpha_defs[0], beta_defs[0]
    ref = Normaliser({"alpha_": Rat.atom(A), "beta_": Rat.atom(B)}).norm(parse_expr(
        f"ndtri({spi.zero}/{spi.valid} + (1 - {spi.zero}/{spi.valid}) * gammainc(alpha_, {x}[{ix}] / beta_))"))
    # alpha/beta are multiply defined (fit or override): they stay atoms in the store's rhs
    ok = final.rhs.equals(ref)
    ob("R-FORMULA", "gammastd", "index = ndtri(p0 + (1 - p0) * gammainc(alpha, x / beta)), p0 = n_zero / n_valid", ok,
       "" if ok else f"code = {final.rhs.key()} ; statement requires {ref.key()}", final.stmt, kind="normal-form equality")
    data_guards = sorted(g for g in final.guards if f"{x}[{ix}]" in g)
    want_g = sorted([f"ne0[-1*{nd} + {x}[{ix}]]", f"ge0[{x}[{ix}]]"])
    ob("R-FORMULA", "gammastd", "the index is computed exactly for cells that are not nodata and >= 0", data_guards == want_g,
       f"cell guards {data_guards}; required {want_g}", f"guards of {norm_stmt(final.stmt)}")
    okr = isinstance(final.region.rng, list) and len(final.region.rng) == 1 and final.region.rng[0].key() in (f"len0[{x}]",)
    ob("R-COVER", "gammastd", "every cell of the series is visited", okr, f"loop: {final.region.label()}", final.region.node)
    al = sc.allocs.get(out)
    ob("R-FORMULA", "gammastd", "cells that are not computed keep nodata (output initialised with nodata)",
       al is not None and norm_stmt(al).startswith("np.full(") and ast.unparse(al.args[1]) == nd,
       f"allocation: {norm_stmt(al) if al is not None else None}", sc.alloc_stmts.get(out, out))
    from ..rules import no_early_exit
    no_early_exit(rep, sc, FILE, "gammastd", "counting loop and cell loop",
                  allowed={("continue", f"eq0[-1*elem[{x}] + {nd}]"), ("continue", f"eq0[-1*{nd} + {x}[{ix}]]")})
    no_early_exit(rep, spi.sc["gammafit"], FILE, "gammafit", "accumulation over the calibration sample")
    # ---- 4. calibration slice
    fit_arg = f"gammafit[{x}[{cs}:{ce}]]"
    a_def = [d for d in sc.scalars[A] if "gammafit[" in d.rhs.key()][0]
    ob("R-FORMULA", "gammastd", "the fit receives exactly the calibration slice x[cal_start:cal_stop]",
       a_def.rhs.key() == f"item0[{fit_arg}]", f"fit argument: {a_def.rhs.key()}", a_def.stmt)
    # the fit is used unless the caller overrides BOTH parameters: the overrides default to 0 and the two drivers do not pass them
    gnode = spi.k["gammastd"].node
    gpar = [a_.arg for a_ in gnode.args.args]
    gdef = dict(zip(gpar[len(gpar) - len(gnode.args.defaults):], [ast.unparse(d_) for d_ in gnode.args.defaults]))
    over = gpar[4:6]
    ob("R-FORMULA", "gammastd", "the parameter overrides default to 0 (= fit from the calibration sample)", len(over) == 2 and all(gdef.get(o_) in ("0", "0.0") for o_ in over),
       f"defaults {gdef}", gnode.args)
    for drv in ("gammastd_yxt", "gammastd_grp"):
        calls = [c for c in ast.walk(spi.k[drv].node) if isinstance(c, ast.Call) and ast.unparse(c.func) == "gammastd"]
        okc = len(calls) == 1 and len(calls[0].args) <= 4 and not any(k_.arg in over for k_ in calls[0].keywords)
        ob("R-BIND", drv, "the driver lets gammastd fit the distribution (no alpha/beta override is passed)", okc,
           f"calls: {[ast.unparse(c) for c in calls]}", calls[0] if calls else f"{drv}: gammastd(...)")
    if len(over) == 2:
        gfit = sorted(a_def.guards)
        need_g = sorted([f"eq0[{over[0]}]", f"eq0[{over[1]}]"])
        ob("R-FORMULA", "gammastd", "the fit is used exactly when neither override is given (a == 0 and b == 0)", [g_ for g_ in gfit if g_ in need_g] == need_g and
           not [g_ for g_ in gfit if g_.startswith(("ne0[" + over[0], "ne0[" + over[1]))],
           f"guards of `alpha, beta = gammafit(...)`: {gfit}; required {need_g}", a_def.stmt)
        odefs = [d_ for d_ in sc.scalars[A] if d_ is not a_def]
        ob("R-FORMULA", "gammastd", "otherwise alpha and beta are the caller's overrides", len(odefs) == 1 and odefs[0].rhs.key() in (over[0], f"item0[tuple[{over[0]};{over[1]}]]"),
           f"other definitions of alpha: {[d_.rhs.key() for d_ in odefs]}", odefs[0].stmt if odefs else "alpha, beta = (a, b)")
    n_fit = sum(1 for c in ast.walk(spi.k["gammastd"].node) if isinstance(c, ast.Call) and ast.unparse(c.func) == "gammafit")
    ob("R-FORMULA", "gammastd", "gammafit is called once", n_fit == 1, f"{n_fit} calls", "gammafit(...)")

    # ---- 3. gammafit
    fsc = spi.sc["gammafit"]
    fx = spi.k["gammafit"].params[0]
    pos = f"gt0[elem[{fx}]]"
    roles = {}
    for name, ds in fsc.scalars.items():
        for d in ds:
            if d.aug and d.region.kind == "loop" and d.region.iter_key == fx:
                add = d.rhs - Rat.atom(name)
                if add.equals(Rat.atom(f"elem[{fx}]")):
                    roles["sum"] = (name, d)
                elif add.equals(Rat.atom(f"log[elem[{fx}]]")):
                    roles["logsum"] = (name, d)
                elif add.equals(Rat.const(1)):
                    roles["n"] = (name, d)
    for r in ("sum", "logsum", "n"):
        if r not in roles:
            ob("R-FORMULA", "gammafit", f"accumulator `{r}` over the positive values exists", False, f"found roles {sorted(roles)}", f"accumulator {r}")
            return rep
        name, d = roles[r]
        ob("R-FORMULA", "gammafit", f"`{r}` accumulates exactly the values > 0", list(d.guards) == [pos],
           f"guards {list(d.guards)}; required [{pos}]", d.stmt)
        init = [s for s in fsc.scalars[name] if not s.aug and s.region.kind == "line"]
        ob("R-FORMULA", "gammafit", f"`{r}` starts at 0", bool(init) and init[0].rhs.equals(Rat.const(0)), "", init[0].stmt if init else name)
    S, L, Nn = roles["sum"][0], roles["logsum"][0], roles["n"][0]
    sref = Normaliser().norm(parse_expr(f"log({S}/{Nn}) - {L}/{Nn}"))
    aest = f"(3 - ({sref_src(S, L, Nn)}) + sqrt((({sref_src(S, L, Nn)}) - 3)**2 + 24*({sref_src(S, L, Nn)})))/(12*({sref_src(S, L, Nn)}))"
    aref = Normaliser().norm(parse_expr(aest))
    # the brentq call
    bcalls = [c for c in ast.walk(spi.k["gammafit"].node) if isinstance(c, ast.Call) and ast.unparse(c.func) == "brentq"]
    if len(bcalls) != 1 or len(bcalls[0].args) != 3:
        raise AnalysisError("missing anchor: a = brentq(xa, xb, s) in gammafit")
    # find the scalar whose rhs is the brentq atom
    adefs = [(n, d) for n, ds in fsc.scalars.items() for d in ds if d.rhs.key().startswith("brentq[")]
    if len(adefs) != 1:
        raise AnalysisError("missing anchor: result of brentq in gammafit")
    an, ad = adefs[0]
    want = f"brentq[{(aref * Rat.const(parse_frac('0.6'))).key()};{(aref * Rat.const(parse_frac('1.4'))).key()};{sref.key()}]"
    ob("R-FORMULA", "gammafit", "Brent is called on [0.6, 1.4] x Thom's estimate with s = log(mean) - mean(log)", ad.rhs.key() == want,
       "" if ad.rhs.key() == want else f"code = {ad.rhs.key()[:300]} ; required {want[:300]}", ad.stmt, kind="normal-form equality")
    # beta = mean / alpha
    rets = [e for e in fsc.exits if e.kind == "return" and e.value is not None]
    final_ret = rets[-1]
    bref = f"tuple[{ad.rhs.key()};{(Normaliser().norm(parse_expr(f'{S}/{Nn}')) / ad.rhs).key()}]"
    ob("R-FORMULA", "gammafit", "returns (alpha, mean / alpha)", final_ret.value.key() == bref,
       "" if final_ret.value.key() == bref else f"code = {final_ret.value.key()[:200]}", final_ret.stmt)
    zero_rets = [e for e in rets[:-1]]
    conds = [tuple(e.guards)[-1] for e in zero_rets]
    ob("R-FORMULA", "gammafit", "unfittable samples (no positive value, zero spread, no root) return (0, 0)",
       len(zero_rets) == 3 and all(e.value.key() == "tuple[0;0]" for e in zero_rets) and conds[0] == f"eq0[{Nn}]"
       and conds[1] == f"eq0[{sref.key()}]" and conds[2] == f"eq0[{ad.rhs.key()}]",
       f"early returns under {[c[:80] for c in conds]}", zero_rets[0].stmt if zero_rets else "return (0, 0)")
    # ---- Brent root function
    bq = spi.k["brentq"]
    bp = bq.params
    lam = [n for n in ast.walk(bq.node) if isinstance(n, ast.Lambda)]
    okl = False
    det = "no lambda root function"
    if len(lam) == 1 and len(lam[0].args.args) == 1:
        a = lam[0].args.args[0].arg
        got = Normaliser().norm(lam[0].body)
        refl = Normaliser().norm(parse_expr(f"log({a}) - digamma({a}) - {bp[2]}"))
        okl = got.equals(refl)
        det = f"code = {got.key()}"
    ob("R-FORMULA", "brentq", "root function is log(a) - digamma(a) - s", okl, det, lam[0] if lam else "lambda")
    bsc = spi.sc["brentq"]
    f0 = [d for n, ds in bsc.scalars.items() for d in ds if d.rhs.key() in (f"func[{bp[0]}]", f"func[{bp[1]}]") and d.region.kind == "line"]
    ob("R-FORMULA", "brentq", "the function is evaluated at both bracket ends first", {d.rhs.key() for d in f0} == {f"func[{bp[0]}]", f"func[{bp[1]}]"},
       f"initial evaluations: {[d.rhs.key() for d in f0]}", "fpre = func(xa); fcur = func(xb)")
    r0 = [e for e in bsc.exits if e.kind == "return" and e.region.kind == "line" and e.value is not None and e.value.const_value() == 0]
    ob("R-FORMULA", "brentq", "no sign change in the bracket returns 0 (treated as no fit)",
       any(tuple(e.guards) == (f"gt0[func[{bp[0]}]*func[{bp[1]}]]",) for e in r0), f"returns of 0 under {[e.guards for e in r0]}", r0[0].stmt if r0 else "return 0.0")

    # ---- 5. drivers: scale -> round -> store
    for drv in ("gammastd_yxt", "gammastd_grp"):
        d = spi.sc[drv]
        k = spi.k[drv]
        dnd = "nodata"
        scale = [s for s in d.stores if "1000" in s.rhs.key() and s.arr not in k.params]
        rnd = [c for c in d.calls if c.func == "round"]
        narrow = [s for s in d.stores if s.arr in (k.params + ["y"]) and s.rhs.key().endswith("[:]")]
        if len(scale) != 1 or len(rnd) != 1 or len(narrow) != 1:
            ob("R-ORDER", drv, "one scale, one round, one store statement", False,
               f"scale={len(scale)} round={len(rnd)} store={len(narrow)}", f"{drv}: scale/round/store")
            continue
        sca, r, nar = scale[0], rnd[0], narrow[0]
        buf = sca.arr
        ob("R-ORDER", drv, "scale by 1000, then round half-to-even in place, then store", sca.seq < r.seq < nar.seq and r.args == [buf, "0", buf]
           and nar.rhs.key() == f"{buf}[:]", f"order scale@{sca.seq} round@{r.seq}{r.args} store@{nar.seq} of {nar.rhs.key()}", nar.stmt)
        # scaled cells: exactly the non-nodata cells; value = 1000 * index (inside a range restriction, see C08)
        inner = _strip_clip(sca.rhs.key())
        cell = f"{buf}[{sca.idx_key}]"
        okv = inner in (f"1000*{cell}",)
        sel_ok = (f"ne0[-1*{dnd} + {cell}]" in sca.guards) or sca.idx_key == f"ne0[-1*{dnd} + {buf}]"
        ob("R-FORMULA", drv, "exactly the non-nodata cells are multiplied by 1000", okv and sel_ok,
           f"scaled value {sca.rhs.key()} at index {sca.idx_key} under {list(sca.guards)[-1:]}", sca.stmt)
        # the scaling runs whenever the pixel has a valid index at all: the only condition it may sit under (besides the per-cell nodata test) is
        # "some cell of the result is not nodata"
        anyv = {f"any[ne0[-1*{dnd} + {buf}]]", f"gt0[sum[ne0[-1*{dnd} + {buf}]]]"}
        extra = [g_ for g_ in sca.guards if g_ not in anyv and g_ != f"ne0[-1*{dnd} + {cell}]" and not g_.startswith("any[ne0[-1*") and not g_.startswith("gt0[sum[ne0[-1*")]
        ob("R-FORMULA", drv, "every pixel with a valid index is scaled (the block is conditional on `some cell != nodata` at most)", not extra,
           f"scaling runs under {list(sca.guards)}: the extra condition(s) {extra} leave the raw (unscaled) index in some pixels", sca.stmt)
        src = d.allocs.get(buf)
        ob("R-FORMULA", drv, "the scaled buffer is the result of gammastd on the pixel with the caller's window",
           src is not None and ast.unparse(src.func) == "gammastd" and len(src.args) == 4 and ast.unparse(src.args[1]) == dnd,
           f"buffer = {norm_stmt(src) if src is not None else None}", d.alloc_stmts.get(buf, buf))
    # ---- 6. R-VENDOR (typed IR)
    facts = [f for f in typed_facts(repo.root, ["gammastd_grp"]) if f["ok"]]
    n = 0
    for f in facts:
        for c in f["calls"]:
            nm = c["callee"].split(":")[-1]
            if nm in ("psi", "digamma", "gammainc", "ndtri"):
                n += 1
                ok = c["args"] is not None and all("float64" in a for a in c["args"]) and c["ret"] == "float64"
                k = spi.kernels[f["kernel"]]
                rep.ob("R-VENDOR", FILE, k.name, f"scipy.special.{nm} binds the all-float64 overload", ok,
                       f"typed {c['args']} -> {c['ret']} for ({', '.join(f['args'])})", f"{nm} @ {k.name}({f['args'][0]})", line=c["line"])
    rep.floor("typed special-function calls", n, 5)
    # ---- 7. R-BIND
    sites = [s for s in load_sites(repo, spi.kernels) if s.kernel in ("gammastd_yxt", "gammastd_grp")]
    rep.floor("spi call sites", len(sites), 2)
    for s in sites:
        r_bind(rep, s, spi.kernels[s.kernel])
        if s.kernel == "gammastd_yxt":
            kw = {k: ast.unparse(v) for k, v in s.kwargs.items()}
            rep.ob("R-BIND", AFILE, s.where(), "ungrouped site passes nodata and the window by keyword", kw ==
                   {"nodata": "nodata", "cal_start": "calstart_ix", "cal_stop": "calstop_ix"}, f"kwargs = {kw}", "kwargs of gammastd_yxt site", line=s.line)
        else:
            rep.ob("R-BIND", AFILE, s.where(), "grouped site passes (groups, num_groups, nodata, cal_indices) in the kernel's order",
                   [ast.unparse(a) for a in s.args] == ["self._obj", _regrouped(repo), "num_groups", "nodata", "cal_indices"],
                   f"args = {[ast.unparse(a) for a in s.args]}", "args of gammastd_grp site", line=s.line)
    from ..rules import r_truthy
    r_truthy(rep, repo, "PixelAlgorithms", "spi", ["nodata"], "0 is a legitimate nodata value (it is the one the test-suite uses); a truth test silently replaces or drops it")
    from ..rules import r_stateless
    r_stateless(rep, repo, [('PixelAlgorithms', 'spi')])
    # the calibration sample IS part of the definition: the window indices handed to the kernels select exactly the steps begin <= t <= end
    from .c09 import check_calibration_indices
    check_calibration_indices(rep, repo)
    rep.floor("C07 obligations", len(rep.obls), 40)
    return rep


def sref_src(S, L, Nn) -> str:
    return f"log({S}/{Nn}) - {L}/{Nn}"


def parse_frac(s: str):
    from fractions import Fraction
    return Fraction(s)


def _strip_clip(key: str) -> str:
    """min[max[E;lo];hi] / clip[E;lo;hi] -> E"""
    k = key
    if k.startswith("min[max[") and k.count(";") >= 2:
        inner = k[len("min[max["):]
        return inner.split(";")[0]
    if k.startswith("clip["):
        return k[len("clip["):].split(";")[0]
    if k.startswith("max[min["):
        return k[len("max[min["):].split(";")[0]
    return k

"""C01 — the Whittaker core is the LDL' solve of (W + lambda D'D) z = W y.

Decides the exact-arithmetic clause by comparing, row class by row class, the normal
form (E4) of every store in ``ws2d`` with the LDL' identities for the band matrix
W + lambda*D'D, D = second-difference operator.  The reference band table is computed
here from the definition of D (not copied from the code).  The float64 clause is
declined.
"""
from __future__ import annotations

import ast
from fractions import Fraction
from typing import Dict, List, Tuple

from ..core import AnalysisError, Report, Repo, norm_stmt
from ..poly import Normaliser, Poly, Rat, parse_expr
from ..symb import Store, StoreCollector

LEVEL = "proof"
MOD = "hdc.algo.ops.ws2d"
FILE = "hdc/algo/ops/ws2d.py"


# ------------------------------------------------------------------ reference band table


def dtd_band(n: int):
    """D'D for the second-difference operator on n points: (diag, off1, off2) lists."""
    rows = n - 2
    D = [[0] * n for _ in range(rows)]
    for r in range(rows):
        D[r][r], D[r][r + 1], D[r][r + 2] = 1, -2, 1
    A = [[sum(D[k][i] * D[k][j] for k in range(rows)) for j in range(n)] for i in range(n)]
    for i in range(n):
        for j in range(n):
            if abs(i - j) > 2 and A[i][j] != 0:
                raise AssertionError("D'D is not pentadiagonal")
            if A[i][j] != A[j][i]:
                raise AssertionError("D'D is not symmetric")
    diag = [A[i][i] for i in range(n)]
    off1 = [A[i + 1][i] for i in range(n - 1)]
    off2 = [A[i + 2][i] for i in range(n - 2)]
    return diag, off1, off2


def reference_classes():
    """Row classes 0, 1, interior, m-1, m: (diag, off1 below, off2 below) — stable for all n >= 4.

    Verified here for n = 4..40 (the band of D'D is a stencil; the classes do not depend
    on n once n >= 4).
    """
    ref = None
    for n in range(4, 41):
        diag, off1, off2 = dtd_band(n)
        m = n - 1
        cls = {
            "0": (diag[0], off1[0], off2[0]),
            "1": (diag[1], off1[1], off2[1] if n > 3 and 1 < len(off2) else None),
            "M-1": (diag[m - 1], off1[m - 1], None),
            "M": (diag[m], None, None),
        }
        if n >= 5:
            inter = {(diag[r], off1[r], off2[r]) for r in range(2, m - 1)}
            if len(inter) != 1:
                raise AssertionError("interior rows of D'D are not uniform")
            cls["ROW"] = inter.pop()
        if ref is None:
            ref = dict(cls)
        for k, v in cls.items():
            if k in ref and ref[k] != v and not (k == "1" and n == 4):
                raise AssertionError(f"row class {k} of D'D depends on n")
            ref.setdefault(k, v)
    return ref


# ------------------------------------------------------------------ the rule


def _drop_weight_guard(fn: ast.FunctionDef, w: str) -> ast.FunctionDef:
    """`w * where(w > 0, y, 0)` = `w * y` on the property's domain (w >= 0, y finite): where w > 0 the selection is y, where w = 0 both sides
    are 0. (The guard only matters for non-finite y at zero-weight cells, which C02 - not C01 - speaks about.) Rewritten on a copy."""
    import copy
    fn = copy.deepcopy(fn)

    def guarded(e):
        if isinstance(e, ast.Call) and ast.unparse(e.func) in ("where", "np.where", "numpy.where") and len(e.args) == 3 and not e.keywords:
            c, a, b = e.args
            if isinstance(c, ast.Compare) and len(c.ops) == 1 and isinstance(b, ast.Constant) and not isinstance(b.value, bool) and b.value == 0:
                l, r = c.left, c.comparators[0]
                if isinstance(c.ops[0], (ast.Gt, ast.NotEq)) and isinstance(l, ast.Name) and l.id == w and isinstance(r, ast.Constant) and r.value == 0:
                    return a
                if isinstance(c.ops[0], ast.Lt) and isinstance(r, ast.Name) and r.id == w and isinstance(l, ast.Constant) and l.value == 0:
                    return a
        return None

    def has_w_factor(e) -> bool:
        if isinstance(e, ast.Name):
            return e.id == w
        return isinstance(e, ast.BinOp) and isinstance(e.op, ast.Mult) and (has_w_factor(e.left) or has_w_factor(e.right))

    class T(ast.NodeTransformer):
        def visit_Call(self, node):
            # where(w > 0, w * y, 0): the selected product already vanishes where w = 0
            self.generic_visit(node)
            g = guarded(node)
            if g is not None and has_w_factor(g):
                return g
            return node

        def visit_BinOp(self, node):
            self.generic_visit(node)
            if isinstance(node.op, ast.Mult):
                for x, y_ in ((node.left, node.right), (node.right, node.left)):
                    g = guarded(y_)
                    if isinstance(x, ast.Name) and x.id == w and g is not None:
                        return ast.copy_location(ast.BinOp(left=x, op=ast.Mult(), right=g), node)
            return node
    fn = ast.fix_missing_locations(T().visit(fn))
    # an elementwise product of two parameter arrays kept in a vector (`wy = w * y`, read as `wy[i]`) is the product of the elements
    pars = {a.arg for a in fn.args.args}
    prods = {}
    for st in fn.body:
        if isinstance(st, ast.Assign) and len(st.targets) == 1 and isinstance(st.targets[0], ast.Name) and isinstance(st.value, ast.BinOp) \
                and isinstance(st.value.op, ast.Mult) and isinstance(st.value.left, ast.Name) and isinstance(st.value.right, ast.Name) \
                and {st.value.left.id, st.value.right.id} <= pars and st.value.left.id != st.value.right.id:
            prods[st.targets[0].id] = (st, st.value.left.id, st.value.right.id)
    for v, (st, a, b) in list(prods.items()):
        stores = [n for n in ast.walk(fn) if isinstance(n, ast.Name) and n.id == v and isinstance(n.ctx, ast.Store)]
        loads = [n for n in ast.walk(fn) if isinstance(n, ast.Name) and n.id == v and isinstance(n.ctx, ast.Load)]
        subs = [n for n in ast.walk(fn) if isinstance(n, ast.Subscript) and isinstance(n.value, ast.Name) and n.value.id == v]
        if len(stores) != 1 or len(loads) != len(subs) or any(not isinstance(n.ctx, ast.Load) for n in subs):
            continue

        class S(ast.NodeTransformer):
            def visit_Subscript(self, node):
                self.generic_visit(node)
                if isinstance(node.value, ast.Name) and node.value.id == v and isinstance(node.ctx, ast.Load):
                    return ast.copy_location(ast.BinOp(left=ast.Subscript(value=ast.Name(id=a, ctx=ast.Load()), slice=copy.deepcopy(node.slice), ctx=ast.Load()),
                                                       op=ast.Mult(),
                                                       right=ast.Subscript(value=ast.Name(id=b, ctx=ast.Load()), slice=copy.deepcopy(node.slice), ctx=ast.Load())), node)
                return node
        fn.body = [x for x in fn.body if x is not st]
        fn = ast.fix_missing_locations(S().visit(fn))
    return fn


def analyse(repo: Repo):
    """Collect the store table of ws2d with roles resolved. Returns dict used by C01/C06."""
    fn = repo.func(MOD, "ws2d")
    params = [a.arg for a in fn.args.args]
    if len(params) < 3:
        raise AnalysisError(f"missing anchor: ws2d(y, lmda, w) parameters in {FILE}")
    fn = _drop_weight_guard(fn, params[2])
    pren = {params[0]: Rat.atom("y"), params[1]: Rat.atom("lmda"), params[2]: Rat.atom("w")}

    def collect(extra_env):
        sc = StoreCollector(fn, FILE, track_cells=False)
        sc.env.update(pren)
        sc.env.update(extra_env)
        # renamed arrays must survive allocation statements
        sc.keep = set(extra_env)
        return sc.run()

    sc0 = collect({})
    if len(sc0.returns) != 1 or not isinstance(sc0.returns[0].value, ast.Name):
        raise AnalysisError(f"unsupported construct: ws2d must return one array name ({FILE})")
    zname = sc0.returns[0].value.id
    arrays: Dict[str, int] = {}
    for s in sc0.stores:
        arrays[s.arr] = arrays.get(s.arr, 0) + 1
    others = [a for a in arrays if a != zname and a not in params]
    # D: the array whose cells occur in denominators of stores to other arrays
    den_count = {a: 0 for a in others}
    for s in sc0.stores:
        for at in s.rhs.d.atoms():
            for a in others:
                if at.startswith(a + "[") and s.arr != a:
                    den_count[a] += 1
    if len(others) != 3:
        raise AnalysisError(
            f"unsupported construct: expected three band-factor arrays besides the result in ws2d, found {sorted(others)}")
    dname = max(others, key=lambda a: (den_count[a], a == "d"))
    rest = sorted([a for a in others if a != dname], key=lambda a: (-arrays[a], a))
    cname, ename = rest
    ren = {zname: Rat.atom("z"), dname: Rat.atom("d"), cname: Rat.atom("c"), ename: Rat.atom("e")}
    sc = collect(ren)
    names = {zname: "z", dname: "d", cname: "c", ename: "e"}
    return fn, sc, names, params


def row_key(idx: Rat) -> str:
    """Map an index normal form to a row class label."""
    NN = Rat.atom("len0[y]")
    table = {
        "0": Rat.const(0), "1": Rat.const(1), "ROW": Rat.atom("ROW"),
        "M-1": NN - Rat.const(2), "M": NN - Rat.const(1),
    }
    for k, v in table.items():
        if idx.equals(v):
            return k
    return "?" + idx.key()


def run(repo: Repo, tier: str) -> Report:
    rep = Report("C01")
    rep.decided = [
        "every store of ws2d equals the LDL' identity of W + lambda*D'D for its row class (R-FORMULA)",
        "forward rows cover 0..m once in ascending order, backward rows m..0 in descending order (E5)",
        "no store outside the factor/result arrays; the result array is returned",
    ]
    rep.declined = ["float64 relative error <= 1e-6 for lambda in [1e-6, 1e8] (rounding-error growth is a runtime quantity)"]
    rep.trusted = [
        "CPython ast",
        "lemma: for symmetric positive-definite pentadiagonal A the factorisation A = L diag(d) L' with unit "
        "lower-triangular band L is unique and is characterised row by row by the three identities checked here",
        "lemma: W + lambda*D'D is positive definite when >= 2 weights are positive and lambda > 0 (no zero pivot)",
    ]
    fn0 = repo.func(MOD, "ws2d")
    pre = [n for n in ast.walk(fn0) if isinstance(n, (ast.If, ast.While, ast.Try, ast.IfExp, ast.With, ast.Break, ast.Continue, ast.Raise))]
    rets = [n for n in ast.walk(fn0) if isinstance(n, ast.Return)]
    if pre or len(rets) != 1:
        bad = pre[0] if pre else rets[0]
        rep.ob("R-STRAIGHT", FILE, "ws2d", "the solver has no data- or parameter-dependent branch or early exit (one algorithm for every input)", False,
               f"`{norm_stmt(bad)}` special-cases some inputs ({len(rets)} return statement(s)): the result is no longer the solution of "
               f"(W + lambda D'D) z = W y for all of them", bad)
        return rep
    fn, sc, names, params = analyse(repo)
    ref = reference_classes()
    rep.analysed = {"function": f"{FILE}:ws2d", "stores": len(sc.stores), "regions": [r.label() for r in sc.regions],
                    "roles": {v: k for k, v in names.items()}, "reference_band_classes": {k: list(v) for k, v in ref.items()}}

    env = {"NN": Rat.atom("len0[y]")}

    def R(expr: str) -> Rat:
        return Normaliser(dict(env)).norm(parse_expr(expr))

    rowexpr = {"0": "0", "1": "1", "ROW": "ROW", "M-1": "(NN-2)", "M": "(NN-1)"}
    has = {"0": (False, False), "1": (True, False), "ROW": (True, True), "M-1": (True, True), "M": (True, True)}

    # group stores
    by: Dict[Tuple[str, str], List[Store]] = {}
    unexpected: List[Store] = []
    for s in sc.stores:
        rk = row_key(s.idx)
        if s.arr not in ("z", "d", "c", "e") and s.arr not in names.values():
            # stores keep their actual names; map
            pass
        arr = names.get(s.arr, s.arr)
        if arr not in ("z", "d", "c", "e") or rk.startswith("?"):
            unexpected.append(s)
            continue
        by.setdefault((arr, rk), []).append(s)

    for s in unexpected:
        rep.ob("R-READONLY/STRAY", FILE, "ws2d", "unexpected store", False,
               f"store to {s.arr}[{s.idx.key()}] is not part of the LDL' scheme (inputs must not be written; "
               f"row index must be one of 0, 1, i, m-1, m)", s.stmt)

    def first(arr, rk):
        lst = by.get((arr, rk))
        return lst[0] if lst else None

    def check(role, arr, rk, store_ix, expected: Rat, rule="R-FORMULA"):
        lst = by.get((arr, rk), [])
        if len(lst) <= store_ix:
            rep.ob(rule, FILE, "ws2d", role, False,
                   f"no store #{store_ix + 1} to {arr}[{rowexpr[rk]}] found (row class {rk})", f"{arr}[{rk}]")
            return None
        s = lst[store_ix]
        ok = s.rhs.equals(expected)
        rep.ob(rule, FILE, "ws2d", role, ok,
               "" if ok else f"code = {s.rhs.key()} ; LDL' identity requires {expected.key()}",
               s.stmt, kind="normal-form equality", region=s.region.label())
        return s

    order: List[Tuple[str, int, int]] = []  # (rowclass, minseq, maxseq) of forward stores
    for rk in ("0", "1", "ROW", "M-1", "M"):
        r = rowexpr[rk]
        diag, off1, off2 = ref[rk]
        h1, h2 = has[rk]
        seqs = []
        # diagonal pivot
        exp = f"w[{r}] + ({diag})*lmda"
        if h1:
            exp += f" - c[{r}-1]*c[{r}-1]*d[{r}-1]"
        if h2:
            exp += f" - e[{r}-2]*e[{r}-2]*d[{r}-2]"
        sd = check(f"pivot d[{rk}]", "d", rk, 0, R(exp))
        if off1 is not None:
            exp = f"(({off1})*lmda" + (f" - d[{r}-1]*c[{r}-1]*e[{r}-1]" if h1 else "") + f")/d[{r}]"
            s1 = check(f"first sub-diagonal c[{rk}]", "c", rk, 0, R(exp))
            if sd and s1 and not sd.seq < s1.seq:
                rep.ob("R-ORDER", FILE, "ws2d", f"d[{rk}] before c[{rk}]", False, "pivot is read before it is stored", s1.stmt)
            if s1:
                seqs.append(s1.seq)
        if off2 is not None:
            s2 = check(f"second sub-diagonal e[{rk}]", "e", rk, 0, R(f"(({off2})*lmda)/d[{r}]"))
            if sd and s2 and not sd.seq < s2.seq:
                rep.ob("R-ORDER", FILE, "ws2d", f"d[{rk}] before e[{rk}]", False, "pivot is read before it is stored", s2.stmt)
            if s2:
                seqs.append(s2.seq)
        # forward substitution
        fwd = f"w[{r}]*y[{r}]" + (f" - c[{r}-1]*z[{r}-1]" if h1 else "") + (f" - e[{r}-2]*z[{r}-2]" if h2 else "")
        if rk == "M":
            lst = by.get(("z", "M"), [])
            if len(lst) == 1:
                sz = check("forward+scale z[M]", "z", rk, 0, R(f"({fwd})/d[{r}]"))
            else:
                sz = check("forward z[M]", "z", rk, 0, R(fwd))
                check("scale z[M]", "z", rk, 1, R(f"z[{r}]/d[{r}]"))
        else:
            sz = check(f"forward substitution z[{rk}]", "z", rk, 0, R(fwd))
        if sd:
            seqs.append(sd.seq)
        if sz:
            seqs.append(sz.seq)
        if seqs:
            order.append((rk, min(seqs), max(seqs)))

    # backward sweep
    b1 = check("back substitution z[M-1]", "z", "M-1", 1, R("z[NN-2]/d[NN-2] - c[NN-2]*z[NN-1]"))
    b2 = check("back substitution z[i]", "z", "ROW", 1, R("z[ROW]/d[ROW] - c[ROW]*z[ROW+1] - e[ROW]*z[ROW+2]"))
    # rows 0 and 1 receive their back substitution in the backward loop (same loop as ROW):
    # the loop's range must reach them, checked below.

    # extra stores (more than expected per cell class)
    expected_counts = {("z", "0"): 1, ("z", "1"): 1, ("z", "ROW"): 2, ("z", "M-1"): 2, ("z", "M"): 1,
                       ("d", "0"): 1, ("d", "1"): 1, ("d", "ROW"): 1, ("d", "M-1"): 1, ("d", "M"): 1,
                       ("c", "0"): 1, ("c", "1"): 1, ("c", "ROW"): 1, ("c", "M-1"): 1,
                       ("e", "0"): 1, ("e", "1"): 1, ("e", "ROW"): 1}
    for key, lst in by.items():
        allowed = expected_counts.get(key, 0)
        if key == ("z", "M"):
            allowed = 2
        for s in lst[allowed:]:
            rep.ob("R-READONLY/STRAY", FILE, "ws2d", "surplus store", False,
                   f"additional store to {key[0]}[{key[1]}] beyond the LDL' scheme", s.stmt)

    # --- coverage and order (E5)
    M = R("NN-1")
    fwd_loop = None
    bwd_loop = None
    for (arr, rk), lst in by.items():
        if arr == "z" and rk == "ROW":
            if lst:
                fwd_loop = lst[0].region
            if len(lst) > 1:
                bwd_loop = lst[1].region
    ok = False
    detail = "forward loop not found"
    if fwd_loop is not None and fwd_loop.kind == "loop":
        rng = fwd_loop.rng
        step_ok = len(rng) == 2 or (len(rng) == 3 and rng[2].equals(Rat.const(1)))
        lo = rng[0] if len(rng) >= 2 else Rat.const(0)
        hi = rng[1] if len(rng) >= 2 else rng[0]
        ok = step_ok and lo.equals(Rat.const(2)) and hi.equals(M - Rat.const(1))
        detail = "" if ok else (f"interior loop is range({', '.join(x.key() for x in rng)}); rows 2..m-2 require "
                                f"range(2, m-1) so that with explicit rows 0, 1, m-1, m every row is eliminated exactly once")
    rep.ob("R-COVER", FILE, "ws2d", "forward rows cover 0..m exactly once", ok, detail,
           fwd_loop.node if fwd_loop and fwd_loop.node is not None else "forward loop", kind="affine")
    ok = False
    detail = "backward loop not found"
    if bwd_loop is not None and bwd_loop.kind == "loop":
        rng = bwd_loop.rng
        ok = (len(rng) == 3 and rng[2].equals(Rat.const(-1)) and rng[0].equals(M - Rat.const(2))
              and rng[1].equals(Rat.const(-1)))
        detail = "" if ok else (f"backward loop is range({', '.join(x.key() for x in rng)}); rows m-2..0 require "
                                f"range(m-2, -1, -1)")
    rep.ob("R-COVER", FILE, "ws2d", "backward rows cover m-2..0 exactly once, descending", ok, detail,
           bwd_loop.node if bwd_loop and bwd_loop.node is not None else "backward loop", kind="affine")
    if fwd_loop is not None and bwd_loop is not None and fwd_loop is bwd_loop:
        rep.ob("R-ORDER", FILE, "ws2d", "phase separation", False, "forward and backward sweeps share a loop", fwd_loop.node)

    # ascending order of forward row classes; backward after forward
    ok = all(order[k][2] < order[k + 1][1] for k in range(len(order) - 1)) and len(order) == 5
    rep.ob("R-ORDER", FILE, "ws2d", "forward elimination proceeds in ascending row order", ok,
           "" if ok else f"row classes are not processed in the order 0, 1, i, m-1, m: {order}", "forward sweep")
    last_fwd = max([o[2] for o in order] or [0])
    back_seqs = [s.seq for s in (b1, b2) if s is not None]
    ok = bool(back_seqs) and min(back_seqs) > last_fwd and (b1 is None or b2 is None or b1.seq < b2.seq)
    rep.ob("R-ORDER", FILE, "ws2d", "back substitution follows the forward sweep, descending", ok,
           "" if ok else "a back-substitution store precedes a forward store, or row m-1 is substituted after the loop",
           "backward sweep")

    # --- straight-line discipline: no branch, no early exit, no reassignment of the inputs, fresh distinct work arrays
    branches = [n for n in ast.walk(fn) if isinstance(n, (ast.If, ast.While, ast.Try, ast.IfExp, ast.With, ast.Break, ast.Continue, ast.Raise))]
    rep.ob("R-STRAIGHT", FILE, "ws2d", "the solver has no data- or parameter-dependent branch (one algorithm for every input)", not branches,
           f"`{norm_stmt(branches[0])}` special-cases some inputs: the result is no longer the solution of (W + lambda D'D) z = W y for all of them" if branches else "",
           branches[0] if branches else "ws2d: control flow")
    reassigned = [n for n in ast.walk(fn) if isinstance(n, ast.Name) and isinstance(n.ctx, ast.Store) and n.id in params]
    rep.ob("R-STRAIGHT", FILE, "ws2d", "y, lambda and w are used as passed (never reassigned)", not reassigned,
           f"parameter `{reassigned[0].id}` is reassigned at line {reassigned[0].lineno}" if reassigned else "", "ws2d: parameters")
    inv = {v: k for k, v in names.items()}
    allocs = {}
    for st_ in fn.body:
        if isinstance(st_, ast.Assign) and isinstance(st_.targets[0], ast.Name) and st_.targets[0].id in inv.values():
            allocs.setdefault(st_.targets[0].id, []).append(st_)
    nsym = None
    for st_ in fn.body:
        if isinstance(st_, ast.Assign) and isinstance(st_.targets[0], ast.Name) and ast.unparse(st_.value) in (f"{params[0]}.shape[0]", f"len({params[0]})", f"{params[0]}.size"):
            nsym = st_.targets[0].id
    fresh_ok = True
    detail = []
    zero_src = None
    for role in ("z", "d", "c", "e"):
        nm = inv.get(role)
        sts = allocs.get(nm, [])
        if len(sts) != 1:
            fresh_ok = False
            detail.append(f"{role}: {len(sts)} allocations")
            continue
        v = ast.unparse(sts[0].value)
        fresh = v in (f"zeros({nsym})", f"np.zeros({nsym})", f"zeros({nsym}, dtype=float64)", f"np.zeros({nsym}, dtype=float64)",
                      f"np.zeros({nsym}, dtype=np.float64)", f"zeros_like({params[0]})", f"np.zeros_like({params[0]})")
        copy_of_zero = zero_src is not None and v in (f"{zero_src}.copy()", f"np.copy({zero_src})") and sts[0].lineno < min(
            [s_.line for s_ in sc.stores] or [10 ** 9])
        if fresh and zero_src is None:
            zero_src = nm
        if not (fresh or copy_of_zero):
            fresh_ok = False
            detail.append(f"{role} = {v}")
    rep.ob("R-STRAIGHT", FILE, "ws2d", "the four work arrays are distinct fresh float64 zero arrays of the series length", fresh_ok,
           "; ".join(detail) + ": aliased or narrower work arrays corrupt the factorisation", "ws2d: allocations of z, d, c, e")

    # result
    ret = sc.returns[0]
    rep.ob("R-RESULT", FILE, "ws2d", "returns the solution array", names.get(ast.unparse(ret.value)) == "z",
           "", ret)

    rep.floor("C01 LDL' obligations", len(rep.obls), 20)
    # export for C06
    rep.band_by = by
    # the public fixed-lambda entry point hands the solver the lambda the caller asked for at each pixel
    from ..rules import whits_lambda
    whits_lambda(rep, repo)
    return rep

"""C02 — missing observations carry zero weight in every smoother.

1. mask definition descriptor of every kernel, 2. R-MASK: every solver call's weight has the
validity mask as a factor on every reaching definition, 3. R-TAINT (E6): no Spread taint of
the placeholder reaches the output series or the reported lambda, 4. the minimum-valid-count
guard dominates the solver calls and the other arm passes the input through with lambda 0.
"""
from __future__ import annotations

import ast
from typing import Dict, List

from ..core import AnalysisError, Report, Repo, norm_stmt
from ..kernels import kernel, load_kernels
from ..taint import AM_N, AM_P, CLEAN, NAMES, SP_P, Summary, Taint, V
from .smooth_common import DRIVER, HELPERS, SMOOTHERS, Smoother, load_family

WANT_PREDS = {
    "ws2dgu": {"nodata", "nan", "inf"}, "ws2dpgu": {"nodata", "nan", "inf"}, "ws2dwcv": {"nodata", "nan", "inf"}, "ws2dwcvp": {"nodata", "nan", "inf"},
    "ws2doptv": {"nodata"}, "ws2doptvp": {"nodata"}, "ws2doptvplc": {"nodata"},
}
MIN_VALID = {"ws2dgu": 1, "ws2dpgu": 1, "ws2doptv": 1, "ws2doptvp": 1, "ws2doptvplc": 1, "ws2dwcv": 4, "ws2dwcvp": 4}


def taint_rule(rep: Report, fam, smoothers, helpers):
    """R-TAINT over the given smoother kernels and helpers (shared with C05: the GCV scores, the robust weights and the selected lambda are
    functions of the valid cells only). Returns the reporting closure and the helper summaries for further callers."""
    def report(name, file, t: Taint, sinks: Dict[str, V]):
        for u in t.unsupported:
            raise AnalysisError(f"unsupported construct for the taint analysis: {u}")
        for sink, v in sinks.items():
            ok = v.level < SP_P
            trail = ""
            if not ok:
                # the flow path: last definitions that raised the level
                steps = [f"L{f.line} `{f.stmt[:70]}` -> {f.target}: {NAMES[f.value.level]}" for f in t.flows if f.value.level >= AM_P]
                trail = " | ".join(steps[-8:])
            rep.ob("R-TAINT", file, name, f"the placeholder at masked cells cannot influence `{sink}`", ok,
                   f"`{sink}` is {NAMES[v.level]}: {trail}", f"{name}: taint of {sink}", kind=f"final abstract value {NAMES[v.level]}")

    summaries = {}
    for h in helpers:
        hs = fam[h]
        summaries[h] = Summary(hs.k.node, hs.file, hs.k.params[0], "w")
    for n in smoothers:
        s = fam[n]
        if s.mask is None:
            continue
        lvl = AM_N if {"nan", "inf"} <= WANT_PREDS[n] else AM_P
        t = Taint(s.k.node, s.file, s.mask["series"], lvl, s.mask["name"], s.mask["nodata"]).run()
        sinks = {o: t.state.get(o, V()) for o in s.k.outputs}
        report(n, s.file, t, sinks)
        # the pass-through arm may carry the placeholder at its own cell, never more
    for h in helpers:
        hs = fam[h]
        t = Taint(hs.k.node, hs.file, hs.k.params[0], AM_P, None, None, params={"w": V(CLEAN, True)}).run()
        sinks = {}
        for st_, vals in t.returns:
            for i, v in enumerate(vals):
                key = f"return[{i}]"
                sinks[key] = V(max(sinks.get(key, V()).level, v.level))
        report(h, hs.file, t, sinks)
    return report, summaries


def run(repo: Repo, tier: str) -> Report:
    rep = Report("C02")
    rep.decided = [
        "each smoother builds a 0/1 validity weight whose zero set is exactly the declared predicate (== nodata [or NaN or inf]) over the whole series",
        "every solver call passes a weight whose every reaching definition has the validity mask as a factor (R-MASK)",
        "no influence of the placeholder: with the series tainted at masked cells, no Spread taint reaches the output or the reported lambda (R-TAINT)",
        "solver calls are dominated by the minimum-valid-count guard (> 1; > 4 for cross-validation); the other arm returns the input unchanged with lambda 0",
    ]
    rep.declined = ["that the output at missing cells is the gap-filled value of the fitted curve (consequence of the above plus C01)", "anything numerical"]
    rep.trusted = ["CPython ast", "the taint lattice and transfer functions of sa/taint.py (0 * finite = 0, 0 * NaN = NaN, a comparison result is finite)",
                   "ws2d summary: the solution depends on y only through the products w[i]*y[i] (C01)"]
    kernels, fam = load_family(repo, SMOOTHERS + HELPERS)
    rep.analysed = {"kernels": SMOOTHERS + HELPERS + [DRIVER]}

    # ---- 1. mask descriptors
    for n in SMOOTHERS:
        s = fam[n]
        m = s.mask
        if m is None:
            rep.ob("R-FORMULA", s.file, n, "a validity weight is built from the series", False, "no mask construction recognised", f"{n}: validity mask")
            continue
        rep.ob("R-FORMULA", s.file, n, f"weights are zero exactly where the cell is {' or '.join(sorted(WANT_PREDS[n]))}", m["preds"] == WANT_PREDS[n],
               f"zero set of `{m['name']}`: {sorted(m['preds'])}; declared {sorted(WANT_PREDS[n])}", m["stmt"], kind=m["dialect"] + " dialect")
        rep.ob("R-COVER", s.file, n, "the mask covers the whole series", bool(m["full"]) and m["series"] == s.k.params[0], f"series `{m['series']}`", f"{n}: extent of the mask")
        rep.ob("R-FORMULA", s.file, n, "the valid count is the sum of the mask", m["count"] is not None, f"count = {m['count']}", f"{n}: valid count")
    # the driver builds series and mask in one loop
    d = kernel(kernels, DRIVER)
    from ..symb import StoreCollector
    dsc = StoreCollector(d.node, d.file, loop_atoms_by_name=True, strict=False, keep_arrays=True).run()
    st = {(s.arr, s.rhs.key(), s.guards[-1] if s.guards else ""): s for s in dsc.stores if s.region.kind == "loop" and s.idx_key == s.region.var}
    okd = all(k_ in st for k_ in [("ww", "0", "eq0[-1*nodata + xx_raw[i]]"), ("ww", "1", "ne0[-1*nodata + xx_raw[i]]"),
                                  ("xx", "0", "eq0[-1*nodata + xx_raw[i]]"), ("xx", "xx_raw[i]", "ne0[-1*nodata + xx_raw[i]]")])
    rep.ob("R-FORMULA", d.file, DRIVER, "driver: weight 0 and value 0 at nodata cells, weight 1 and the observation elsewhere", okd,
           f"{sorted((a, r, g) for (a, r, g) in st)}", f"{DRIVER}: mask and series construction")

    # ---- 2. R-MASK
    n_calls = 0
    for n in SMOOTHERS + HELPERS:
        s = fam[n]
        if s.mask is None:
            continue
        m = s.mask["name"]
        for sv in s.solves:
            n_calls += 1
            alts = s.factors(sv.weight, sv.seq)
            ok = bool(alts) and all(m in a for a in alts)
            rep.ob("R-MASK", s.file, n, f"solver weight `{sv.weight}` has the validity mask as a factor on every definition", ok,
                   f"factor sets {[sorted(a) for a in alts]}; the mask is `{m}`", sv.stmt, kind="def-use factor resolution")
            rep.ob("R-MASK", s.file, n, "the solver receives the input series", sv.series == s.mask["series"], f"series argument `{sv.series}`", f"series of {norm_stmt(sv.stmt)}")
    rep.floor("solver calls", n_calls, 22)

    # ---- smoothers never store into the caller's series (a second call on the same buffer would see the placeholders replaced)
    from ..rules import input_writes
    for n in SMOOTHERS + HELPERS:
        s = fam[n]
        bad = input_writes(s.k)
        rep.ob("R-READONLY", s.file, n, "the smoother never stores into its input series", not bad,
               f"`{norm_stmt(bad[0])}` overwrites the caller's cells (placeholders at masked cells are lost for any later call on the same buffer)" if bad else "",
               bad[0] if bad else f"{n}: stores into inputs")
    # ---- the series handed to the solver is the input or its sanitised copy: any re-binding of the series name keeps the valid cells as they are
    for n in SMOOTHERS + HELPERS:
        s = fam[n]
        if s.mask is None:
            continue
        yname, mname = s.mask["series"], s.mask["name"]
        for st in ast.walk(s.k.node):
            if not (isinstance(st, ast.Assign) and len(st.targets) == 1 and isinstance(st.targets[0], ast.Name) and st.targets[0].id == yname):
                continue
            v = st.value
            okw = False
            if isinstance(v, ast.Call) and ast.unparse(v.func).split(".")[-1] == "where" and len(v.args) == 3:
                c, a, b = v.args
                sel = False
                if isinstance(c, ast.Compare) and len(c.ops) == 1:
                    l, r, op = c.left, c.comparators[0], c.ops[0]
                    sel = (isinstance(l, ast.Name) and l.id == mname and isinstance(r, ast.Constant) and r.value == 0 and isinstance(op, (ast.Gt, ast.NotEq))) or \
                          (isinstance(r, ast.Name) and r.id == mname and isinstance(l, ast.Constant) and l.value == 0 and isinstance(op, (ast.Lt, ast.NotEq)))
                okw = sel and isinstance(a, ast.Name) and a.id == yname and isinstance(b, ast.Constant) and isinstance(b.value, (int, float)) and b.value == b.value \
                    and abs(b.value) != float("inf")
            rep.ob("R-MASK", s.file, n, "a re-binding of the series keeps every valid cell and replaces only masked cells by a finite constant", okw,
                   f"`{norm_stmt(st)}`: required `{yname} = where({mname} > 0, {yname}, <finite constant>)`; any other selection changes or drops observations", st)
    # ---- 4. minimum valid count guard + pass-through
    for n in SMOOTHERS:
        s = fam[n]
        if s.mask is None:
            continue
        cnt = s.mask["count"]
        g = f"lt0[-1*{cnt} + {MIN_VALID[n]}]"
        bad = [sv for sv in s.solves if g not in sv.guards]
        rep.ob("R-GUARD", s.file, n, f"every solve is dominated by `valid count > {MIN_VALID[n]}`", not bad and bool(s.solves),
               f"solves outside the guard: {[norm_stmt(sv.stmt) for sv in bad]}; guards seen {[list(sv.guards) for sv in s.solves][:2]}", f"{n}: count guard")
        pt = [p for p in s.passthrough() if f"ge0[-1*{cnt} + {MIN_VALID[n]}]" in p.guards]
        rep.ob("R-GUARD", s.file, n, "with too few valid cells the input is returned unchanged", len(pt) == 1 and pt[0].rhs.key() == f"{s.mask['series']}[:]",
               f"pass-through stores {[(norm_stmt(p.stmt), list(p.guards)) for p in s.passthrough()]}", pt[0].stmt if pt else f"{n}: pass-through")
        if len(s.k.outputs) == 2:
            z = [x for x in s.sc.stores if x.arr == s.k.outputs[1] and x.rhs.const_value() == 0 and f"ge0[-1*{cnt} + {MIN_VALID[n]}]" in x.guards]
            rep.ob("R-GUARD", s.file, n, "... and the reported lambda is 0", len(z) == 1, "", z[0].stmt if z else f"{n}: lopt = 0")

    # ---- 3. R-TAINT
    report, summaries = taint_rule(rep, fam, SMOOTHERS, HELPERS)
    # driver
    t = Taint(d.node, d.file, "tyx", AM_P, "ww", "nodata", summaries=summaries).run()
    report(DRIVER, d.file, t, {"zz": t.state.get("zz", V()), "lopts": t.state.get("lopts", V())})
    rep.floor("R-TAINT sinks", sum(1 for o in rep.obls if o.rule == "R-TAINT"), 18)
    from ..rules import r_truthy
    r_truthy(rep, repo, "WhittakerSmoother", "whits", ["nodata"], "0 is a legitimate nodata value (it is the one the test-suite uses); a truth test silently replaces or drops it")
    r_truthy(rep, repo, "WhittakerSmoother", "whitsvc", ["nodata"], "0 is a legitimate nodata value (it is the one the test-suite uses); a truth test silently replaces or drops it")
    r_truthy(rep, repo, "WhittakerSmoother", "whitswcv", ["nodata"], "0 is a legitimate nodata value (it is the one the test-suite uses); a truth test silently replaces or drops it")
    rep.floor("C02 obligations", len(rep.obls), 90)
    return rep

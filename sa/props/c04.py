"""C04 — V-curve selection is optimal on the grid and self-consistent.

R-FORMULA on the four V-curve expressions of every copy, R-ARGMIN on the selection
loop, self-consistency of the band (final solve / final IRLS at the reported lambda,
sibling of the fixed-lambda smoothers), grid choice from the lag-1 correlation evaluated
over the three abstract cases {lc > 0.5, lc <= 0.5, lc unordered (NaN)}, accessor.
"""
from __future__ import annotations

import ast
import re
from typing import Dict, List, Optional

from ..core import AnalysisError, Report, Repo, norm_stmt
from ..kernels import kernel
from ..poly import Normaliser, Rat, Unsupported, desqrt, parse_expr
from ..rules import r_bind
from ..sites import load_sites
from ..symb import StoreCollector
from .c03 import check_irls, check_round
from .smooth_common import Smoother, load_family

AFILE = "hdc/algo/accessors.py"
COPIES = ["ws2doptv", "ws2doptvp", "ws2doptvplc", "_ws2doptvp"]
GRID_HI = "arange[-2;6/5;1/5;dtype=float64]"     # lc > 0.5  : -2 .. 1.0 step 0.2
GRID_LO = "arange[0;16/5;1/5;dtype=float64]"      # elsewhere : 0 .. 3.0 step 0.2


def R(s, env=None) -> Rat:
    return Normaliser(env or {}).norm(parse_expr(s))


def vcurve(rep: Report, s: Smoother, p: Optional[str]):
    sc = s.sc
    f, fn = s.file, s.name
    y = s.mask["series"]
    w = s.mask["name"]

    def ob(rule, role, ok, detail="", stmt=None, kind=""):
        rep.ob(rule, f, fn, role, ok, detail, stmt if stmt is not None else f"{fn}: {role}", kind=kind)

    # the grid loop: a loop whose variable indexes the grid in the solver's lambda argument
    grid_solves = [sv for sv in s.solves if re.fullmatch(r"pow\[10;(\w+)\[(\w+)\]\]", sv.lam)]
    if not grid_solves:
        ob("R-FORMULA", "the grid sweep solves at lambda = 10**srange[i]", False, f"lambda arguments {[sv.lam for sv in s.solves]}", "grid sweep")
        return None
    m = re.fullmatch(r"pow\[10;(\w+)\[(\w+)\]\]", grid_solves[0].lam)
    llas, lix = m.group(1), m.group(2)
    gl = [r for r in sc.regions if r.kind == "loop" and r.var == lix]
    if len(gl) != 1:
        raise AnalysisError(f"unsupported construct: grid loop over {lix} in {fn}")
    gl = gl[0]
    ob("R-COVER", "every grid entry is evaluated", gl.rng is not None and len(gl.rng) == 1 and gl.rng[0].key() == f"len0[{llas}]", f"{gl.label()}", gl.node, kind="affine")

    def in_grid(region):
        r = region
        while r is not None:
            if r is gl:
                return True
            r = r.parent
        return False
    stores = [x for x in sc.stores if in_grid(x.region)]
    # z used by the criteria: the iterate of the solve (direct) or of the IRLS block (carry target)
    zname = None
    for x in stores:
        if x.rhs.key().startswith("ws2d[") and x.arr != "znew":
            zname = x.arr
    for b in s.irls:
        if in_grid(b.loop) and b.z:
            zname = b.z
    if zname is None:
        raise AnalysisError(f"missing anchor: iterate of the grid sweep in {fn}")
    Ln = f"len0[{y}]"
    # --- fits
    acc = [x for x in stores if x.aug and x.idx_key == lix and x.region is not gl]
    logs = [x for x in stores if not x.aug and x.idx_key == lix and x.region is gl and x.rhs.key() == f"log[{x.arr}[{lix}]]"]
    fits = pens = None
    for x in acc:
        i = x.region.var
        add = x.rhs - Rat.atom(f"{x.arr}[{lix}]")
        full = x.region.rng is not None and len(x.region.rng) == 1
        if add.equals(R(f"({w}[{i}]*({y}[{i}] - {zname}[{i}]))**2")):
            fits = x
            ob("R-FORMULA", "fit term = sum over all cells of (w (y - z))^2", full and x.region.rng[0].key() == Ln,
               f"accumulated over {x.region.label()}", x.stmt, kind="normal-form equality")
    d1 = [x for x in stores if not x.aug and x.region.rng is not None and len(x.region.rng) == 1 and x.idx_key == x.region.var
          and x.rhs.equals(R(f"{zname}[{x.region.var}+1] - {zname}[{x.region.var}]"))]
    if len(d1) == 1:
        dn = d1[0].arr
        ob("R-FORMULA", "first differences of the curve over all m-1 neighbours", d1[0].region.rng[0].equals(Rat.atom(Ln) - Rat.const(1)),
           f"{d1[0].region.label()}", d1[0].stmt, kind="affine")
        for x in acc:
            i = x.region.var
            add = x.rhs - Rat.atom(f"{x.arr}[{lix}]")
            if add.equals(R(f"({dn}[{i}+1] - {dn}[{i}])**2")):
                pens = x
                ob("R-FORMULA", "roughness term = sum over all m-2 second differences squared", x.region.rng is not None and
                   x.region.rng[0].equals(Rat.atom(Ln) - Rat.const(2)) and x.seq > d1[0].seq, f"accumulated over {x.region.label()}", x.stmt, kind="normal-form equality")
    if fits is None:
        ob("R-FORMULA", "fit term = sum over all cells of (w (y - z))^2", False,
           f"accumulations in the sweep: {[(x.arr, (x.rhs - Rat.atom(x.arr + '[' + lix + ']')).key()[:80]) for x in acc]}", "fits accumulation")
    if pens is None:
        ob("R-FORMULA", "roughness term = sum of squared second differences of the curve", False,
           f"accumulations in the sweep: {[(x.arr, (x.rhs - Rat.atom(x.arr + '[' + lix + ']')).key()[:80]) for x in acc]}", "pens accumulation")
    if fits is None or pens is None:
        return None
    F, P = fits.arr, pens.arr
    for nm, x in (("fit", fits), ("roughness", pens)):
        lg = [l for l in logs if l.arr == x.arr and l.seq > x.seq]
        ob("R-FORMULA", f"log of the {nm} term is taken after the accumulation", len(lg) == 1, f"log stores {[norm_stmt(l.stmt) for l in logs]}",
           lg[0].stmt if lg else f"{x.arr}[{lix}] = log(...)")
        al = sc.arrays_assigned.get(x.arr, [])
        ob("R-FORMULA", f"the {nm} accumulator starts at 0 for every grid entry", len(al) == 1 and al[0][0].key() in (f"zeros[len0[{llas}]]", f"zeros[len0[{llas}];dtype=float64]"),
           f"allocation {[a[0].key() for a in al]}", al[0][1] if al else x.arr)
    # the criteria must be evaluated after the curve for this lambda was computed
    last_solve = max(sv.seq for sv in s.solves if in_grid(sv.region))
    ob("R-ORDER", "criteria are evaluated on the curve of the current grid entry", fits.seq > last_solve and pens.seq > last_solve,
       f"solve@{last_solve} fits@{fits.seq} pens@{pens.seq}", fits.stmt)
    # --- v and lamids
    vst = [x for x in sc.stores if not in_grid(x.region) and x.region.kind == "loop" and x.idx_key == x.region.var and "sqrt[" in x.rhs.key()]
    lst = [x for x in sc.stores if not in_grid(x.region) and x.region.kind == "loop" and x.idx_key == x.region.var
           and x.rhs.equals(R(f"({llas}[{x.region.var}] + {llas}[{x.region.var}+1])/2"))]
    ok_v = False
    if len(vst) == 1:
        i = vst[0].region.var
        ref = R(f"sqrt(({F}[{i}+1]-{F}[{i}])**2 + ({P}[{i}+1]-{P}[{i}])**2)/(log(10)*({llas}[1]-{llas}[0]))")
        ok_v = vst[0].rhs.equals(ref) and vst[0].region.rng[0].equals(Rat.atom(f"len0[{llas}]") - Rat.const(1)) and len(vst[0].region.rng) == 1
        ob("R-FORMULA", "v[i] = distance between successive (log fit, log roughness) points per unit log10 lambda", ok_v,
           f"code = {vst[0].rhs.key()[:200]} over {vst[0].region.label()}", vst[0].stmt, kind="normal-form equality")
    else:
        ob("R-FORMULA", "v[i] = hypot(dfit, dpen)/(ln10 * step)", False, f"{len(vst)} candidate stores", "v[i] = ...")
    ok_l = len(lst) == 1 and lst[0].region.rng[0].equals(Rat.atom(f"len0[{llas}]") - Rat.const(1))
    ob("R-FORMULA", "candidate lambdas are the log10-midpoints of consecutive grid entries", ok_l,
       f"{[norm_stmt(x.stmt) for x in lst]}", lst[0].stmt if lst else "lamids[i] = (l1 + l2)/2")
    if not (len(vst) == 1 and len(lst) == 1):
        return None
    V, LM = vst[0].arr, lst[0].arr
    # --- arg-min
    best = [d for nm, ds in sc.scalars.items() for d in ds if d.region.kind == "loop" and d.guards and re.fullmatch(
        r"(gt0|ge0)\[-1\*" + V + r"\[(\w+)\] \+ (\w+)\]", d.guards[-1])]
    okm = False
    det = f"updates under {[ (d.name, d.rhs.key(), d.guards[-1]) for d in best]}"
    k = None
    if len(best) == 2:
        g = best[0].guards[-1]
        mm = re.fullmatch(r"(gt0|ge0)\[-1\*" + V + r"\[(\w+)\] \+ (\w+)\]", g)
        i, vmin = mm.group(2), mm.group(3)
        byname = {d.name: d for d in best}
        same_guard = best[0].guards[-1] == best[1].guards[-1] and best[0].region is best[1].region
        kcands = [n for n, d in byname.items() if n != vmin and d.rhs.key() == i]
        rng = best[0].region.rng
        cover = rng is not None and len(rng) == 2 and rng[0].equals(Rat.const(1)) and rng[1].equals(Rat.atom(f"len0[{llas}]") - Rat.const(1))
        if vmin in byname and byname[vmin].rhs.key() == f"{V}[{i}]" and len(kcands) == 1 and same_guard:
            k = kcands[0]
            init_v = [d for d in sc.scalars[vmin] if d.region.kind == "line"]
            init_k = [d for d in sc.scalars[k] if d.region.kind == "line"]
            ok_init = bool(init_v) and bool(init_k) and init_k[-1].rhs.equals(Rat.const(0)) and init_v[-1].rhs.key() in (f"{V}[0]", f"{V}[{k}]")
            okm = cover and ok_init
            det += f"; loop {best[0].region.label()}; init {vmin}={[d.rhs.key() for d in init_v]} {k}={[d.rhs.key() for d in init_k]}"
    ob("R-ARGMIN", "the running minimum and its index are updated together, over every candidate, starting from the first", okm, det,
       best[0].stmt if best else "arg-min loop")
    sel_regions = [gl] + ([best[0].region] if best else []) + [vst[0].region]
    leave = [e for e in sc.exits if e.kind in ("break", "continue", "return") and any(e.region is r_ for r_ in sel_regions)]
    ob("R-ARGMIN", "no early exit from the grid sweep, the V-curve construction or the arg-min loop", not leave,
       f"`{norm_stmt(leave[0].stmt)}` under {list(leave[0].guards)[-1:]} skips candidates" if leave else "",
       leave[0].stmt if leave else f"{fn}: exits of the selection loops")
    if k is None:
        return None
    # --- reported lambda and band
    lam = f"pow[10;{LM}[{k}]]"
    rets = [e for e in sc.exits if e.kind == "return" and e.values]
    lopt_st = [x for x in sc.stores if x.arr in s.k.outputs and x.rhs.key() == lam]
    if s.k.kind == "guvectorize":
        ob("R-FORMULA", "reported lambda = 10**(midpoint at the arg-min)", len(lopt_st) == 1 and lopt_st[0].idx_key == "0",
           f"stores into the lambda output: {[(x.arr, x.rhs.key()) for x in sc.stores if x.arr in s.k.outputs and x.idx_key == '0']}", lopt_st[0].stmt if lopt_st else "lopt[0] = ...")
    else:
        ob("R-FORMULA", "reported lambda = 10**(midpoint at the arg-min)", bool(rets) and rets[-1].values[1].key() == lam,
           f"returns {rets[-1].value.key() if rets else None}", rets[-1].stmt if rets else "return")
    if p is None:
        fin = [sv for sv in s.solves if not in_grid(sv.region)]
        ok = len(fin) == 1 and fin[0].args == [y, lam, w]
        ob("R-SIBLING(final-solve)", "the band is the fixed-lambda solve ws2d(y, reported lambda, mask)", ok, f"final solves {[sv.args for sv in fin]}",
           fin[0].stmt if fin else "final solve")
        if fin and s.k.kind == "guvectorize":
            check_round(rep, s, fin[0].target, [f"lt0[-1*{s.mask['count']} + 1]"])
    else:
        blocks = [b for b in s.irls if not in_grid(b.loop)]
        if len(blocks) != 1:
            ob("R-SIBLING(final-solve)", "the band is produced by one reweighting block at the reported lambda", False, f"{len(blocks)} blocks after the sweep", "final IRLS")
        else:
            fin = check_irls(rep, s, blocks[0], p, "band at the reported lambda", want_start=("reset", "zeros"), lam=lam)
            if fin is not None and s.k.kind == "guvectorize":
                check_round(rep, s, fin.target, [f"lt0[-1*{s.mask['count']} + 1]"])
            elif fin is not None:
                ob("R-FORMULA", "the helper returns the final curve and the reported lambda", bool(rets) and rets[-1].values[0].key() == fin.target,
                   f"returns {rets[-1].value.key() if rets else None}", rets[-1].stmt if rets else "return")
        sweep = [b for b in s.irls if in_grid(b.loop)]
        if len(sweep) == 1:
            check_irls(rep, s, sweep[0], p, "sweep reweighting", want_start=None, lam=f"pow[10;{llas}[{lix}]]", need_final=False)
        else:
            ob("R-IRLS", "the sweep reweights at every grid entry", False, f"{len(sweep)} blocks inside the sweep", "sweep IRLS")
    return dict(llas=llas)


def lc_cases(fn_node: ast.FunctionDef, lc: str, target: str):
    """Abstract evaluation of the branch structure that assigns `target` over {gt, le, un} (lc > 0.5 / <= 0.5 / unordered)."""
    def truth(test: ast.expr, case: str) -> Optional[bool]:
        if isinstance(test, ast.Compare) and len(test.ops) == 1:
            try:
                l, r = Normaliser().norm(test.left), Normaliser().norm(test.comparators[0])
            except Unsupported:
                return None
            op = test.ops[0]
            if l.key() == lc and r.const_value() is not None:
                c = r.const_value()
            elif r.key() == lc and l.const_value() is not None:
                c = l.const_value()
                op = {ast.Lt: ast.Gt, ast.Gt: ast.Lt, ast.LtE: ast.GtE, ast.GtE: ast.LtE}.get(type(op), type(op))()
            else:
                return None
            from fractions import Fraction
            if c != Fraction(1, 2):
                return None
            if case == "un":
                return isinstance(op, ast.NotEq)
            gt = case == "gt"
            return {ast.Gt: gt, ast.LtE: not gt, ast.GtE: None, ast.Lt: None}.get(type(op))
        return None

    out: Dict[str, Optional[str]] = {}
    for case in ("gt", "le", "un"):
        val = None

        def walk(stmts):
            nonlocal val
            for st in stmts:
                if isinstance(st, ast.If):
                    t = truth(st.test, case)
                    if t is None:
                        if lc in {n.id for n in ast.walk(st.test) if isinstance(n, ast.Name)}:
                            val = "?unsupported test " + ast.unparse(st.test)
                            return
                        walk(st.body)
                        walk(st.orelse)
                    elif t:
                        walk(st.body)
                    else:
                        walk(st.orelse)
                elif isinstance(st, ast.Assign) and isinstance(st.targets[0], ast.Name) and st.targets[0].id == target:
                    v = st.value
                    if isinstance(v, ast.IfExp):
                        t = truth(v.test, case)
                        v = v.body if t else v.orelse if t is not None else None
                    val = ast.unparse(v) if v is not None else "?"
                elif isinstance(st, (ast.For, ast.While)):
                    walk(st.body)
        walk(fn_node.body)
        out[case] = val
    return out


def lc_from_raw(rep: Report, kernels, rule: str = "R-FORMULA"):
    """The 3-d driver computes the lag-1 correlation from the raw pixel series with its nodata marker (not from the zero-filled working copy,
    whose gaps count as observations of 0 and make the grid choice depend on the level of the data). Shared with C06 (offset commutation)."""
    d = kernel(kernels, "ws2doptvplc_tyx")
    lcdef = [x for x in ast.walk(d.node) if isinstance(x, ast.Assign) and ast.unparse(x.targets[0]) == "lc"]
    rep.ob(rule, d.file, "ws2doptvplc_tyx", "the driver derives lc from the pixel's own raw series", len(lcdef) == 1 and
           ast.unparse(lcdef[0].value) == "autocorr_1d(xx_raw, nodata)", f"{[norm_stmt(x) for x in lcdef]}: the zero-filled working series counts its gaps as "
           f"observations of 0, so lc (and with it the lambda grid) changes when a constant is added to the data", lcdef[0] if lcdef else "lc = autocorr_1d(...)")


def run(repo: Repo, tier: str) -> Report:
    rep = Report("C04")
    rep.decided = [
        "V-curve expressions of all copies: fit = log sum (w(y-z))^2, roughness = log sum (second differences)^2, v = hypot(dfit, dpen)/(ln10*step), "
        "candidates = log10 midpoints, reported lambda = 10**midpoint at the arg-min",
        "arg-min structure (value and index updated together, every candidate, ties free)",
        "the band is the fixed-lambda smoother at the reported lambda with the same mask (final solve / final reweighting from the zero curve)",
        "grid from lc: -2..1.0 where lc > 0.5, 0..3.0 elsewhere including NaN, in both siblings",
        "accessor: binding of the three sites, sgrid = log10(lambda) as float32, band/sgrid naming, lc requires p",
    ]
    rep.declined = ["that the winner is the numerical minimiser beyond the arg-min structure", "the warm start across grid values (part of the code's definition of the V-curve)"]
    rep.trusted = ["CPython ast", "np.arange(a, b, 0.2) grids as written", "C03 reference descriptor of the fixed-lambda smoothers"]
    kernels, fam = load_family(repo, COPIES)
    rep.analysed = {"copies": COPIES + ["ws2doptvplc_tyx (delegates to _ws2doptvp)"]}
    for n in COPIES:
        s = fam[n]
        if s.mask is None:
            raise AnalysisError(f"missing anchor: validity mask of {n}")
        p = "p" if "p" in s.k.params else None
        vcurve(rep, s, p)
    # ---- pass-through arms
    for n in ("ws2doptv", "ws2doptvp", "ws2doptvplc"):
        s = fam[n]
        cnt = s.mask["count"]
        pt = s.passthrough()
        zero = [x for x in s.sc.stores if x.arr in s.k.outputs and x.idx_key == "0" and x.rhs.const_value() == 0]
        ok = len(pt) == 1 and list(pt[0].guards) == [f"ge0[-1*{cnt} + 1]"] and len(zero) == 1 and list(zero[0].guards) == [f"ge0[-1*{cnt} + 1]"]
        rep.ob("R-FORMULA", s.file, n, "fewer than 2 valid cells: input unchanged and reported lambda 0", ok,
               f"pass-through {[(norm_stmt(x.stmt), list(x.guards)) for x in pt + zero]}", pt[0].stmt if pt else "out[:] = y[:]")
    # ---- grid from lc
    g = fam["ws2doptvplc"]
    lcname = g.k.params[3]
    cases = lc_cases(g.k.node, lcname, "llas")
    norm = {c: (Normaliser().norm(parse_expr(v)).key() if v and not v.startswith("?") else v) for c, v in cases.items()}
    want = {"gt": GRID_HI, "le": GRID_LO, "un": GRID_LO}
    names = {"gt": "lc > 0.5 selects the grid -2..1.0 (step 0.2)", "le": "lc <= 0.5 selects the grid 0..3.0 (step 0.2)",
             "un": "unordered lc (NaN) selects the 0..3 grid ('elsewhere')"}
    for c in ("gt", "le", "un"):
        rep.ob("R-SIBLING(grid)", g.file, "ws2doptvplc", names[c], norm[c] == want[c], f"grid for this case: {cases[c]} ; required {want[c]}",
               f"llas[{c}] = {norm[c]}")
    d = kernel(kernels, "ws2doptvplc_tyx")
    # the driver picks from a tuple
    tup = None
    for st in ast.walk(d.node):
        if isinstance(st, ast.Assign) and isinstance(st.targets[0], ast.Name) and isinstance(st.value, ast.Tuple) and len(st.value.elts) == 2 \
                and all("arange" in ast.unparse(e) for e in st.value.elts):
            tup = (st.targets[0].id, [Normaliser().norm(e).key() for e in st.value.elts])
    dc = lc_cases(d.node, "lc", "llas")
    stored_into = {t.value.id for st in ast.walk(d.node) if isinstance(st, (ast.Assign, ast.AugAssign))
                   for t in (st.targets if isinstance(st, ast.Assign) else [st.target])
                   if isinstance(t, ast.Subscript) and isinstance(t.value, ast.Name)}
    dn = {}
    for c, v in dc.items():
        if v and tup and v.startswith(tup[0] + "[") and v.endswith("]"):
            dn[c] = tup[1][int(v[len(tup[0]) + 1:-1])]
        elif v and v.isidentifier() and v not in stored_into:
            # a named grid (`llas_hi = np.arange(...)` before the pixel loops): one plain assignment, never stored into
            from ..rules import resolve_local
            rv = resolve_local(d.node, ast.Name(id=v, ctx=ast.Load()))
            dn[c] = Normaliser().norm(rv).key() if not isinstance(rv, ast.Name) else v
        else:
            dn[c] = v
    for c in ("gt", "le", "un"):
        rep.ob("R-SIBLING(grid)", d.file, "ws2doptvplc_tyx", names[c], dn.get(c) == want[c], f"grid for this case: {dc.get(c)} -> {dn.get(c)} ; required {want[c]}",
               f"llas[{c}] = {dn.get(c)}")
    lc_from_raw(rep, kernels)
    call = [c for c in ast.walk(d.node) if isinstance(c, ast.Call) and ast.unparse(c.func) == "_ws2doptvp"]
    rep.ob("R-BIND", d.file, "ws2doptvplc_tyx", "the driver calls the helper with (series, mask, p, grid)", len(call) == 1 and
           [ast.unparse(a) for a in call[0].args] == ["xx", "ww", "p", "llas"], f"{[ast.unparse(c) for c in call]}", call[0] if call else "_ws2doptvp(...)")

    # the driver's valid count, its guard, and the two outputs
    from ..symb import StoreCollector as _SC
    dsc_ = _SC(d.node, d.file, loop_atoms_by_name=True, strict=False, keep_arrays=True).run()
    incs = [x for nm_, ds_ in dsc_.scalars.items() for x in ds_ if x.aug and (x.rhs - Rat.atom(nm_)).equals(Rat.const(1)) and x.region.kind == "loop"]
    cnt = [x for x in incs if any(g_.startswith("ne0[") and "nodata" in g_ for g_ in x.guards)]
    okn = len(cnt) == 1 and len(cnt[0].guards) == 1 and cnt[0].region.rng is not None
    cname = cnt[0].name if cnt else None
    rep.ob("R-FORMULA", d.file, "ws2doptvplc_tyx", "the driver counts exactly the cells != nodata of the pixel", okn,
           f"count increments: {[(x.name, list(x.guards)) for x in incs]}", cnt[0].stmt if cnt else "ngood += 1")
    if call and cname:
        rnd_ = [c_ for c_ in dsc_.calls if c_.func == "round" and len(c_.args) == 3]
        lst = [x for x in dsc_.stores if x.arr == "lopts"]
        gwant = f"lt0[-1*{cname} + 1]"
        okg = len(rnd_) == 1 and len(lst) == 1 and list(rnd_[0].guards) == [gwant] and list(lst[0].guards) == [gwant]
        rep.ob("R-GUARD", d.file, "ws2doptvplc_tyx", "the helper's results are used exactly for pixels with more than one valid cell", okg,
               f"guards of the rounding {[list(c_.guards) for c_ in rnd_]} and of the lambda store {[list(x.guards) for x in lst]}; required [{gwant}]", call[0])
        oko = len(rnd_) == 1 and rnd_[0].args[0].startswith("item0[_ws2doptvp[") and rnd_[0].args[1] == "0" and rnd_[0].args[2] == "zz[:,rr,cc]" \
            and len(lst) == 1 and lst[0].rhs.key().startswith("item1[_ws2doptvp[") and lst[0].idx_key == "rr,cc"
        rep.ob("R-MUSTWRITE", d.file, "ws2doptvplc_tyx", "the smoothed series is rounded into zz[:, r, c] and the lambda stored in lopts[r, c] for every smoothed pixel", oko,
               f"round calls {[c_.args for c_ in rnd_]}; lopts stores {[(x.idx_key, x.rhs.key()[:40]) for x in lst]}", call[0])
    # ---- accessor
    m = repo.method("hdc.algo.accessors", "WhittakerSmoother", "whitsvc")
    sites = {s.kernel: s for s in load_sites(repo, kernels) if s.where() == "WhittakerSmoother.whitsvc"}
    want_args = {"ws2doptvplc": ["self._obj", "nodata", "p", "lc"], "ws2doptvp": ["self._obj", "nodata", "p", "srange"], "ws2doptv": ["self._obj", "nodata", "srange"]}
    for k_, wa in want_args.items():
        if k_ not in sites:
            raise AnalysisError(f"missing anchor: whitsvc site of {k_}")
        s = sites[k_]
        r_bind(rep, s, kernels[k_])
        rep.ob("R-BIND", AFILE, s.where(), f"{k_} receives {wa}", [ast.unparse(a) for a in s.args] == wa, f"{[ast.unparse(a) for a in s.args]}", f"{k_} args", line=s.line)
    from ..cfg import CFG
    cfg_m = CFG(m)

    def site_guards(site):
        for n in cfg_m.stmt_nodes():
            if n.kind == "stmt" and any(c is site.call for c in ast.walk(n.stmt)):
                return sorted((norm_stmt(g.stmt.test), arm) for g, arm in cfg_m.guards_of(n)
                              if not (g.stmt.body and isinstance(g.stmt.body[-1], ast.Raise)))   # validation guards are not selection
        return None
    P_GIVEN = ("p", "p is not None")
    sel = {k_: site_guards(sites[k_]) for k_ in want_args}
    def has(gs, tests, arm):
        return gs is not None and any((t, arm) in gs for t in tests)
    ok_sel = (has(sel["ws2doptvplc"], ("lc is not None",), True) and len(sel["ws2doptvplc"]) == 1
              and has(sel["ws2doptvp"], ("lc is not None",), False) and has(sel["ws2doptvp"], P_GIVEN, True) and len(sel["ws2doptvp"]) == 2
              and has(sel["ws2doptv"], ("lc is not None",), False) and has(sel["ws2doptv"], P_GIVEN, False) and len(sel["ws2doptv"]) == 2)
    rep.ob("R-FORMULA", AFILE, "WhittakerSmoother.whitsvc", "kernel selection: lc given -> lc kernel; else any p given -> asymmetric kernel; no p -> symmetric kernel", ok_sel,
           f"sites run under {sel}: a value of p routed to the symmetric kernel yields a band that is not the asymmetric smoother at the reported lambda",
           "whitsvc: kernel selection")
    assigns = [st for st in ast.walk(m) if isinstance(st, ast.Assign)]
    sg = [st for st in assigns if ast.unparse(st.targets[0]) == "ds_out['sgrid']"]
    rep.ob("R-FORMULA", AFILE, "WhittakerSmoother.whitsvc", "sgrid = log10(reported lambda) stored as float32", len(sg) == 1 and
           norm_stmt(sg[0].value) == "np.log10(sgrid).astype('float32')", f"{[norm_stmt(s_) for s_ in sg]}", sg[0] if sg else "ds_out['sgrid'] = ...")
    nm = [st for st in assigns if ast.unparse(st.targets[0]) == "ds_out" and "to_dataset" in ast.unparse(st.value)]
    rep.ob("R-FORMULA", AFILE, "WhittakerSmoother.whitsvc", "the band keeps the array's name or is called 'band'", len(nm) == 1 and
           norm_stmt(nm[0].value) == "ds_out.to_dataset(name=ds_out.name or 'band')", f"{[norm_stmt(s_) for s_ in nm]}", nm[0] if nm else "to_dataset")
    lcchk = [st for st in ast.walk(m) if isinstance(st, ast.If) and norm_stmt(st.test) == "p is None" and st.body and isinstance(st.body[-1], ast.Raise)
             and "ValueError" in ast.unparse(st.body[-1])]
    rep.ob("R-VALIDATE", AFILE, "WhittakerSmoother.whitsvc", "lc without p raises ValueError", len(lcchk) == 1, "", "lc requires p")
    from ..rules import r_truthy
    r_truthy(rep, repo, "WhittakerSmoother", "whitsvc", ["nodata"], "0 is a legitimate nodata value (it is the one the test-suite uses); a truth test silently replaces or drops it")
    from ..rules import r_stateless
    r_stateless(rep, repo, [('WhittakerSmoother', 'whitsvc')])
    from ..rules import ws2d_straight
    ws2d_straight(rep, repo)
    from ..rules import input_writes
    for kn_ in ("ws2doptv", "ws2doptvp", "ws2doptvplc"):
        iw_ = input_writes(kernels[kn_])
        rep.ob("R-READONLY", kernels[kn_].file, kn_, "the smoother never stores into its input series (the band / lambda of a later call would belong to a different series)", not iw_,
               f"`{norm_stmt(iw_[0])}` stores into the input" if iw_ else "", iw_[0] if iw_ else f"{kn_}: stores into inputs")
    rep.floor("C04 obligations", len(rep.obls), 100)
    return rep

"""E6 — taint / influence analysis for the smoother kernels (R-TAINT).

Abstract value of every variable: (level, mask) with
    level: 0 Clean < 1 AtMasked(P) < 2 AtMasked(N) < 3 Spread(P) < 4 Spread(N)
        P = depends on the finite numeric value of the placeholder at a masked cell
        N = may be non-finite because the placeholder is NaN / +-inf
        AtMasked = the dependence is confined to masked positions of a series-aligned array
        Spread   = every element / the scalar depends on it
    mask : the value is exactly 0 at masked cells (validity weights and products thereof)
Forward abstract interpretation over the structured syntax tree to a fixpoint (loops are
iterated until the state is stable; the lattice has height 5).  Nothing is executed.
"""
from __future__ import annotations

import ast
from dataclasses import dataclass
from typing import Dict, List, Optional, Set, Tuple

from .core import AnalysisError, norm_stmt

CLEAN, AM_P, AM_N, SP_P, SP_N = 0, 1, 2, 3, 4
NAMES = {0: "Clean", 1: "AtMasked(P)", 2: "AtMasked(N)", 3: "Spread(P)", 4: "Spread(N)"}
REDUCE = {"sum", "median", "nanmedian", "mean", "nanmean", "max", "min", "any", "all", "std", "var", "prod", "dot"}
ELEMWISE = {"abs", "sqrt", "log", "exp", "cos", "sin", "pow", "round", "float64", "int64", "float", "int", "array", "copy", "astype", "flatten",
            "zeros_like", "clip", "isnan", "isinf", "log10", "hypot"}
FRESH = {"zeros", "ones", "empty", "full", "arange", "len", "range", "prange", "full_like"}


@dataclass(frozen=True)
class V:
    level: int = 0
    mask: bool = False

    def join(self, o: "V") -> "V":
        return V(max(self.level, o.level), self.mask and o.mask)


def spread(v: V) -> V:
    """A reduction over the series turns a confined dependence into a global one."""
    if v.level == AM_P:
        return V(SP_P)
    if v.level == AM_N:
        return V(SP_N)
    return V(v.level)


def times(a: V, b: V) -> V:
    """Product rule: mask x AtMasked(P) is clean; 0 * NaN is NaN."""
    for m, o in ((a, b), (b, a)):
        if m.mask and m.level == CLEAN:
            if o.level == AM_P:
                return V(CLEAN, True)
            if o.level == AM_N:
                return V(AM_N, False)
            if o.level == CLEAN:
                return V(CLEAN, True)
            return V(o.level, False)
    return V(max(a.level, b.level), False)


@dataclass
class Flow:
    line: int
    stmt: str
    target: str
    value: V
    why: str


class Taint:
    def __init__(self, fn: ast.FunctionDef, file: str, series: str, series_level: int, mask_name: Optional[str], nodata: Optional[str],
                 params: Dict[str, V] = None, summaries: Dict[str, "Summary"] = None):
        self.fn = fn
        self.file = file
        self.series = series
        self.mask_name = mask_name
        self.nodata = nodata
        self.state: Dict[str, V] = {}
        for a in fn.args.args:
            self.state[a.arg] = V(CLEAN)
        self.state[series] = V(series_level)
        for k, v in (params or {}).items():
            self.state[k] = v
        self.summaries = summaries or {}
        self.flows: List[Flow] = []
        self.unsupported: List[str] = []
        self.returns: List[Tuple[ast.Return, List[V]]] = []
        self.control: List[V] = []
        self.guard_valid: List[Tuple[str, str]] = []   # (array, index text) known to be valid (not masked) on this path

    # ------------------------------------------------------------------ expressions
    def fname(self, f) -> str:
        return ast.unparse(f).split(".")[-1]

    def is_defining_predicate(self, e: ast.AST) -> bool:
        """series cell == nodata / isnan(series cell) / isinf(...): the mask itself, not a use of the value."""
        if isinstance(e, ast.Compare) and len(e.ops) == 1 and isinstance(e.ops[0], (ast.Eq, ast.NotEq)):
            sides = [e.left, e.comparators[0]]
            names = [ast.unparse(s) for s in sides]
            if self.nodata in names:
                other = sides[1 - names.index(self.nodata)]
                return self.level_raw(other) >= AM_P or True
        if isinstance(e, ast.Call) and self.fname(e.func) in ("isnan", "isinf", "isfinite"):
            return True
        if isinstance(e, ast.UnaryOp) and isinstance(e.op, ast.Not):
            return self.is_defining_predicate(e.operand)
        if isinstance(e, ast.BoolOp):
            return all(self.is_defining_predicate(v) for v in e.values)
        return False

    def level_raw(self, e) -> int:
        try:
            return self.ev(e).level
        except Exception:  # noqa: BLE001
            return 0

    def is_mask_selector(self, e: ast.AST) -> bool:
        """Boolean index derived from the mask: `w != 0`, `w > 0`, conjunction containing one, or a name holding one."""
        if isinstance(e, ast.Compare) and len(e.ops) == 1:
            l, r = e.left, e.comparators[0]
            # mask != 0, mask > 0, 0 != mask, 0 < mask  (a 0/1 mask is never < 0: `mask < 0` selects nothing)
            if self.ev(l).mask and isinstance(r, ast.Constant) and r.value == 0 and isinstance(e.ops[0], (ast.NotEq, ast.Gt)):
                return True
            if self.ev(r).mask and isinstance(l, ast.Constant) and l.value == 0 and isinstance(e.ops[0], (ast.NotEq, ast.Lt)):
                return True
        if isinstance(e, ast.BinOp) and isinstance(e.op, ast.BitAnd):
            return self.is_mask_selector(e.left) or self.is_mask_selector(e.right)
        if isinstance(e, ast.BoolOp) and isinstance(e.op, ast.And):
            return any(self.is_mask_selector(v) for v in e.values)
        if isinstance(e, ast.Name):
            return self.state.get("@sel:" + e.id, V()).mask
        return False

    def ev(self, e: ast.AST) -> V:
        if isinstance(e, ast.Constant):
            return V(CLEAN)
        if isinstance(e, ast.Name):
            return self.state.get(e.id, V(CLEAN))
        if isinstance(e, ast.Attribute):
            if e.attr in ("shape", "size", "dtype", "ndim"):
                return V(CLEAN)
            return self.ev(e.value)
        if isinstance(e, ast.Subscript):
            base = self.ev(e.value)
            sl = e.slice
            if self.is_mask_selector(sl):
                return V(CLEAN)                      # only valid cells are selected
            key = (ast.unparse(e.value), ast.unparse(sl))
            if key in self.guard_valid and base.level in (AM_P, AM_N):
                return V(CLEAN)                      # dominating validity test on the same cell
            idx = V(CLEAN)
            for p in (sl.elts if isinstance(sl, ast.Tuple) else [sl]):
                if not isinstance(p, ast.Slice):
                    idx = idx.join(V(self.ev(p).level))
            if idx.level > CLEAN:
                return V(max(base.level, spread(V(idx.level)).level))
            # shifted neighbour reads (z[i + 1]) of an AtMasked array mix cells
            shifted = any(isinstance(p, ast.BinOp) for p in (sl.elts if isinstance(sl, ast.Tuple) else [sl]))
            if shifted and base.level in (AM_P, AM_N):
                return spread(base)
            return V(base.level, base.mask)
        if isinstance(e, ast.UnaryOp):
            v = self.ev(e.operand)
            return V(v.level, False) if not isinstance(e.op, ast.USub) else V(v.level, v.mask)
        if isinstance(e, ast.BinOp):
            a, b = self.ev(e.left), self.ev(e.right)
            if isinstance(e.op, ast.Mult):
                return times(a, b)
            if isinstance(e.op, ast.Pow) and a.mask and isinstance(e.right, ast.Constant) and isinstance(e.right.value, (int, float)) and e.right.value > 0:
                return V(a.level, True)
            if isinstance(e.op, ast.Div) and a.mask and a.level == CLEAN and b.level == CLEAN:
                return V(CLEAN, False)
            if isinstance(e.op, (ast.BitAnd, ast.BitOr)):
                return V(max(a.level, b.level))
            return V(max(a.level, b.level), False)
        if isinstance(e, ast.Compare):
            if self.is_defining_predicate(e):
                return V(CLEAN)
            lv = self.ev(e.left)
            for c in e.comparators:
                lv = lv.join(self.ev(c))
            # a boolean is finite: N degrades to P, the confinement is kept
            lvl = {AM_N: AM_P, SP_N: SP_P}.get(lv.level, lv.level)
            return V(lvl)
        if isinstance(e, ast.BoolOp):
            if self.is_defining_predicate(e):
                return V(CLEAN)
            v = V(CLEAN)
            for x in e.values:
                v = v.join(V(self.ev(x).level))
            return v
        if isinstance(e, ast.IfExp):
            return V(max(self.ev(e.test).level, self.ev(e.body).level, self.ev(e.orelse).level))
        if isinstance(e, (ast.Tuple, ast.List)):
            v = V(CLEAN)
            for x in e.elts:
                v = V(max(v.level, self.ev(x).level))
            return v
        if isinstance(e, ast.ListComp):
            if self.is_defining_predicate(e.elt):
                return V(CLEAN)
            lv = max([self.ev(g.iter).level for g in e.generators] + [0])
            return V(lv)
        if isinstance(e, ast.Call):
            return self.call(e)
        if isinstance(e, ast.Lambda):
            return V(CLEAN)
        self.unsupported.append(f"{self.file}:{getattr(e, 'lineno', 0)} expression {type(e).__name__}")
        return V(SP_N)

    def call(self, e: ast.Call) -> V:
        f = self.fname(e.func)
        recv = e.func.value if isinstance(e.func, ast.Attribute) and not (isinstance(e.func.value, ast.Name) and e.func.value.id in ("np", "math", "numba", "sc")) else None
        args = list(e.args) + [k.value for k in e.keywords if k.arg not in ("dtype",)]
        if f == "ws2d" and len(e.args) == 3:
            y, lam, w = (self.ev(a) for a in e.args)
            prod = times(w, y)
            if lam.level >= SP_P or w.level >= SP_P:
                return V(max(lam.level, w.level, spread(V(prod.level)).level))
            if prod.level != CLEAN:
                return spread(V(prod.level)) if prod.level in (AM_P, AM_N) else V(prod.level)
            if w.level in (AM_P, AM_N) and not w.mask:
                # a weight that depends on the placeholder at masked cells without being masked
                return spread(V(w.level))
            return V(CLEAN)
        if f in self.summaries:
            s = self.summaries[f]
            vals = [self.ev(a) for a in e.args]
            return s.apply(vals)
        if f == "where" and len(e.args) == 3:
            c, a, b = e.args
            if self.is_mask_selector(c):
                return V(self.ev(b).level, False)            # valid cells from a, masked cells from b
            return V(max(self.ev(c).level, self.ev(a).level, self.ev(b).level))
        if f == "where" and len(e.args) == 1:
            return spread(V(self.ev(e.args[0]).level))
        if f in REDUCE:
            v = V(CLEAN)
            for a in ([recv] if recv is not None else []) + args:
                v = V(max(v.level, spread(self.ev(a)).level))
            return v
        if f in FRESH:
            lv = 0
            if f in ("full", "full_like") and len(e.args) >= 2:
                lv = self.ev(e.args[1]).level
            return V(lv, f == "zeros")      # an all-zero array is trivially zero at masked cells
        if f in ELEMWISE or f in ("append",):
            v = V(CLEAN)
            first = True
            for a in ([recv] if recv is not None else []) + args:
                x = self.ev(a)
                v = V(max(v.level, x.level), x.mask if first else False)
                first = False
            if f in ("abs", "copy", "float64", "astype", "array"):
                return v
            return V(v.level, False)
        if f in ("autocorr_1d",):
            # reads the raw series with its own nodata handling (C15): the defining predicate is applied cell by cell
            return V(CLEAN)
        self.unsupported.append(f"{self.file}:{e.lineno} call to {f}")
        v = V(CLEAN)
        for a in ([recv] if recv is not None else []) + args:
            v = V(max(v.level, spread(self.ev(a)).level))
        return v

    # ------------------------------------------------------------------ statements
    def ctrl(self) -> V:
        v = V(CLEAN)
        for c in self.control:
            v = V(max(v.level, c.level))
        return v

    def assign_name(self, name: str, v: V, st, why=""):
        c = self.ctrl()
        v2 = V(max(v.level, c.level), v.mask and c.level == CLEAN)
        self.state[name] = v2
        self.flows.append(Flow(st.lineno, norm_stmt(st), name, v2, why))

    def assign_elem(self, target: ast.Subscript, v: V, st, aug=False):
        base = target.value
        if not isinstance(base, ast.Name):
            self.unsupported.append(f"{self.file}:{st.lineno} store into {ast.unparse(base)}")
            return
        name = base.id
        sl = target.slice
        c = self.ctrl()
        idx = V(CLEAN)
        for p in (sl.elts if isinstance(sl, ast.Tuple) else [sl]):
            if not isinstance(p, ast.Slice):
                idx = V(max(idx.level, self.ev(p).level))
        new = V(max(v.level, c.level, idx.level), v.mask and c.level == CLEAN and idx.level == CLEAN)
        full = isinstance(sl, ast.Slice) and sl.lower is None and sl.upper is None
        old = self.state.get(name, V(CLEAN))
        if aug:
            new = V(max(spread(new).level if self._is_reduction(target) else new.level, old.level), False)
            self.state[name] = new
        elif full:
            self.state[name] = new
        else:
            # weak update; the mask definition idiom (0 under the defining predicate, 1 otherwise) is recognised by name
            if name == self.mask_name and self._mask_store(st):
                self.state[name] = V(max(old.level, CLEAN), True)
            else:
                self.state[name] = V(max(old.level, new.level), old.mask and new.mask) if name in self.state and self._written.get(name) else new
        self._written[name] = True
        self.flows.append(Flow(st.lineno, norm_stmt(st), name, self.state[name], "store"))

    _written: Dict[str, bool] = {}

    def _is_reduction(self, target: ast.Subscript) -> bool:
        return True

    def _mask_store(self, st) -> bool:
        return isinstance(st, ast.Assign) and isinstance(st.value, ast.Constant) and st.value.value in (0, 1)

    def run_block(self, stmts: List[ast.stmt]):
        for st in stmts:
            self.stmt(st)

    def stmt(self, st: ast.stmt):
        if isinstance(st, ast.Expr):
            if isinstance(st.value, ast.Constant):
                return
            if isinstance(st.value, ast.Call):
                f = self.fname(st.value.func)
                if f == "round" and len(st.value.args) == 3:
                    v = self.ev(st.value.args[0])
                    out = st.value.args[2]
                    if isinstance(out, ast.Name):
                        self.assign_name(out.id, V(v.level), st, "np.round(.., out)")
                    elif isinstance(out, ast.Subscript) and isinstance(out.value, ast.Name):
                        old = self.state.get(out.value.id, V(CLEAN))
                        self.state[out.value.id] = V(max(old.level, v.level, self.ctrl().level))
                        self.flows.append(Flow(st.lineno, norm_stmt(st), out.value.id, self.state[out.value.id], "np.round(.., out[...])"))
                    return
                if f == "append" and isinstance(st.value.func, ast.Attribute) and isinstance(st.value.func.value, ast.Name):
                    nm = st.value.func.value.id
                    v = self.ev(st.value.args[0]) if st.value.args else V(CLEAN)
                    old = self.state.get(nm, V(CLEAN))
                    self.state[nm] = V(max(old.level, v.level, self.ctrl().level))
                    return
                self.ev(st.value)
                return
            return
        if isinstance(st, ast.Assign):
            v = self.ev(st.value)
            for t in st.targets:
                self._assign_target(t, v, st, st.value)
            return
        if isinstance(st, ast.AugAssign):
            v = self.ev(st.value)
            if isinstance(st.target, ast.Name):
                old = self.state.get(st.target.id, V(CLEAN))
                # accumulation inside a loop over the series is a reduction
                nv = V(max(old.level, spread(v).level, self.ctrl().level))
                self.state[st.target.id] = nv
                self.flows.append(Flow(st.lineno, norm_stmt(st), st.target.id, nv, "accumulation"))
            elif isinstance(st.target, ast.Subscript):
                self.assign_elem(st.target, v, st, aug=True)
            return
        if isinstance(st, ast.If):
            tv = self.ev(st.test)
            # validity knowledge for the arms
            valid_true, valid_false = self._validity(st.test)
            saved = dict(self.state)
            self.control.append(V(tv.level))
            self.guard_valid.extend(valid_true)
            self.run_block(st.body)
            for _ in valid_true:
                self.guard_valid.pop()
            s_true = self.state
            self.state = dict(saved)
            self.guard_valid.extend(valid_false)
            self.run_block(st.orelse)
            for _ in valid_false:
                self.guard_valid.pop()
            self.control.pop()
            s_false = self.state
            merged = {}
            for k in set(s_true) | set(s_false):
                a, b = s_true.get(k), s_false.get(k)
                if a is None or b is None:
                    merged[k] = a or b
                else:
                    merged[k] = a.join(b) if not (a.mask != b.mask and k == self.mask_name) else V(max(a.level, b.level), True)
            # an arm that leaves the block keeps its validity knowledge for the rest (handled conservatively: dropped)
            self.state = merged
            if self._terminates(st.body) and not st.orelse:
                self.guard_valid.extend(valid_false)
                self._sticky += len(valid_false)
            return
        if isinstance(st, (ast.For, ast.While)):
            if isinstance(st, ast.For):
                itv = self.ev(st.iter)
                if isinstance(st.target, ast.Name):
                    # iterating over the series yields cells of the series
                    self.state[st.target.id] = V(itv.level if not (isinstance(st.iter, ast.Call) and self.fname(st.iter.func) in ("range", "prange")) else CLEAN)
            for _ in range(8):
                before = dict(self.state)
                sticky0 = self._sticky
                self.run_block(st.body)
                for _ in range(self._sticky - sticky0):
                    self.guard_valid.pop()
                self._sticky = sticky0
                after = {k: (before[k].join(v) if k in before else v) for k, v in self.state.items()}
                # the mask flag of the mask variable survives the join with its initial (zeros) value
                self.state = after
                if after == before:
                    break
            return
        if isinstance(st, ast.Return):
            vals = []
            if st.value is not None:
                elts = st.value.elts if isinstance(st.value, ast.Tuple) else [st.value]
                vals = [V(max(self.ev(x).level, self.ctrl().level)) for x in elts]
            self.returns.append((st, vals))
            return
        if isinstance(st, (ast.Break, ast.Continue, ast.Pass, ast.Assert)):
            return
        self.unsupported.append(f"{self.file}:{st.lineno} statement {type(st).__name__}")

    _sticky = 0

    def _terminates(self, stmts) -> bool:
        return bool(stmts) and isinstance(stmts[-1], (ast.Return, ast.Continue, ast.Break, ast.Raise))

    def _validity(self, test: ast.AST):
        """(cells known valid in the true arm, cells known valid in the false arm) from `A[i] == nodata` style tests."""
        t, f = [], []
        if isinstance(test, ast.Compare) and len(test.ops) == 1 and isinstance(test.ops[0], (ast.Eq, ast.NotEq)):
            sides = [test.left, test.comparators[0]]
            names = [ast.unparse(s) for s in sides]
            if self.nodata in names:
                other = sides[1 - names.index(self.nodata)]
                cells = []
                if isinstance(other, ast.Subscript):
                    cells.append((ast.unparse(other.value), ast.unparse(other.slice)))
                elif isinstance(other, ast.Name):
                    cells.append(("@name", other.id))
                if isinstance(test.ops[0], ast.Eq):
                    f = cells
                else:
                    t = cells
        return t, f

    def _assign_target(self, t, v: V, st, value):
        if isinstance(t, ast.Name):
            # selector bookkeeping: a boolean array derived from the mask
            if self.is_mask_selector(value):
                self.state["@sel:" + t.id] = V(CLEAN, True)
            if t.id == self.mask_name and self._is_vector_mask(value):
                self.assign_name(t.id, V(CLEAN, True), st, "validity mask")
                return
            # a scalar copied from a cell known to be valid
            if isinstance(value, ast.Name) and ("@name", value.id) in self.guard_valid:
                v = V(CLEAN)
            self.assign_name(t.id, v, st)
        elif isinstance(t, ast.Subscript):
            if isinstance(value, ast.Name) and ("@name", value.id) in self.guard_valid:
                v = V(CLEAN)
            self.assign_elem(t, v, st)
        elif isinstance(t, (ast.Tuple, ast.List)):
            for i, x in enumerate(t.elts):
                vi = v
                if isinstance(value, ast.Call) and self.fname(value.func) in self.summaries:
                    s = self.summaries[self.fname(value.func)]
                    outs = s.apply_multi([self.ev(a) for a in value.args])
                    if i < len(outs):
                        vi = outs[i]
                self._assign_target(x, vi, st, None)

    def _is_vector_mask(self, value) -> bool:
        # 1 - array([<missing-cell predicate> for x in series]); the literal may be spelled 1 or 1.0
        if not (isinstance(value, ast.BinOp) and isinstance(value.op, ast.Sub) and isinstance(value.left, ast.Constant)
                and not isinstance(value.left.value, bool) and value.left.value == 1):
            return False
        s = ast.unparse(value.right)
        return s.startswith(("np.array([", "array([", "numpy.array([")) and ("== " + (self.nodata or "?")) in s

    def run(self):
        self._written = {}
        self._sticky = 0
        self.run_block(self.fn.body)
        return self


class Summary:
    """Summary of a helper: result levels as a function of the argument levels (computed by analysing its body)."""

    def __init__(self, fn: ast.FunctionDef, file: str, series: str, mask: str):
        self.fn, self.file, self.series, self.mask = fn, file, series, mask
        self.params = [a.arg for a in fn.args.args]

    def apply_multi(self, vals: List[V]) -> List[V]:
        par = {p: v for p, v in zip(self.params, vals)}
        t = Taint(self.fn, self.file, self.series, par.get(self.series, V()).level, None, None, params=par)
        # the caller's mask argument keeps its flag
        t.run()
        outs: List[V] = []
        for st, vs in t.returns:
            for i, v in enumerate(vs):
                if i >= len(outs):
                    outs.append(v)
                else:
                    outs[i] = V(max(outs[i].level, v.level))
        self.last = t
        return outs

    def apply(self, vals: List[V]) -> V:
        outs = self.apply_multi(vals)
        v = V(CLEAN)
        for o in outs:
            v = V(max(v.level, o.level))
        return v

"""AST approximation of which local names hold arrays (cross-checked against E7's typed facts in the thorough tier)."""
from __future__ import annotations

import ast
from typing import Set

ARRAY_CTORS = {"zeros", "ones", "empty", "full", "zeros_like", "full_like", "ones_like", "arange", "array", "where",
               "copy", "unique", "flatten", "cos", "abs", "sqrt", "diff", "astype", "round", "clip"}
ARRAY_RETURNING = {"ws2d", "gammastd"}
REDUCTIONS = {"sum", "median", "nanmedian", "mean", "any", "all", "max", "min", "size"}


def infer_array_params(fn: ast.FunctionDef) -> Set[str]:
    """Parameters that are subscripted, iterated, or whose .shape/.size/... is read."""
    params = {a.arg for a in fn.args.args}
    out: Set[str] = set()
    for n in ast.walk(fn):
        if isinstance(n, ast.Subscript) and isinstance(n.value, ast.Name) and n.value.id in params:
            out.add(n.value.id)
        elif isinstance(n, ast.Attribute) and isinstance(n.value, ast.Name) and n.value.id in params and n.attr in (
                "shape", "size", "ndim", "dtype", "sum", "copy", "flatten", "any"):
            out.add(n.value.id)
        elif isinstance(n, (ast.For, ast.comprehension)) and isinstance(n.iter, ast.Name) and n.iter.id in params:
            out.add(n.iter.id)
        elif isinstance(n, ast.Call) and ast.unparse(n.func) in ("len", "np.unique", "np.nanmedian", "np.median") and n.args \
                and isinstance(n.args[0], ast.Name) and n.args[0].id in params:
            out.add(n.args[0].id)
    return out


def _funcname(f) -> str:
    return ast.unparse(f).split(".")[-1]


def array_names(fn: ast.FunctionDef, array_params: Set[str]) -> Set[str]:
    """Names that (may) hold arrays: fixpoint over assignments (AST approximation of E7's facts)."""
    arr = set(array_params)
    tuples: Set[str] = set()      # names bound to a tuple/list literal of arrays

    def is_arr(e) -> bool:
        if isinstance(e, ast.Name):
            return e.id in arr
        if isinstance(e, ast.Subscript) and isinstance(e.value, ast.Name) and e.value.id in tuples and not isinstance(e.slice, ast.Slice):
            return True
        if isinstance(e, ast.Call):
            f = _funcname(e.func)
            if f in REDUCTIONS or f in ("len", "int", "float", "float64", "int64", "log", "pow", "round") and not (
                    f == "round" and isinstance(e.func, ast.Attribute)):
                if f == "round" and isinstance(e.func, ast.Attribute):
                    return any(is_arr(a) for a in e.args[:1])
                return False
            if f in ARRAY_RETURNING:
                return True
            if f in ARRAY_CTORS:
                if f in ("abs", "sqrt", "cos", "round"):
                    return any(is_arr(a) for a in e.args[:1])
                return True
            if isinstance(e.func, ast.Attribute) and f in ("copy", "flatten", "astype"):
                return is_arr(e.func.value)
            return False
        if isinstance(e, ast.BinOp):
            return is_arr(e.left) or is_arr(e.right)
        if isinstance(e, ast.UnaryOp):
            return is_arr(e.operand)
        if isinstance(e, ast.Compare):
            return is_arr(e.left) or any(is_arr(c) for c in e.comparators)
        if isinstance(e, ast.Subscript):
            if isinstance(e.value, ast.Call) and _funcname(e.value.func) == "where" and len(e.value.args) == 1:
                return True   # np.where(cond)[k] is an index array
            if not is_arr(e.value):
                return False
            sl = e.slice
            parts = sl.elts if isinstance(sl, ast.Tuple) else [sl]
            return any(isinstance(p, ast.Slice) or is_arr(p) for p in parts)
        if isinstance(e, ast.IfExp):
            return is_arr(e.body) or is_arr(e.orelse)
        return False

    changed = True
    while changed:
        changed = False
        for st in ast.walk(fn):
            if isinstance(st, ast.Assign) and len(st.targets) == 1 and isinstance(st.targets[0], ast.Name):
                if isinstance(st.value, (ast.Tuple, ast.List)) and st.value.elts and all(is_arr(x) for x in st.value.elts) \
                        and st.targets[0].id not in tuples:
                    tuples.add(st.targets[0].id)
                    changed = True
                if st.targets[0].id not in arr and is_arr(st.value):
                    arr.add(st.targets[0].id)
                    changed = True
            elif isinstance(st, ast.For) and isinstance(st.target, ast.Name):
                pass
    return arr, is_arr



"""E4 — expression normaliser: syntax tree -> canonical rational function over atoms.

Pure syntax manipulation.  Numerator/denominator are polynomials with Fraction
coefficients; atoms are names, subscripts with normalised indices, attribute reads and
uninterpreted applications ``f[arg;...]`` with normalised arguments.  Equality of two
formulas is equality of cross-multiplied normal forms, so algebraic rewrites
(``x*x`` / ``x**2`` / ``pow(x, 2)``, hoisted factors, renamed temporaries after copy
propagation) compare equal while any changed coefficient, sign, index offset or dropped
term does not.
"""
from __future__ import annotations

import ast
from fractions import Fraction
from typing import Callable, Dict, Optional


class Unsupported(Exception):
    pass


class Poly:
    __slots__ = ("t",)

    def __init__(self, t=None):
        self.t = {k: v for k, v in (t or {}).items() if v != 0}

    @staticmethod
    def const(c):
        return Poly({(): Fraction(c)})

    @staticmethod
    def atom(a: str):
        return Poly({((a, 1),): Fraction(1)})

    def __add__(self, o):
        t = dict(self.t)
        for k, v in o.t.items():
            t[k] = t.get(k, 0) + v
        return Poly(t)

    def __neg__(self):
        return Poly({k: -v for k, v in self.t.items()})

    def __sub__(self, o):
        return self + (-o)

    def __mul__(self, o):
        t: Dict[tuple, Fraction] = {}
        for k1, v1 in self.t.items():
            for k2, v2 in o.t.items():
                d = dict(k1)
                for a, e in k2:
                    d[a] = d.get(a, 0) + e
                k = tuple(sorted((a, e) for a, e in d.items() if e))
                t[k] = t.get(k, 0) + v1 * v2
        return Poly(t)

    def __pow__(self, n: int):
        r = Poly.const(1)
        for _ in range(n):
            r = r * self
        return r

    def is_zero(self):
        return not self.t

    def __eq__(self, o):
        return isinstance(o, Poly) and self.t == o.t

    def __hash__(self):
        return hash(tuple(sorted(self.t.items())))

    def is_const(self):
        return all(k == () for k in self.t)

    def const_value(self) -> Optional[Fraction]:
        if self.is_const():
            return self.t.get((), Fraction(0))
        return None

    def atoms(self):
        s = set()
        for k in self.t:
            for a, _ in k:
                s.add(a)
        return s

    def coeff_of(self, atom: str) -> "Poly":
        """Polynomial coefficient of `atom`^1 (terms where atom has exponent exactly 1)."""
        t = {}
        for k, v in self.t.items():
            d = dict(k)
            if d.get(atom) == 1:
                del d[atom]
                t[tuple(sorted(d.items()))] = v
        return Poly(t)

    def without(self, atom: str) -> "Poly":
        return Poly({k: v for k, v in self.t.items() if atom not in dict(k)})

    def degree_in(self, atom: str) -> int:
        return max([dict(k).get(atom, 0) for k in self.t] or [0])

    def __repr__(self):
        if not self.t:
            return "0"
        out = []
        for k, v in sorted(self.t.items(), key=lambda kv: str(kv[0])):
            m = "*".join(a if e == 1 else f"{a}^{e}" for a, e in k)
            if m:
                out.append((f"{v}*" if v != 1 else "") + m)
            else:
                out.append(f"{v}")
        return " + ".join(out)


class Rat:
    """num/den (not reduced); equality by cross multiplication."""

    __slots__ = ("n", "d")

    def __init__(self, n: Poly, d: Optional[Poly] = None):
        self.n, self.d = n, (d if d is not None else Poly.const(1))

    @staticmethod
    def const(c):
        return Rat(Poly.const(c))

    @staticmethod
    def atom(a):
        return Rat(Poly.atom(a))

    def __add__(self, o):
        if self.d == o.d:
            return Rat(self.n + o.n, self.d)
        return Rat(self.n * o.d + o.n * self.d, self.d * o.d)

    def __neg__(self):
        return Rat(-self.n, self.d)

    def __sub__(self, o):
        return self + (-o)

    def __mul__(self, o):
        return Rat(self.n * o.n, self.d * o.d)

    def __truediv__(self, o):
        if o.n.is_zero():
            raise Unsupported("division by a syntactic zero")
        return Rat(self.n * o.d, self.d * o.n)

    def equals(self, o) -> bool:
        return (self.n * o.d - o.n * self.d).is_zero()

    def is_zero(self):
        return self.n.is_zero()

    def const_value(self) -> Optional[Fraction]:
        a, b = self.n.const_value(), self.d.const_value()
        if a is not None and b is not None and b != 0:
            return a / b
        return None

    def simple(self) -> "Rat":
        """Canonical scaling: constant denominators are divided through; otherwise numerator and
        denominator are scaled so that the denominator's leading coefficient (in monomial order) is 1."""
        c = self.d.const_value()
        if c is not None and c != 0:
            if c != 1:
                return Rat(Poly({k: v / c for k, v in self.n.t.items()}))
            return self
        if self.d.t:
            lead = sorted(self.d.t.items(), key=lambda kv: str(kv[0]))[-1][1]
            if lead != 1 and lead != 0:
                return Rat(Poly({k: v / lead for k, v in self.n.t.items()}), Poly({k: v / lead for k, v in self.d.t.items()}))
        return self

    def key(self) -> str:
        s = self.simple()
        if s.d.const_value() == 1:
            return repr(s.n)
        return f"({s.n!r})/({s.d!r})"

    def atoms(self):
        return self.n.atoms() | self.d.atoms()

    __repr__ = key


SQRT_REGISTRY: Dict[str, "Rat"] = {}  # atom name `sqrt[key]` -> the radicand it stands for


def desqrt(r: "Rat") -> "Rat":
    """Replace even powers of sqrt atoms by powers of their radicand (sqrt[K]^2 -> K)."""
    def conv(p: Poly) -> "Rat":
        acc = Rat.const(0)
        for mono, c in p.t.items():
            term = Rat.const(c)
            for a, e in mono:
                if a in SQRT_REGISTRY and e >= 2:
                    k, rem = divmod(e, 2)
                    rad = SQRT_REGISTRY[a]
                    for _ in range(k):
                        term = term * rad
                    if rem:
                        term = term * Rat.atom(a)
                else:
                    base = Rat.atom(a)
                    for _ in range(e):
                        term = term * base
            acc = acc + term
        return acc
    return conv(r.n) / conv(r.d)


CAST_FUNCS = {"float64", "float", "int64", "float32", "int", "int32", "int16"}
SQRT_FUNCS = {"sqrt"}


class Normaliser:
    """Normalise expression ASTs.

    env      : name -> Rat | ast.expr  (copy propagation of temporaries)
    on_name  : optional hook(name) -> Rat | None
    on_call  : optional hook(funcname, node, self) -> Rat | None
    on_sub   : optional hook(node, self) -> Rat | None
    keep_casts: when True casts are kept as uninterpreted atoms
    """

    def __init__(self, env=None, on_name=None, on_call=None, on_sub=None, keep_casts=False,
                 int_div_exact=False):
        self.env = env if env is not None else {}
        self.on_name = on_name
        self.on_call = on_call
        self.on_sub = on_sub
        self.keep_casts = keep_casts

    # ------------------------------------------------------------------ helpers
    def idx_key(self, node) -> str:
        if isinstance(node, ast.Slice):
            lo = self.idx_key(node.lower) if node.lower is not None else ""
            hi = self.idx_key(node.upper) if node.upper is not None else ""
            st = (":" + self.idx_key(node.step)) if node.step is not None else ""
            return f"{lo}:{hi}{st}"
        return self.norm(node).key()

    def funcname(self, f) -> str:
        return ast.unparse(f).split(".")[-1]

    # ------------------------------------------------------------------ main
    def norm(self, node) -> Rat:
        if isinstance(node, Rat):
            return node
        if isinstance(node, ast.Constant):
            v = node.value
            if isinstance(v, bool):
                return Rat.atom("True" if v else "False")
            if isinstance(v, int):
                return Rat.const(v)
            if isinstance(v, float):
                if v != v or v in (float("inf"), float("-inf")):
                    return Rat.atom(repr(v))
                return Rat.const(Fraction(repr(v)))
            if v is None:
                return Rat.atom("None")
            if isinstance(v, str):
                return Rat.atom(repr(v))
            raise Unsupported(f"constant {v!r}")
        if isinstance(node, ast.Name):
            if node.id in self.env:
                val = self.env[node.id]
                return val if isinstance(val, Rat) else self.norm(val)
            if self.on_name:
                r = self.on_name(node.id)
                if r is not None:
                    return r
            return Rat.atom(node.id)
        if isinstance(node, ast.UnaryOp):
            if isinstance(node.op, ast.USub):
                return -self.norm(node.operand)
            if isinstance(node.op, ast.UAdd):
                return self.norm(node.operand)
            if isinstance(node.op, ast.Not):
                return Rat.atom(f"not[{self.norm(node.operand).key()}]")
            if isinstance(node.op, ast.Invert):
                return Rat.atom(f"inv[{self.norm(node.operand).key()}]")
        if isinstance(node, ast.BinOp):
            if isinstance(node.op, ast.Pow):
                return self.power(self.norm(node.left), self.norm(node.right))
            l, r = self.norm(node.left), self.norm(node.right)
            if isinstance(node.op, ast.Add):
                return l + r
            if isinstance(node.op, ast.Sub):
                return l - r
            if isinstance(node.op, ast.Mult):
                return l * r
            if isinstance(node.op, ast.Div):
                return l / r
            if isinstance(node.op, ast.FloorDiv):
                return Rat.atom(f"floordiv[{l.key()};{r.key()}]")
            if isinstance(node.op, ast.Mod):
                return Rat.atom(f"mod[{l.key()};{r.key()}]")
            if isinstance(node.op, ast.BitAnd):
                a, b = sorted([l.key(), r.key()])
                return Rat.atom(f"and[{a};{b}]")
            if isinstance(node.op, ast.BitOr):
                a, b = sorted([l.key(), r.key()])
                return Rat.atom(f"or[{a};{b}]")
        if isinstance(node, ast.Compare) and len(node.ops) == 1:
            l, r = self.norm(node.left), self.norm(node.comparators[0])
            return Rat.atom(cmp_key(node.ops[0], l, r))
        if isinstance(node, ast.BoolOp):
            parts = sorted(self.norm(v).key() for v in node.values)
            tag = "and" if isinstance(node.op, ast.And) else "or"
            return Rat.atom(f"{tag}[{';'.join(parts)}]")
        if isinstance(node, ast.IfExp):
            return Rat.atom(
                f"ifexp[{self.norm(node.test).key()};{self.norm(node.body).key()};{self.norm(node.orelse).key()}]"
            )
        if isinstance(node, ast.Subscript):
            # size reads: X.shape[k] -> len<k>[X]
            if (isinstance(node.value, ast.Attribute) and node.value.attr == "shape"
                    and isinstance(node.slice, ast.Constant) and isinstance(node.slice.value, int)):
                return Rat.atom(f"len{node.slice.value}[{self._base_key(node.value.value)}]")
            if self.on_sub:
                r = self.on_sub(node, self)
                if r is not None:
                    return r
            base = self._base_key(node.value)
            sl = node.slice
            parts = sl.elts if isinstance(sl, ast.Tuple) else [sl]
            keys = [self.idx_key(p) for p in parts]
            return Rat.atom(f"{base}[{','.join(keys)}]")
        if isinstance(node, ast.Attribute):
            if node.attr == "size":
                return Rat.atom(f"size[{self._base_key(node.value)}]")
            return Rat.atom(f"{self.norm(node.value).key()}.{node.attr}")
        if isinstance(node, ast.Call):
            f = self.funcname(node.func)
            if self.on_call:
                r = self.on_call(f, node, self)
                if r is not None:
                    return r
            if f == "len" and len(node.args) == 1 and isinstance(node.func, ast.Name):
                return Rat.atom(f"len0[{self._base_key(node.args[0])}]")
            if f == "pow" and len(node.args) == 2:
                return self.power(self.norm(node.args[0]), self.norm(node.args[1]))
            if f in SQRT_FUNCS and len(node.args) == 1:
                return self.power(self.norm(node.args[0]), Rat.const(Fraction(1, 2)))
            if f in CAST_FUNCS and len(node.args) == 1 and not self.keep_casts:
                return self.norm(node.args[0])
            args = [desqrt(self.norm(a)).key() for a in node.args]
            kws = [f"{k.arg}={self.norm(k.value).key()}" for k in node.keywords]
            if isinstance(node.func, ast.Attribute) and not _is_module_ref(node.func.value):
                # method call: X.f(args) is written f[X;args] so that X.sum() and np.sum(X) coincide
                args = [desqrt(self.norm(node.func.value)).key()] + args
            return Rat.atom(f"{f}[{';'.join(args + kws)}]")
        if isinstance(node, ast.ListComp) and len(node.generators) == 1 and not node.generators[0].ifs \
                and isinstance(node.generators[0].target, ast.Name):
            gen = node.generators[0]
            it = self.norm(gen.iter).key()
            sub = Normaliser(dict(self.env), on_name=self.on_name, on_call=self.on_call, on_sub=self.on_sub, keep_casts=self.keep_casts)
            sub.env[gen.target.id] = Rat.atom(f"elem[{it}]")
            return Rat.atom(f"listcomp[{sub.norm(node.elt).key()};{it}]")
        if isinstance(node, (ast.Tuple, ast.List)):
            return Rat.atom("tuple[" + ";".join(self.norm(e).key() for e in node.elts) + "]")
        raise Unsupported("unsupported expression " + ast.dump(node)[:80])

    def _base_key(self, node) -> str:
        if isinstance(node, ast.Name):
            return self._name_key(node)
        return self.norm(node).key()

    def _name_key(self, name: ast.Name) -> str:
        if name.id in self.env:
            val = self.env[name.id]
            r = val if isinstance(val, Rat) else self.norm(val)
            return r.key()
        return name.id

    def power(self, b: Rat, e: Rat) -> Rat:
        ev = e.const_value()
        if ev is not None:
            if ev.denominator == 1:
                k = int(ev)
                if abs(k) > 8:
                    return Rat.atom(f"pow[{b.key()};{e.key()}]")
                if k >= 0:
                    return Rat(b.n ** k, b.d ** k)
                return Rat(b.d ** (-k), b.n ** (-k))
            if ev.denominator == 2:
                SQRT_REGISTRY[f"sqrt[{b.key()}]"] = b
                s = Poly.atom(f"sqrt[{b.key()}]")
                k = int(ev.numerator)
                return Rat(s ** k) if k >= 0 else Rat(Poly.const(1), s ** (-k))
        return Rat.atom(f"pow[{b.key()};{e.key()}]")


MODULE_NAMES = {"np", "numpy", "math", "sc", "numba", "da", "xarray", "scipy", "special"}


def _is_module_ref(node) -> bool:
    return isinstance(node, ast.Name) and node.id in MODULE_NAMES or (
        isinstance(node, ast.Attribute) and _is_module_ref(node.value)
    )


def cmp_key(op, l: Rat, r: Rat) -> str:
    """Canonical comparison atom: `a > b` and `b < a` coincide; difference form."""
    d = l - r
    names = {ast.Lt: "lt0", ast.LtE: "le0", ast.Gt: "gt0", ast.GtE: "ge0", ast.Eq: "eq0",
             ast.NotEq: "ne0", ast.Is: "is", ast.IsNot: "isnot", ast.In: "in", ast.NotIn: "notin"}
    n = names[type(op)]
    if n in ("is", "isnot", "in", "notin"):
        return f"{n}[{l.key()};{r.key()}]"
    # orient: make the leading coefficient of the difference positive
    dk = d.simple()
    lead = None
    if dk.n.t:
        lead = sorted(dk.n.t.items(), key=lambda kv: str(kv[0]))[-1][1]
    if lead is not None and lead < 0 and dk.d.const_value() is not None:
        dk = (-dk).simple()
        n = {"lt0": "gt0", "le0": "ge0", "gt0": "lt0", "ge0": "le0"}.get(n, n)
    return f"{n}[{dk.key()}]"


def parse_expr(s: str) -> ast.expr:
    return ast.parse(s, mode="eval").body


def norm_str(s: str, env=None, **kw) -> Rat:
    return Normaliser(env, **kw).norm(parse_expr(s))


def int_cmp(node: ast.Compare, N: "Normaliser"):
    """Canonical form of a comparison between integer-valued expressions.

    Returns (tag, diff) with tag in {"le0", "ge0", "eq0", "ne0"} meaning ``diff <tag> 0``;
    strict comparisons are turned into non-strict ones (x < y  <=>  x - y + 1 <= 0), and the
    difference is oriented so that `a <= b` and `b >= a` coincide (always expressed as le0/eq0/ne0).
    """
    if len(node.ops) != 1:
        raise Unsupported("chained comparison")
    l, r = N.norm(node.left), N.norm(node.comparators[0])
    op = node.ops[0]
    d = l - r
    one = Rat.const(1)
    if isinstance(op, ast.LtE):
        return "le0", d
    if isinstance(op, ast.Lt):
        return "le0", d + one
    if isinstance(op, ast.GtE):
        return "le0", -d
    if isinstance(op, ast.Gt):
        return "le0", -d + one
    if isinstance(op, ast.Eq):
        return "eq0", d
    if isinstance(op, ast.NotEq):
        return "ne0", d
    raise Unsupported("comparison operator")

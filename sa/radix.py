"""Small abstract domains for integer calendar arithmetic (used by C11).

AffQ  : values of the form  a*q + t[r]  for an integer written v = P*q + r, 0 <= r < P
        (P = 36 for dekads).  Closed under +, -, * const, // c and % c when c divides a,
        min/max with constants when a == 0.  Exact (no over-approximation); anything
        outside the closure raises Top.
Interval : closed integer intervals with monotone transfer for + - * // min max.
Neither executes repository code: they interpret an expression *syntax tree*.
"""
from __future__ import annotations

import ast
from typing import Callable, Dict, Optional, Tuple


class Top(Exception):
    pass


class AffQ:
    __slots__ = ("a", "t", "P")

    def __init__(self, a: int, t, P: int):
        self.a, self.t, self.P = a, tuple(t), P

    @staticmethod
    def const(c, P):
        return AffQ(0, [c] * P, P)

    @staticmethod
    def var(P):
        return AffQ(P, list(range(P)), P)

    def __eq__(self, o):
        return isinstance(o, AffQ) and (self.a, self.t, self.P) == (o.a, o.t, o.P)

    def __repr__(self):
        return f"{self.a}*q + {list(self.t)}"

    def add(self, o):
        return AffQ(self.a + o.a, [x + y for x, y in zip(self.t, o.t)], self.P)

    def neg(self):
        return AffQ(-self.a, [-x for x in self.t], self.P)

    def mul(self, o):
        if o.a == 0 and len(set(o.t)) == 1:
            c = o.t[0]
            return AffQ(self.a * c, [x * c for x in self.t], self.P)
        if self.a == 0 and len(set(self.t)) == 1:
            return o.mul(self)
        if self.a == 0 and o.a == 0:
            return AffQ(0, [x * y for x, y in zip(self.t, o.t)], self.P)
        raise Top("product of two q-dependent values")

    def floordiv(self, o):
        if not (o.a == 0 and len(set(o.t)) == 1 and o.t[0] > 0):
            raise Top("// by a non-constant")
        c = o.t[0]
        if self.a % c != 0:
            raise Top(f"{self.a}*q // {c}: divisor does not divide the q coefficient")
        return AffQ(self.a // c, [x // c for x in self.t], self.P)

    def mod(self, o):
        if not (o.a == 0 and len(set(o.t)) == 1 and o.t[0] > 0):
            raise Top("% by a non-constant")
        c = o.t[0]
        if self.a % c != 0:
            raise Top(f"{self.a}*q % {c}: modulus does not divide the q coefficient")
        return AffQ(0, [x % c for x in self.t], self.P)

    def minmax(self, o, f):
        if self.a != 0 or o.a != 0:
            raise Top("min/max of a q-dependent value")
        return AffQ(0, [f(x, y) for x, y in zip(self.t, o.t)], self.P)


def eval_affq(node: ast.AST, P: int, resolve: Callable[[ast.AST], Optional[ast.AST | AffQ]]) -> AffQ:
    """resolve(node) may return an AffQ (for the variable), an ast to inline, or None."""
    r = resolve(node)
    if isinstance(r, AffQ):
        return r
    if r is not None:
        return eval_affq(r, P, resolve)
    if isinstance(node, ast.Constant) and isinstance(node.value, int) and not isinstance(node.value, bool):
        return AffQ.const(node.value, P)
    if isinstance(node, ast.UnaryOp) and isinstance(node.op, ast.USub):
        return eval_affq(node.operand, P, resolve).neg()
    if isinstance(node, ast.BinOp):
        l = eval_affq(node.left, P, resolve)
        rr = eval_affq(node.right, P, resolve)
        if isinstance(node.op, ast.Add):
            return l.add(rr)
        if isinstance(node.op, ast.Sub):
            return l.add(rr.neg())
        if isinstance(node.op, ast.Mult):
            return l.mul(rr)
        if isinstance(node.op, ast.FloorDiv):
            return l.floordiv(rr)
        if isinstance(node.op, ast.Mod):
            return l.mod(rr)
    if isinstance(node, ast.Call) and isinstance(node.func, ast.Name) and node.func.id in ("min", "max") and len(node.args) == 2:
        f = min if node.func.id == "min" else max
        return eval_affq(node.args[0], P, resolve).minmax(eval_affq(node.args[1], P, resolve), f)
    if isinstance(node, ast.Call) and isinstance(node.func, ast.Name) and node.func.id == "int" and len(node.args) == 1:
        return eval_affq(node.args[0], P, resolve)
    raise Top("expression outside the closure: " + ast.unparse(node)[:60])


# ---------------------------------------------------------------------------- intervals


class Itv:
    __slots__ = ("lo", "hi")

    def __init__(self, lo, hi):
        self.lo, self.hi = lo, hi

    def __repr__(self):
        return f"[{self.lo},{self.hi}]"

    def __eq__(self, o):
        return isinstance(o, Itv) and (self.lo, self.hi) == (o.lo, o.hi)


def eval_itv(node: ast.AST, env: Callable[[ast.AST], Optional[Itv]]) -> Itv:
    r = env(node)
    if r is not None:
        return r
    if isinstance(node, ast.Constant) and isinstance(node.value, int) and not isinstance(node.value, bool):
        return Itv(node.value, node.value)
    if isinstance(node, ast.UnaryOp) and isinstance(node.op, ast.USub):
        v = eval_itv(node.operand, env)
        return Itv(-v.hi, -v.lo)
    if isinstance(node, ast.BinOp):
        a, b = eval_itv(node.left, env), eval_itv(node.right, env)
        if isinstance(node.op, ast.Add):
            return Itv(a.lo + b.lo, a.hi + b.hi)
        if isinstance(node.op, ast.Sub):
            return Itv(a.lo - b.hi, a.hi - b.lo)
        if isinstance(node.op, ast.Mult):
            c = [a.lo * b.lo, a.lo * b.hi, a.hi * b.lo, a.hi * b.hi]
            return Itv(min(c), max(c))
        if isinstance(node.op, ast.FloorDiv) and b.lo == b.hi and b.lo > 0:
            return Itv(a.lo // b.lo, a.hi // b.lo)
        if isinstance(node.op, ast.Mod) and b.lo == b.hi and b.lo > 0:
            if a.lo // b.lo == a.hi // b.lo:
                return Itv(a.lo % b.lo, a.hi % b.lo)
            return Itv(0, b.lo - 1)
    if isinstance(node, ast.Call) and isinstance(node.func, ast.Name) and node.func.id in ("min", "max") and len(node.args) == 2:
        a, b = eval_itv(node.args[0], env), eval_itv(node.args[1], env)
        if node.func.id == "min":
            return Itv(min(a.lo, b.lo), min(a.hi, b.hi))
        return Itv(max(a.lo, b.lo), max(a.hi, b.hi))
    raise Top("interval evaluation: unsupported " + ast.unparse(node)[:60])

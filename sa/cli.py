"""CLI: ./check <ID|all> [--tier quick|thorough] [--replay path] [--repo DIR]

Exit 0: the property's decided clauses hold on everything analysed (known findings
are printed as KNOWN-FINDING lines).  Exit 1: ``VIOLATION property=<id> replay=<path>``.
Exit 2: ``ANALYSIS-ERROR`` (anchor missing, unsupported construct, floor not reached).
"""
from __future__ import annotations

import argparse
import importlib
import json
import os
import sys
import time
import traceback
from pathlib import Path

sys.path.insert(0, str(Path(__file__).resolve().parent.parent))

from sa import core  # noqa: E402

LEVELS = {
    "C01": "proof",
    "C11": "proof",
    "C14": "proof",
}


def registry():
    """property id -> module name (only modules that exist are claimed)."""
    out = {}
    d = Path(__file__).resolve().parent / "props"
    for p in sorted(d.glob("c[0-9][0-9].py")):
        out[p.stem.upper()] = f"sa.props.{p.stem}"
    return out


def run_one(pid: str, tier: str, repo_root: Path, replay: str | None = None) -> int:
    t0 = time.time()
    reg = registry()
    if pid not in reg:
        print(f"ANALYSIS-ERROR property={pid} no check is registered for this property")
        return 2
    try:
        repo = core.Repo(repo_root)
        mod = importlib.import_module(reg[pid])
        rep: core.Report = mod.run(repo, tier)
        # legacy module must stay unreachable (DESIGN section 0)
        if "hdc.algo.ops.whit" in repo.modules and "hdc.algo.ops.whit" in repo.reachable_modules():
            raise core.AnalysisError(
                "hdc/algo/ops/whit.py became reachable from the package's import graph; "
                "the rules exclude it on the premise that nothing imports it"
            )
        extra_thorough = None
        if tier == "thorough":
            from sa import thorough as th
            extra_thorough = {"selftest": th.run_corpus(pid, repo_root), "refactoring_plus_break": th.run_compositions(pid, repo_root)}
            if hasattr(mod, "thorough"):
                extra_thorough.update(mod.thorough(repo, rep) or {})
            rep.extra_cov = dict(getattr(rep, "extra_cov", None) or {}, thorough=extra_thorough)
    except core.AnalysisError as exc:
        print(f"ANALYSIS-ERROR property={pid} {exc}")
        part = core.CURRENT
        rc = 2
        if part is not None and part.pid == pid:
            # violations established before the analysis broke down are still violations
            known = core.load_known()
            rdir = Path(os.environ.get("VERIF_EVIDENCE_DIR", str(core.VERIF / "evidence"))) / "replay"
            k = 0
            for o in part.violations():
                if core.match_known(o, pid, known) is None:
                    rdir.mkdir(parents=True, exist_ok=True)
                    path = rdir / f"{pid}-{k}.json"
                    path.write_text(json.dumps({"property": pid, "key": o.key(), "obligation": o.to_json()}, indent=1, default=str))
                    print(f"  {o.where()}: [{o.rule}] {o.role}: {o.detail}\n      stmt: {o.stmt}")
                    print(f"VIOLATION property={pid} replay={path}")
                    k += 1
                    rc = 1
        return rc
    except Exception:  # noqa: BLE001  tracebacks must not look like violations
        tb = traceback.format_exc()
        print(f"ANALYSIS-ERROR property={pid} internal error\n{tb}")
        return 2

    known = core.load_known()
    viol, known_hit = [], []
    for o in rep.violations():
        e = core.match_known(o, pid, known)
        if e is not None:
            known_hit.append((o, e))
        else:
            viol.append(o)
    if replay:
        want = json.loads(Path(replay).read_text()).get("key")
        viol = [o for o in viol if o.key() == want]

    level = getattr(mod, "LEVEL", LEVELS.get(pid, "other"))
    wall = time.time() - t0
    core.write_evidence(rep, tier, level, wall, viol, known_hit, repo,
                        extra_cov=getattr(rep, "extra_cov", None))

    st_bad = []
    if tier == "thorough" and extra_thorough is not None:
        st = extra_thorough["selftest"]
        print(f"[{pid}] thorough: sensitivity corpus {st['variants']} variants ({st['fire_expected']} must fire, {st['silent_expected']} must stay silent), "
              f"{len(st['unexpected'])} unexpected")
        st_bad = st["unexpected"]
        for u in st_bad:
            print(f"{u['status']} {u['id']}: " + " / ".join(u["tail"]))
        for key, val in extra_thorough.items():
            if key != "selftest" and isinstance(val, dict) and "pairs" in val:
                print(f"[{pid}] thorough: {val['pairs']} refactoring+break compositions, {val['fire']} reported, {val['noapply']} do not apply together, {val['MISS'] + val['error']} unexpected")
            if key != "selftest" and isinstance(val, dict) and val.get("disagreements"):
                for dmsg in val["disagreements"]:
                    print(f"ANALYSIS-ERROR property={pid} cross-check {key}: {dmsg}")
                st_bad = st_bad + [key]
    n_ok = sum(1 for o in rep.obls if o.ok)
    print(f"[{pid}] tier={tier} obligations={len(rep.obls)} discharged={n_ok} "
          f"violations={len(viol)} known={len(known_hit)} wall={wall:.2f}s")
    for name, got, fl in rep.floors:
        print(f"[{pid}]   floor {name}: {got} >= {fl}")
    seen = set()
    for o, e in known_hit:
        tag = e.get("id", "") + ":" + o.function + ":" + o.role
        if tag in seen:
            continue
        seen.add(tag)
        print(f"KNOWN-FINDING: property={pid} {e.get('id', '')} {e.get('what', '')} "
              f"[{o.rule} at {o.where()}: {o.stmt}]")
    if viol:
        rdir = Path(os.environ.get("VERIF_EVIDENCE_DIR", str(core.VERIF / "evidence"))) / "replay"
        rdir.mkdir(parents=True, exist_ok=True)
        for k, o in enumerate(viol):
            path = rdir / f"{pid}-{k}.json"
            path.write_text(json.dumps({"property": pid, "key": o.key(), "obligation": o.to_json(),
                                        "repo_digest": repo.digest()}, indent=1, default=str))
            print(f"  {o.where()}: [{o.rule}] {o.role}: {o.detail}\n      stmt: {o.stmt}")
            print(f"VIOLATION property={pid} replay={path}")
        return 1
    if st_bad:
        return 2
    return 0


def main(argv=None) -> int:
    ap = argparse.ArgumentParser()
    ap.add_argument("pid")
    ap.add_argument("--tier", default=os.environ.get("VERIF_TIER", "quick"), choices=["quick", "thorough"])
    ap.add_argument("--replay")
    ap.add_argument("--repo", default=os.environ.get("HDC_REPO", "/repo"))
    a = ap.parse_args(argv)
    core.REPO = Path(a.repo)
    if a.pid.lower() == "all":
        rc = 0
        for pid in registry():
            rc = max(rc, run_one(pid, a.tier, Path(a.repo)))
        return rc
    return run_one(a.pid.upper(), a.tier, Path(a.repo), a.replay)


if __name__ == "__main__":
    import signal
    try:
        signal.signal(signal.SIGPIPE, signal.SIG_DFL)
    except (AttributeError, ValueError):
        pass
    try:
        rc = main()
    except SystemExit:
        raise
    except Exception:  # noqa: BLE001
        print("ANALYSIS-ERROR internal error\n" + traceback.format_exc())
        rc = 2
    sys.stdout.flush()
    os._exit(rc)

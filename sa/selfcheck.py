"""setup_cmd: verify that everything the checks need is present (no build step)."""
import ast
import json
import sys
from pathlib import Path

V = Path(__file__).resolve().parent.parent
ok = True
if sys.version_info[:2] < (3, 9):
    print("python too old for ast.unparse"); ok = False
for f in ("MANIFEST.json", "known_findings.json", "properties.jsonl", "check"):
    if not (V / f).exists():
        print("missing", f); ok = False
try:
    import numba  # noqa: F401
    from numba.core.compiler import CompilerBase, DefaultPassBuilder  # noqa: F401
    from numba.core.typed_passes import NopythonTypeInference  # noqa: F401
except Exception as exc:  # noqa: BLE001
    print("numba pipeline hooks unavailable:", exc); ok = False
json.loads((V / "MANIFEST.json").read_text())
(V / "evidence").mkdir(exist_ok=True)
print("selfcheck", "ok" if ok else "FAILED")
sys.exit(0 if ok else 1)

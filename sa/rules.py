"""Shared rule implementations (DESIGN.md section 3)."""
from __future__ import annotations

import ast
from typing import Dict, Iterable, List, Optional, Set

from .core import AnalysisError, Report, Repo, norm_stmt
from .divs import DivAnalysis, Division
from .kernels import Kernel


def array_params_of(k: Kernel) -> Set[str]:
    """Parameters that hold arrays: declared ndim > 0, or subscripted / .shape / iterated in the body."""
    out: Set[str] = set()
    if k.kind == "guvectorize" and k.sigs:
        for i, p in enumerate(k.params):
            if any(sig[i][1] > 0 for sig in k.sigs):
                out.add(p)
        return out
    params = set(k.params)
    for n in ast.walk(k.node):
        if isinstance(n, ast.Subscript) and isinstance(n.value, ast.Name) and n.value.id in params:
            out.add(n.value.id)
        elif isinstance(n, ast.Attribute) and isinstance(n.value, ast.Name) and n.value.id in params and n.attr in (
                "shape", "size", "ndim", "dtype", "sum", "copy", "flatten", "any"):
            out.add(n.value.id)
        elif isinstance(n, ast.For) and isinstance(n.iter, ast.Name) and n.iter.id in params:
            out.add(n.iter.id)
        elif isinstance(n, ast.Call) and ast.unparse(n.func) in ("len", "np.unique", "np.nanmedian", "np.median") and n.args \
                and isinstance(n.args[0], ast.Name) and n.args[0].id in params:
            out.add(n.args[0].id)
    return out


def callers_in_package(repo: Repo, kernels: Dict[str, Kernel]) -> Dict[str, Set[str]]:
    """kernel name -> set of functions (kernels or accessor methods) that reference it."""
    refs: Dict[str, Set[str]] = {k: set() for k in kernels}
    for dotted, m in repo.modules.items():
        if dotted == "hdc.algo.ops.whit":
            continue
        for top in m.tree.body:
            scopes = []
            if isinstance(top, ast.FunctionDef):
                scopes.append((top.name, top))
            elif isinstance(top, ast.ClassDef):
                for f in top.body:
                    if isinstance(f, ast.FunctionDef):
                        scopes.append((f"{top.name}.{f.name}", f))
            for nm, fn in scopes:
                for n in ast.walk(fn):
                    ref = None
                    if isinstance(n, ast.Name) and n.id in kernels and isinstance(n.ctx, ast.Load):
                        ref = n.id
                    elif isinstance(n, ast.Attribute) and isinstance(n.value, ast.Name) and n.value.id == "ops" and n.attr in kernels:
                        ref = n.attr
                    if ref and ref != nm:
                        refs[ref].add(nm)
    return refs


def rooted_kernels(repo: Repo, kernels: Dict[str, Kernel]) -> Set[str]:
    """Kernels that are public, or referenced by a public kernel / an accessor (transitively)."""
    refs = callers_in_package(repo, kernels)
    rooted = {k for k in kernels if not k.startswith("_")}
    rooted |= {k for k, who in refs.items() if any("." in w for w in who)}  # accessor methods
    changed = True
    while changed:
        changed = False
        for k, who in refs.items():
            if k not in rooted and any(w in rooted for w in who):
                rooted.add(k)
                changed = True
    return rooted


def divguard(rep: Report, repo: Repo, kernels: Dict[str, Kernel], names: Optional[Iterable[str]] = None,
             flavours=("scalar", "scale"), rule="R-DIVGUARD") -> List[Division]:
    rooted = rooted_kernels(repo, kernels)
    out: List[Division] = []
    counts: Dict[str, int] = {}
    for name in (names if names is not None else sorted(kernels)):
        if name not in kernels:
            raise AnalysisError(f"missing anchor: kernel {name}")
        k = kernels[name]
        if k.inlined:
            continue        # its divisions are judged in the callers, where the guards are
        da = DivAnalysis(k.node, k.file, array_params_of(k))
        for d in da.run():
            out.append(d)
            counts[d.klass] = counts.get(d.klass, 0) + 1
            desc = f"{d.op} by `{ast.unparse(d.den)}`"
            why = "; ".join(f"{f[0][:60]}: {f[1]} ({f[3][:120]})" for f in d.factors) or d.reason
            if d.flavour not in flavours or not d.obligation or name not in rooted:
                tag = "unrooted private helper" if name not in rooted else d.klass
                rep.note(f"division {k.file}:{d.line} {name}: {desc} [{d.flavour}/{tag}] {why[:200]}")
                continue
            role = ("robust scale is guarded" if d.flavour == "scale" else "scalar denominator cannot be zero")
            rep.ob(rule, k.file, name, f"{role}: {ast.unparse(d.den)[:50]}", d.ok,
                   ("" if d.ok else f"{desc}: ") + why, d.stmt, line=d.line, kind=d.klass, flavour=d.flavour)
    rep.analysed.setdefault("divisions_classified", {}).update(counts)
    return out


# ------------------------------------------------------------------------------- R-BIND


def r_bind(rep: Report, site, k: Kernel, afile="hdc/algo/accessors.py", rule="R-BIND"):
    """Arguments bind to the kernel's parameters in order and by name; core-dim ranks match the
    gufunc layout; number of output_core_dims == number of outputs; dask mode is `parallelized`
    without allow_rechunk (a chunked core dimension is then refused by xarray)."""
    from .sites import const_list
    where = site.where()
    args = [ast.unparse(a) for a in site.args]
    params = k.inputs
    n_pos = len(site.args)
    kw_names = list(site.kwargs)
    tag = f"{site.mode}:{k.name}"

    def ob(role, ok, detail="", stmt=None):
        rep.ob(rule, afile, where, f"{tag}: {role}", ok, detail, stmt if stmt is not None else f"{tag} {role}", line=site.line)

    # arity
    required = [p for i, p in enumerate(params) if i >= n_pos]
    defaults = len(k.node.args.defaults)
    n_required = len(params) - defaults if k.kind != "guvectorize" else len(params)
    ok_arity = n_pos <= len(params) and all(kw in params for kw in kw_names) and \
        (n_pos + len([kw for kw in kw_names if kw in params[n_pos:]]) >= n_required)
    ob("argument count matches the kernel's inputs", ok_arity,
       f"{n_pos} positional + kwargs {kw_names} for inputs {params}")
    # by-name position
    for i, a in enumerate(site.args):
        if isinstance(a, ast.Name) and a.id in params and params.index(a.id) != i:
            ob(f"argument `{a.id}` sits in the position of the parameter of the same name", False,
               f"`{a.id}` is passed as argument #{i} but the kernel's `{a.id}` is parameter #{params.index(a.id)} (inputs {params})",
               f"{tag} arg {i} = {a.id}")
    named = [(i, a.id) for i, a in enumerate(site.args) if isinstance(a, ast.Name) and a.id in params]
    ob("same-named arguments are in their parameter's position", all(params.index(n) == i for i, n in named),
       f"positional names {args} vs parameters {params}", f"{tag} positional order")
    for kw, val in site.kwargs.items():
        if isinstance(val, ast.Name) and val.id in params and val.id != kw and not (kw, val.id) in ALLOWED_KW_RENAMES:
            ob(f"keyword `{kw}` is not fed from the variable of another parameter", False,
               f"{kw}={val.id}", f"{tag} {kw}={val.id}")
    # provenance of the data argument: the accessor's object itself, through value-preserving steps only
    if site.args and site.fn is not None:
        bad_steps = data_provenance(site.fn, site.args[0])
        ob("the data argument is the accessor's object, not a converted copy", not bad_steps,
           "; ".join(f"`{b}`" for b in bad_steps[:3]) + " changes the cells before the kernel compares them with nodata / computes on them" if bad_steps else "",
           f"{tag} data argument provenance")
    if site.mode != "apply_ufunc":
        return
    icd = const_list(site.opts.get("input_core_dims"))
    ocd = const_list(site.opts.get("output_core_dims"))
    ok_icd = isinstance(icd, list) and len(icd) == n_pos
    ob("one input_core_dims entry per argument", ok_icd, f"input_core_dims = {icd} for {n_pos} arguments")
    if k.kind == "guvectorize" and ok_icd:
        ranks = [len(d) if isinstance(d, list) else None for d in icd]
        want = [len(d) for d in k.in_dims]
        ob("core-dimension ranks match the gufunc layout", ranks == want[:n_pos],
           f"input_core_dims ranks {ranks} vs layout `{k.layout}` ranks {want}")
        # arguments sharing a layout symbol must share the dimension name only if the accessor names them equal (informational)
        n_out = len(k.out_dims)
        if ocd is None:
            ob("output_core_dims default (one scalar output) matches the layout", n_out == 1 and k.out_dims[0] == (),
               f"layout `{k.layout}` has outputs {k.out_dims} but the site declares none")
        else:
            oranks = [len(d) if isinstance(d, list) else None for d in ocd]
            ob("number and ranks of output_core_dims match the layout", len(ocd) == n_out and oranks == [len(d) for d in k.out_dims],
               f"output_core_dims = {ocd} vs layout outputs {k.out_dims}")
    dask = site.opts.get("dask")
    ob("dask mode is 'parallelized'", isinstance(dask, ast.Constant) and dask.value == "parallelized",
       f"dask = {ast.unparse(dask) if dask is not None else None}")
    dgk = site.opts.get("dask_gufunc_kwargs")
    allow = dgk is not None and "allow_rechunk" in ast.unparse(dgk)
    ob("a chunked core dimension is refused (no allow_rechunk)", not allow and "allow_rechunk" not in site.opts,
       "allow_rechunk lets dask compute the kernel per chunk of the core dimension")


ALLOWED_KW_RENAMES = {("cal_start", "calstart_ix"), ("cal_stop", "calstop_ix"), ("out_dtype", "dtype")}


# ------------------------------------------------------------------------------- R-TOKEN


def r_token(rep: Report, repo: Repo, method: ast.FunctionDef, site, where: str, afile="hdc/algo/accessors.py"):
    """A user-supplied dask task name must be made unique by a token of *every* array the block function receives:
    two lazy results computed in one graph share task keys otherwise and one silently replaces the other."""
    name_kw = site.opts.get("name")
    if name_kw is None:
        return
    toks = [c for c in ast.walk(method) if isinstance(c, ast.Call) and ast.unparse(c.func).split(".")[-1] == "tokenize"]
    arrays = [ast.unparse(a) for a in site.args if ast.unparse(a).endswith(".data")]
    ok = False
    detail = "no tokenize(...) call feeds the task name"
    if toks:
        targs = {ast.unparse(a) for t in toks for a in t.args}
        missing = [a for a in arrays if a not in targs]
        ok = not missing
        detail = f"tokenize arguments {sorted(targs)}; arrays passed to the block function {arrays}; not covered: {missing}"
    rep.ob("R-TOKEN", afile, where, "the dask task name is tokenised over every array passed to the block function", ok, detail,
           toks[0] if toks else "dask_name", line=site.line)


# ------------------------------------------------------------------------------- R-NOEXIT


def no_early_exit(rep: Report, sc, file: str, fn: str, what: str, loops=None, allowed=()):
    """Loops that must visit every element have no break / continue / return other than the listed (kind, last-guard) pairs."""
    def inside(region, L):
        r = region
        while r is not None:
            if r is L:
                return True
            r = r.parent
        return False
    Ls = loops if loops is not None else [r for r in sc.regions if r.kind == "loop"]
    bad = []
    for e in sc.exits:
        if e.kind == "return" and e.region.kind == "line" and e.region.parent is None:
            continue
        if not any(inside(e.region, L) for L in Ls):
            continue
        key = (e.kind, e.guards[-1] if e.guards else "")
        if key in allowed:
            continue
        bad.append(e)
    rep.ob("R-NOEXIT", file, fn, f"{what}: every element is visited (no early exit from the loop)", not bad,
           f"`{norm_stmt(bad[0].stmt)}` under {list(bad[0].guards)[-1:]} leaves or skips part of the loop" if bad else "",
           bad[0].stmt if bad else f"{fn}: exits of {what}")


def input_writes(k: Kernel) -> List[ast.AST]:
    """Statements of kernel `k` that store into an input array (or a slice view / alias of one).

    A store is accepted when the name was re-bound to a fresh array (`y = np.where(...)`, `x = x.astype(...)`) on an
    earlier line: from there on the name no longer denotes the caller's buffer."""
    ins = set(k.inputs) & array_params_of(k)
    alias: Dict[str, str] = {}
    for st in ast.walk(k.node):
        if isinstance(st, ast.Assign) and isinstance(st.targets[0], ast.Name):
            v = st.value
            if isinstance(v, ast.Name) and v.id in ins:
                alias[st.targets[0].id] = v.id
            if isinstance(v, ast.Subscript) and isinstance(v.value, ast.Name) and v.value.id in ins:
                sl = v.slice
                parts = sl.elts if isinstance(sl, ast.Tuple) else [sl]
                if any(isinstance(p_, ast.Slice) for p_ in parts):
                    alias[st.targets[0].id] = v.value.id
    rebinds: Dict[str, int] = {}
    for st in ast.walk(k.node):
        if isinstance(st, ast.Assign) and isinstance(st.targets[0], ast.Name) and st.targets[0].id in ins and isinstance(st.value, ast.Call):
            rebinds[st.targets[0].id] = min(rebinds.get(st.targets[0].id, 10 ** 9), st.lineno)
    bad: List[ast.AST] = []
    for st in ast.walk(k.node):
        tg = []
        if isinstance(st, ast.Assign):
            tg = st.targets
        elif isinstance(st, ast.AugAssign):
            tg = [st.target]
        for t in tg:
            for tt in (t.elts if isinstance(t, ast.Tuple) else [t]):
                if isinstance(tt, ast.Subscript) and isinstance(tt.value, ast.Name) and (tt.value.id in ins or tt.value.id in alias) \
                        and not rebinds.get(tt.value.id, 10 ** 9) < st.lineno:
                    bad.append(st)
        if isinstance(st, ast.Call) and ast.unparse(st.func).split(".")[-1] == "round" and len(st.args) == 3 and isinstance(st.args[2], ast.Name) \
                and (st.args[2].id in ins or st.args[2].id in alias) and not rebinds.get(st.args[2].id, 10 ** 9) < st.lineno:
            bad.append(st)
    return bad


def nb_layout(rep: Report, kernels: Dict[str, Kernel], names: Optional[Iterable[str]] = None, rule: str = "NB-LAYOUT"):
    """No gufunc signature may declare a contiguous layout (`[::1]`): NumPy hands the inner loop strided views (a moved time axis,
    a column of a table, a reversed slice), and a kernel compiled for `::1` ignores the stride it is given and reads neighbouring memory."""
    n = 0
    for name in sorted(names if names is not None else kernels):
        k = kernels[name]
        if k.kind != "guvectorize":
            continue
        n += 1
        bad = [(si + 1, k.params[i], lay) for si, lays in enumerate(k.layouts) for i, lay in enumerate(lays) if lay != "A"]
        rep.ob(rule, k.file, name, "every array parameter of the gufunc is declared with arbitrary strides", not bad,
               "; ".join(f"signature #{si} declares `{pn}` {lay}-contiguous (`::1`): a strided view passed for it is indexed as if it were packed" for si, pn, lay in bad),
               f"{name}: declared array layouts", line=k.node.lineno)
    return n


def _truthy_uses(fn: ast.AST, names: Set[str]) -> List[ast.AST]:
    """Nodes of `fn` where one of `names` is used for its truth value (`if x`, `not x`, `x or y`, `x and y`, `a if x else b`, `bool(x)`)."""
    out: List[ast.AST] = []

    def is_tracked(e) -> bool:
        return isinstance(e, ast.Name) and e.id in names

    def scan_test(t):
        if is_tracked(t):
            out.append(t)
        elif isinstance(t, ast.UnaryOp) and isinstance(t.op, ast.Not):
            scan_test(t.operand)
        elif isinstance(t, ast.BoolOp):
            for v in t.values:
                scan_test(v)

    for n in ast.walk(fn):
        if isinstance(n, (ast.If, ast.While, ast.IfExp, ast.Assert)):
            scan_test(n.test)
        elif isinstance(n, ast.BoolOp):
            for v in n.values:
                if is_tracked(v) or (isinstance(v, ast.UnaryOp) and isinstance(v.op, ast.Not) and is_tracked(v.operand)):
                    out.append(v)
        elif isinstance(n, ast.UnaryOp) and isinstance(n.op, ast.Not) and is_tracked(n.operand):
            out.append(n)
        elif isinstance(n, ast.Call) and isinstance(n.func, ast.Name) and n.func.id == "bool" and n.args and is_tracked(n.args[0]):
            out.append(n)
        elif isinstance(n, ast.comprehension):
            for t in n.ifs:
                scan_test(t)
    seen, uniq = set(), []
    for o in out:
        if id(o) not in seen:
            seen.add(id(o))
            uniq.append(o)
    return uniq


def r_truthy(rep: Report, repo: Repo, cls: str, method: str, names: Iterable[str], why: str, afile="hdc/algo/accessors.py", module="hdc.algo.accessors"):
    """Values whose domain contains 0 (a nodata value, an axis label) must be tested with `is None`, never for truth.

    Follows one level of calls: `self.helper(x)` / a nested `helper(x)` with a tracked argument is scanned with the matching parameter tracked."""
    fn = repo.method(module, cls, method)
    names = set(names)
    where = f"{cls}.{method}"
    bad = [(where, u) for u in _truthy_uses(fn, names)]
    clsnode = repo.mod(module).tree   # helper methods may live in the class or one of its bases: search the module by method name
    nested = {n.name: n for n in ast.walk(fn) if isinstance(n, ast.FunctionDef) and n is not fn}
    n_calls = 0
    for c in ast.walk(fn):
        if not isinstance(c, ast.Call):
            continue
        callee = None
        if isinstance(c.func, ast.Attribute) and isinstance(c.func.value, ast.Name) and c.func.value.id == "self" and clsnode is not None:
            for st in ast.walk(clsnode):
                if isinstance(st, ast.FunctionDef) and st.name == c.func.attr:
                    callee, skip = st, 1
        elif isinstance(c.func, ast.Name) and c.func.id in nested:
            callee, skip = nested[c.func.id], 0
        if callee is None:
            continue
        params = [a.arg for a in callee.args.args][skip:]
        tracked = {params[i] for i, a in enumerate(c.args) if i < len(params) and isinstance(a, ast.Name) and a.id in names}
        tracked |= {k_.arg for k_ in c.keywords if k_.arg and isinstance(k_.value, ast.Name) and k_.value.id in names}
        if tracked:
            n_calls += 1
            bad += [(f"{where} -> {callee.name}", u) for u in _truthy_uses(callee, tracked)]
    # an explicit argument is replaced only when it is None
    params = {a.arg for a in fn.args.args + fn.args.kwonlyargs}
    par: Dict[int, ast.AST] = {}
    for p_ in ast.walk(fn):
        for ch in ast.iter_child_nodes(p_):
            par[id(ch)] = p_
    for nm in sorted(names & params):
        stores = [n for n in ast.walk(fn) if isinstance(n, ast.Name) and n.id == nm and isinstance(n.ctx, ast.Store)]
        for st in stores:
            ok = False
            cur, child = par.get(id(st)), st
            while cur is not None and cur is not fn:
                if isinstance(cur, ast.If):
                    t = ast.unparse(cur.test)
                    in_body = any(child is b for b in cur.body)
                    in_test = child is cur.test
                    if (in_body or in_test) and t in (f"{nm} is None", f"None is {nm}"):
                        ok = True
                    if any(child is b for b in cur.orelse) and t in (f"{nm} is not None",):
                        ok = True
                child, cur = cur, par.get(id(cur))
            stmt = st
            while not isinstance(stmt, ast.stmt):
                stmt = par[id(stmt)]
            rep.ob("R-TRUTHY", afile, where, f"the `{nm}` argument is replaced only when it is None", ok,
                   f"`{norm_stmt(stmt)[:120]}` (line {st.lineno}) overwrites an explicitly given {nm}", stmt, line=st.lineno)
    for w, u in bad:
        rep.ob("R-TRUTHY", afile, where, f"{'/'.join(sorted(names))} is tested with `is None`, never for truth", False,
               f"`{ast.unparse(u)}` in {w} (line {u.lineno}) uses the value's truthiness: {why}", u, line=u.lineno)
    if not bad:
        rep.ob("R-TRUTHY", afile, where, f"{'/'.join(sorted(names))} is tested with `is None`, never for truth", True,
               f"helpers followed: {n_calls}", f"{where}: truth-value uses of {sorted(names)}")


def canon_test(test: ast.AST) -> tuple:
    """(text, polarity): `a != b` -> (`a == b`, False), `x is not None` -> (`x is None`, False), `not t` -> (t, False); so the two ways of writing a
    two-way decision (condition / negated condition with swapped arms) give the same pair for the same arm."""
    if isinstance(test, ast.UnaryOp) and isinstance(test.op, ast.Not):
        t, pol = canon_test(test.operand)
        return t, not pol
    if isinstance(test, ast.Compare) and len(test.ops) == 1:
        op = test.ops[0]
        flip = {ast.NotEq: ast.Eq, ast.IsNot: ast.Is, ast.NotIn: ast.In}
        if type(op) in flip:
            pos = ast.Compare(left=test.left, ops=[flip[type(op)]()], comparators=test.comparators)
            return ast.unparse(pos), False
    return ast.unparse(test), True


def _ends_in_exit(body: List[ast.stmt]) -> bool:
    return bool(body) and isinstance(body[-1], (ast.Return, ast.Raise, ast.Continue, ast.Break))


def guard_chain(fn: ast.AST, node: ast.AST, canonical: bool = False) -> List[tuple]:
    """(test text, arm) of every If / loop / try that encloses `node` inside `fn`, outermost first.

    With canonical=True: tests are polarity-normalised (canon_test) and an earlier sibling `if c: ... return/raise/continue` (a guard clause)
    contributes (c, False) to everything after it in its block - the chain is then the same for `if c: A else: B` and `if not c: B; return` + A."""
    if canonical:
        return _guard_chain_canonical(fn, node)
    par: Dict[int, ast.AST] = {}
    for p_ in ast.walk(fn):
        for ch in ast.iter_child_nodes(p_):
            par[id(ch)] = p_
    chain = []
    child, cur = node, par.get(id(node))
    while cur is not None and cur is not fn:
        if isinstance(cur, ast.If):
            if any(child is b for b in cur.body):
                chain.append((ast.unparse(cur.test), True))
            elif any(child is b for b in cur.orelse):
                chain.append((ast.unparse(cur.test), False))
        elif isinstance(cur, (ast.For, ast.While)):
            if any(child is b for b in cur.body):
                chain.append((f"loop {ast.unparse(cur.target) if isinstance(cur, ast.For) else ast.unparse(cur.test)}", True))
        elif isinstance(cur, ast.Try):
            if any(child is b for b in cur.body):
                chain.append(("try", True))
            elif any(child is h for h in cur.handlers):
                chain.append(("except", True))
        child, cur = cur, par.get(id(cur))
    return list(reversed(chain))


def reaches_unconditionally(fn: ast.AST, stmt: ast.AST, uses: Iterable[ast.AST]) -> Optional[str]:
    """None when `stmt` executes before, and under no more conditions than, every node of `uses`; else a description of the gap."""
    cs = guard_chain(fn, stmt)
    for u in uses:
        cu = guard_chain(fn, u)
        if cs != cu[: len(cs)]:
            extra = [c for c in cs if c not in cu]
            return f"runs only under {extra} while line {getattr(u, 'lineno', '?')} does not depend on them"
        if getattr(stmt, "lineno", 0) >= getattr(u, "lineno", 0):
            return f"comes after its use at line {getattr(u, 'lineno', '?')}"
    return None


VALUE_PRESERVING_METHODS = {"chunk", "sortby", "transpose", "rechunk", "persist", "copy", "compute", "load"}


def data_provenance(fn: ast.AST, expr: ast.AST, _seen=None) -> List[str]:
    """Steps between `self._obj` and `expr` that are not value-preserving (flow-insensitive over every assignment to the names involved).

    Accepted: self._obj, X.data, X.chunk()/sortby()/transpose()..., X.where(X.notnull(), X.nodata) (NaN -> nodata substitution),
    X[...] plain slicing. Everything else (astype, fillna, arithmetic, np.asarray(..., dtype=)) is reported."""
    _seen = _seen if _seen is not None else set()
    txt = ast.unparse(expr)
    if txt == "self._obj":
        return []
    if isinstance(expr, ast.Name):
        if expr.id in _seen:
            return []
        _seen.add(expr.id)
        defs = [st.value for st in ast.walk(fn) if isinstance(st, ast.Assign) and any(isinstance(t, ast.Name) and t.id == expr.id for t in st.targets)]
        defs += [st.value for st in ast.walk(fn) if isinstance(st, ast.NamedExpr) and st.target.id == expr.id]
        if not defs:
            params = [a.arg for a in fn.args.args]
            return [] if expr.id in params else [f"{expr.id} (no definition found)"]
        out: List[str] = []
        for d in defs:
            out += data_provenance(fn, d, _seen)
        return out
    if isinstance(expr, ast.Attribute) and expr.attr in ("data", "values", "T"):
        return data_provenance(fn, expr.value, _seen)
    if isinstance(expr, ast.Subscript):
        return data_provenance(fn, expr.value, _seen)
    if isinstance(expr, ast.Call) and isinstance(expr.func, ast.Attribute):
        m = expr.func.attr
        if m in VALUE_PRESERVING_METHODS:
            return data_provenance(fn, expr.func.value, _seen)
        if m == "where" and len(expr.args) == 2:
            base = ast.unparse(expr.func.value)
            if ast.unparse(expr.args[0]) == f"{base}.notnull()" and ast.unparse(expr.args[1]) in (f"{base}.nodata", f"{base}.attrs['nodata']"):
                return data_provenance(fn, expr.func.value, _seen)
        return [txt[:100]]
    return [txt[:100]]


def flatten_return(fn: ast.FunctionDef) -> Optional[str]:
    """The returned expression of a straight-line method with every local replaced by its definition, in program order
    (`a = f(x); a = g(a); return a + h` -> `g(f(x)) + h`). None when the body is not straight-line assignments + one return.
    Temporaries introduced, removed, renamed or re-used by a refactoring do not change the result."""
    import copy
    env: Dict[str, ast.AST] = {}

    class Sub(ast.NodeTransformer):
        def visit_Name(self, node):
            if isinstance(node.ctx, ast.Load) and node.id in env:
                return copy.deepcopy(env[node.id])
            return node
    for st in fn.body:
        if isinstance(st, ast.Expr) and isinstance(st.value, ast.Constant):
            continue
        if isinstance(st, ast.If) and all(isinstance(x, ast.Raise) for x in st.body) and not st.orelse:
            continue        # validation preamble
        if isinstance(st, ast.Assign) and len(st.targets) == 1 and isinstance(st.targets[0], ast.Name):
            env[st.targets[0].id] = Sub().visit(copy.deepcopy(st.value))
            continue
        if isinstance(st, ast.Return) and st.value is not None:
            return ast.unparse(Sub().visit(copy.deepcopy(st.value)))
        return None
    return None


def _guard_chain_canonical(fn: ast.AST, node: ast.AST) -> List[tuple]:
    par: Dict[int, ast.AST] = {}
    for p_ in ast.walk(fn):
        for ch in ast.iter_child_nodes(p_):
            par[id(ch)] = p_
    chain: List[tuple] = []
    child, cur = node, par.get(id(node))
    while cur is not None:
        # earlier siblings of `child` in whichever statement list of `cur` holds it
        for fld in ("body", "orelse", "finalbody"):
            blk = getattr(cur, fld, None)
            if isinstance(blk, list) and any(child is b for b in blk):
                idx = [i for i, b in enumerate(blk) if child is b][0]
                sib = []
                for b in blk[:idx]:
                    if isinstance(b, ast.If) and _ends_in_exit(b.body) and not b.orelse:
                        t, pol = canon_test(b.test)
                        sib.append((t, not pol))
                    elif isinstance(b, ast.If) and b.orelse and _ends_in_exit(b.orelse) and not _ends_in_exit(b.body):
                        t, pol = canon_test(b.test)
                        sib.append((t, pol))
                chain = sib + chain if False else chain
                pending = sib
                break
        else:
            pending = []
        own = []
        if isinstance(cur, ast.If):
            t, pol = canon_test(cur.test)
            if any(child is b for b in cur.body):
                own = [(t, pol)]
            elif any(child is b for b in cur.orelse):
                own = [(t, not pol)]
        elif isinstance(cur, (ast.For, ast.While)) and any(child is b for b in cur.body):
            own = [(f"loop {ast.unparse(cur.target) if isinstance(cur, ast.For) else ast.unparse(cur.test)}", True)]
        elif isinstance(cur, ast.Try):
            own = [("try", True)] if any(child is b for b in cur.body) else [("except", True)] if any(child is h for h in cur.handlers) else []
        chain = own + pending + chain
        if cur is fn:
            break
        child, cur = cur, par.get(id(cur))
    # validation guard clauses that raise are not part of a dispatch decision
    return chain


def resolve_local(fn: ast.AST, expr: ast.AST, depth: int = 4) -> ast.AST:
    """`expr` with every local that has exactly one plain assignment in `fn` replaced by that assignment's value (recursively):
    a rule then sees the same expression whether or not the code names an intermediate value."""
    import copy
    defs: Dict[str, List[ast.AST]] = {}
    for st in ast.walk(fn):
        if isinstance(st, ast.Assign) and len(st.targets) == 1 and isinstance(st.targets[0], ast.Name):
            defs.setdefault(st.targets[0].id, []).append(st.value)
        elif isinstance(st, (ast.AugAssign, ast.For, ast.NamedExpr, ast.With)):
            for n in ast.walk(st.target if hasattr(st, "target") else st):
                if isinstance(n, ast.Name) and isinstance(n.ctx, ast.Store):
                    defs.setdefault(n.id, []).extend([None, None])
    params = {a.arg for a in getattr(fn, "args", ast.arguments(args=[], posonlyargs=[], kwonlyargs=[], kw_defaults=[], defaults=[])).args}

    class Sub(ast.NodeTransformer):
        def visit_Name(self, node):
            if isinstance(node.ctx, ast.Load) and node.id not in params and len(defs.get(node.id, [])) == 1 and defs[node.id][0] is not None:
                return copy.deepcopy(defs[node.id][0])
            return node
    e = copy.deepcopy(expr)
    for _ in range(depth):
        before = ast.dump(e)
        e = Sub().visit(e)
        if ast.dump(e) == before:
            break
    return e


def prange_rule(rep: Report, kernels: Dict[str, Kernel], rule: str = "R-PRANGE") -> int:
    """Iterations of a prange loop are independent: writes go to arrays allocated in the body or through the prange index, no outer scalar is
    assigned, scratch arrays are allocated per iteration. (The sequential source and the compiled parallel kernel agree only then.)"""
    pk = [k for k in kernels.values() if k.parallel]
    for k in pk:
        pr = [n for n in ast.walk(k.node) if isinstance(n, ast.For) and isinstance(n.iter, ast.Call) and ast.unparse(n.iter.func).endswith("prange")]
        if len(pr) != 1:
            raise AnalysisError(f"unsupported construct: {k.name}: expected one prange loop")
        loop = pr[0]
        pv = loop.target.id
        allocated_in = {st.targets[0].id for st in ast.walk(loop) if isinstance(st, ast.Assign) and isinstance(st.targets[0], ast.Name) and isinstance(st.value, ast.Call)
                        and ast.unparse(st.value.func).split(".")[-1] in ("zeros", "ones", "empty", "full", "copy", "zeros_like")}
        problems = []
        for st in ast.walk(loop):
            tg = []
            if isinstance(st, ast.Assign):
                tg = st.targets
            elif isinstance(st, ast.AugAssign):
                tg = [st.target]
            for t in tg:
                for tt in (t.elts if isinstance(t, ast.Tuple) else [t]):
                    if isinstance(tt, ast.Subscript) and isinstance(tt.value, ast.Name) and tt.value.id not in allocated_in:
                        idx = {x.id for x in ast.walk(tt.slice) if isinstance(x, ast.Name)}
                        if pv not in idx:
                            problems.append(f"`{norm_stmt(st)}` writes shared array `{tt.value.id}` without the prange index `{pv}`")
            if isinstance(st, ast.Call) and ast.unparse(st.func).split(".")[-1] == "round" and len(st.args) == 3:
                o = st.args[2]
                if isinstance(o, ast.Subscript) and isinstance(o.value, ast.Name) and o.value.id not in allocated_in:
                    idx = {x.id for x in ast.walk(o.slice) if isinstance(x, ast.Name)}
                    if pv not in idx:
                        problems.append(f"`{norm_stmt(st)}` rounds into shared array `{o.value.id}` without the prange index")
                elif isinstance(o, ast.Name) and o.id not in allocated_in:
                    problems.append(f"`{norm_stmt(st)}` rounds into shared array `{o.id}`")
        before = set()
        for st in k.node.body:
            if st is loop:
                break
            before |= {n.id for n in ast.walk(st) if isinstance(n, ast.Name) and isinstance(n.ctx, ast.Store)}
        before |= {a.arg for a in k.node.args.args}
        assigned_in = {n.id for n in ast.walk(loop) if isinstance(n, ast.Name) and isinstance(n.ctx, ast.Store)}
        shared_scalars = sorted((before & assigned_in) - allocated_in)
        for sname in shared_scalars:
            problems.append(f"scalar `{sname}` defined before the prange loop is assigned inside it (race / reduction)")
        rep.ob(rule, k.file, k.name, "prange iterations are independent: writes go to body-allocated arrays or through the prange index; no outer scalar is assigned",
               not problems, "; ".join(problems[:3]), loop)
        rep.ob(rule, k.file, k.name, "per-thread scratch arrays are allocated inside the prange body", len(allocated_in) >= 1,
               f"arrays allocated in the body: {sorted(allocated_in)}", f"{k.name}: scratch arrays in the prange body")

    return len(pk)


def r_stateless(rep: Report, repo: Repo, methods=None, afile="hdc/algo/accessors.py", module="hdc.algo.accessors"):
    """xarray builds an accessor once per object and caches it: whatever an accessor stores besides the object itself (a nodata value, an index, a
    lookup table) is a snapshot that goes stale when the user edits attrs / coordinates in place. The methods a property goes through (`methods`:
    [(class, method)], helper methods followed) therefore read no accessor state other than `_obj`; the HDC facade's sub-accessors are exempt."""
    tree = repo.mod(module).tree
    classes = {c.name: c for c in tree.body if isinstance(c, ast.ClassDef)}
    facade_ok = {"algo", "anom", "iteragg", "rolling", "whit", "zonal"}
    stored: Dict[str, ast.AST] = {}
    for c in classes.values():
        for m in c.body:
            if isinstance(m, ast.FunctionDef):
                for n in ast.walk(m):
                    tg = n.targets if isinstance(n, ast.Assign) else [n.target] if isinstance(n, (ast.AugAssign, ast.AnnAssign)) else []
                    for t in tg:
                        for tt in ast.walk(t):
                            if isinstance(tt, ast.Attribute) and isinstance(tt.value, ast.Name) and tt.value.id == "self" and tt.attr != "_obj" \
                                    and not (c.name == "HDC" and tt.attr in facade_ok):
                                stored.setdefault(tt.attr, n)
            elif isinstance(m, ast.Assign) and isinstance(m.value, (ast.Dict, ast.List, ast.Set)):
                for t in m.targets:
                    if isinstance(t, ast.Name):
                        stored.setdefault(t.id, m)      # class-level mutable container
            if isinstance(m, ast.FunctionDef):
                # memoising decorators store the first result on the instance / in a module-level table keyed by the instance
                for d in m.decorator_list:
                    dn = ast.unparse(d.func if isinstance(d, ast.Call) else d).split(".")[-1]
                    if dn in ("cached_property", "lru_cache", "cache", "memoize", "cachedmethod"):
                        stored.setdefault(m.name, m)
    all_methods = {(c.name, m.name): m for c in classes.values() for m in c.body if isinstance(m, ast.FunctionDef)}
    by_name: Dict[str, List[ast.FunctionDef]] = {}
    for (cn, mn), m in all_methods.items():
        by_name.setdefault(mn, []).append(m)
    todo = list(methods) if methods is not None else list(all_methods)
    for cn, mn in todo:
        m = all_methods.get((cn, mn))
        if m is None:
            continue
        seen, work, reads = set(), [m], []
        while work:
            f = work.pop()
            if id(f) in seen:
                continue
            seen.add(id(f))
            for n in ast.walk(f):
                if isinstance(n, ast.Attribute) and isinstance(n.value, ast.Name) and n.value.id == "self" and isinstance(n.ctx, ast.Load):
                    if n.attr in stored:
                        reads.append((f.name, n))
                    elif n.attr in by_name and n.attr not in ("__init__",):
                        work.extend(by_name[n.attr])
        where = f"{cn}.{mn}"
        if reads:
            fnm, n = reads[0]
            st = stored[n.attr]
            rep.ob("R-STATELESS", afile, where, "the method reads the wrapped object at call time, never a value stored on the accessor", False,
                   f"`self.{n.attr}` (read in {fnm}, line {n.lineno}) is a snapshot taken by `{(norm_stmt(st) if not isinstance(st, ast.FunctionDef) else '@' + ast.unparse(st.decorator_list[0]) + ' def ' + st.name)[:90]}` (line {st.lineno}): xarray caches the accessor per object, "
                   f"so an in-place change of attrs / coordinates made after the first access is not seen", n, line=n.lineno)
        else:
            rep.ob("R-STATELESS", afile, where, "the method reads the wrapped object at call time, never a value stored on the accessor", True,
                   f"accessor state stored besides `_obj`: {sorted(stored)}", f"{where}: reads of accessor state")


def ws2d_straight(rep: Report, repo: Repo, rule: str = "R-STRAIGHT", why: str = "") -> bool:
    """The shared solver is one straight-line algorithm (no branch, early exit or data-dependent special case): every property that takes `ws2d` to BE
    the penalised least-squares solve for all its inputs depends on it."""
    fn0 = repo.func("hdc.algo.ops.ws2d", "ws2d")
    pre = [n for n in ast.walk(fn0) if isinstance(n, (ast.If, ast.While, ast.Try, ast.IfExp, ast.With, ast.Break, ast.Continue, ast.Raise))]
    rets = [n for n in ast.walk(fn0) if isinstance(n, ast.Return)]
    ok = not pre and len(rets) == 1
    bad = pre[0] if pre else (rets[0] if rets else fn0)
    rep.ob(rule, "hdc/algo/ops/ws2d.py", "ws2d", "the solver every smoother calls has no data- or size-dependent special case", ok,
           "" if ok else f"`{norm_stmt(bad)}` special-cases some inputs ({len(rets)} return statement(s)): for them the result is not the solution of (W + lambda D'D) z = W y{why}",
           bad if not ok else "ws2d: control flow")
    return ok


def whits_lambda(rep: Report, repo: Repo, rule: str = "R-FORMULA"):
    """`whits` hands the solver lambda = 10**sg (labelled arithmetic on the sgrid, aligned by dimension name) or the scalar s."""
    from .poly import Normaliser
    m_ = repo.method("hdc.algo.accessors", "WhittakerSmoother", "whits")
    lam = [s_ for s_ in ast.walk(m_) if isinstance(s_, ast.Assign) and ast.unparse(s_.targets[0]) == "lmda"]
    okl = False
    if len(lam) == 1 and isinstance(lam[0].value, ast.IfExp):
        e = lam[0].value
        t = norm_stmt(e.test)
        a, b_ = Normaliser().norm(e.body).key(), Normaliser().norm(e.orelse).key()
        okl = (t == "sg is not None" and a == "pow[10;sg]" and b_ == "s") or (t == "sg is None" and a == "s" and b_ == "pow[10;sg]")
    rep.ob(rule, "hdc/algo/accessors.py", "WhittakerSmoother.whits", "lambda = 10**sg when an sgrid is given, else s", okl,
           f"{norm_stmt(lam[0]) if lam else None}: a conversion of the sgrid (np.asarray, .values, .data) drops its dimension labels, and the per-pixel lambda is then "
           f"matched to the pixels by position", lam[0] if lam else "lmda = ...")


def position_helpers(repo: Repo, fn: ast.FunctionDef, modules: Iterable[str] = ("hdc.algo.accessors", "hdc.algo.utils")):
    """Functions (nested closures of `fn`, module-level functions, methods) that return an axis position obtained from ``Index.get_indexer``,
    directly or through one another (fixpoint). Returns (names, name -> def, callee_name, is_pos_expr)."""
    funcs: Dict[str, ast.FunctionDef] = {}
    for m in modules:
        try:
            mod = repo.mod(m)
        except AnalysisError:
            continue
        for st in ast.walk(mod.tree):
            if isinstance(st, ast.FunctionDef):
                funcs.setdefault(st.name, st)
    for n in ast.walk(fn):
        if isinstance(n, ast.FunctionDef) and n is not fn:
            funcs[n.name] = n

    def callee_name(c: ast.Call) -> Optional[str]:
        if isinstance(c.func, ast.Name):
            return c.func.id
        if isinstance(c.func, ast.Attribute) and isinstance(c.func.value, ast.Name) and c.func.value.id in ("self", "cls"):
            return c.func.attr
        return None

    possrc: Set[str] = set()

    def is_pos_expr(e: ast.AST) -> bool:
        for c in ast.walk(e):
            if isinstance(c, ast.Call):
                if isinstance(c.func, ast.Attribute) and c.func.attr == "get_indexer":
                    return True
                if callee_name(c) in possrc:
                    return True
        return False

    changed = True
    while changed:
        changed = False
        for name, f in funcs.items():
            if name in possrc or f is fn:
                continue
            rets = [r for r in ast.walk(f) if isinstance(r, ast.Return) and r.value is not None
                    and not (isinstance(r.value, ast.Constant) and r.value.value is None)]
            if not rets:
                continue
            local_pos = {t.id for st in ast.walk(f) if isinstance(st, ast.Assign) and is_pos_expr(st.value)
                         for tt in st.targets for t in ast.walk(tt) if isinstance(t, ast.Name)}
            if any(is_pos_expr(r.value) or any(isinstance(n, ast.Name) and n.id in local_pos for n in ast.walk(r.value)) for r in rets):
                possrc.add(name)
                changed = True
    return possrc, funcs, callee_name, is_pos_expr


def r_position_truthy(rep: Report, repo: Repo, fn: ast.FunctionDef, where: str, afile: str = "hdc/algo/accessors.py",
                      modules: Iterable[str] = ("hdc.algo.accessors", "hdc.algo.utils"), rule: str = "R-TRUTHY") -> int:
    """An axis position - the result of ``Index.get_indexer``, taken directly or through helpers (nested closures, module-level
    functions, methods) - has 0 in its domain: the first step of the axis.  ``pos or default`` / ``if not pos`` therefore confuses
    "the label is the first step" with "no label given".  The only harmless spelling is ``pos or 0`` (None -> 0, 0 -> 0).
    Returns the number of position-valued expressions examined."""
    possrc, funcs, callee_name, is_pos_expr = position_helpers(repo, fn, modules)
    scopes = [fn] + [n for n in ast.walk(fn) if isinstance(n, ast.FunctionDef) and n is not fn]
    posnames: Set[str] = set()
    for st in ast.walk(fn):
        if isinstance(st, ast.Assign) and is_pos_expr(st.value) and not isinstance(st.value, ast.BoolOp):
            for tt in st.targets:
                for t in ast.walk(tt):
                    if isinstance(t, ast.Name):
                        posnames.add(t.id)

    def is_pos_operand(v: ast.AST) -> bool:
        if isinstance(v, ast.UnaryOp) and isinstance(v.op, ast.Not):
            return is_pos_operand(v.operand)
        if isinstance(v, ast.Name):
            return v.id in posnames
        if isinstance(v, ast.Call):
            return (isinstance(v.func, ast.Attribute) and v.func.attr == "get_indexer") or callee_name(v) in possrc
        return False

    bad: List[ast.AST] = []
    examined = len(posnames)
    for sc in scopes[:1]:
        for n in ast.walk(sc):
            if isinstance(n, ast.BoolOp):
                vals = n.values
                for i, v in enumerate(vals):
                    if not is_pos_operand(v):
                        continue
                    examined += 1
                    harmless = (isinstance(n.op, ast.Or) and len(vals) == 2 and i == 0 and isinstance(vals[1], ast.Constant)
                                and not isinstance(vals[1].value, bool) and vals[1].value == 0 and not isinstance(v, ast.UnaryOp))
                    if not harmless:
                        bad.append(n)
            elif isinstance(n, (ast.If, ast.While, ast.IfExp, ast.Assert)):
                t = n.test
                if is_pos_operand(t):
                    examined += 1
                    bad.append(t)
            elif isinstance(n, ast.UnaryOp) and isinstance(n.op, ast.Not) and is_pos_operand(n.operand):
                bad.append(n)
    seen: Set[int] = set()
    for b in bad:
        if id(b) in seen:
            continue
        seen.add(id(b))
        rep.ob(rule, afile, where, "an axis position is never tested for truth (position 0 is the first step)", False,
               f"`{ast.unparse(b)[:140]}` (line {getattr(b, 'lineno', 0)}) uses the truth value of a position obtained from Index.get_indexer"
               f"{' through ' + '/'.join(sorted(possrc)) if possrc else ''}: a label that resolves to the first step of the axis (position 0) is "
               f"treated as 'not given' and replaced by the default", b, line=getattr(b, "lineno", 0))
    if not seen:
        rep.ob(rule, afile, where, "an axis position is never tested for truth (position 0 is the first step)", True,
               f"position-valued names {sorted(posnames)}, position-returning helpers {sorted(possrc)}", f"{where}: truth-value uses of axis positions")
    return examined

"""Shared rule implementations (DESIGN.md section 3)."""
from __future__ import annotations

import ast
from typing import Dict, Iterable, List, Optional, Set

from .core import AnalysisError, Report, Repo, norm_stmt
from .divs import DivAnalysis, Division
from .kernels import Kernel


def array_params_of(k: Kernel) -> Set[str]:
    """Parameters that hold arrays: declared ndim > 0, or subscripted / .shape / iterated in the body."""
    out: Set[str] = set()
    if k.kind == "guvectorize" and k.sigs:
        for i, p in enumerate(k.params):
            if any(sig[i][1] > 0 for sig in k.sigs):
                out.add(p)
        return out
    params = set(k.params)
    for n in ast.walk(k.node):
        if isinstance(n, ast.Subscript) and isinstance(n.value, ast.Name) and n.value.id in params:
            out.add(n.value.id)
        elif isinstance(n, ast.Attribute) and isinstance(n.value, ast.Name) and n.value.id in params and n.attr in (
                "shape", "size", "ndim", "dtype", "sum", "copy", "flatten", "any"):
            out.add(n.value.id)
        elif isinstance(n, ast.For) and isinstance(n.iter, ast.Name) and n.iter.id in params:
            out.add(n.iter.id)
        elif isinstance(n, ast.Call) and ast.unparse(n.func) in ("len", "np.unique", "np.nanmedian", "np.median") and n.args \
                and isinstance(n.args[0], ast.Name) and n.args[0].id in params:
            out.add(n.args[0].id)
    return out


def callers_in_package(repo: Repo, kernels: Dict[str, Kernel]) -> Dict[str, Set[str]]:
    """kernel name -> set of functions (kernels or accessor methods) that reference it."""
    refs: Dict[str, Set[str]] = {k: set() for k in kernels}
    for dotted, m in repo.modules.items():
        if dotted == "hdc.algo.ops.whit":
            continue
        for top in m.tree.body:
            scopes = []
            if isinstance(top, ast.FunctionDef):
                scopes.append((top.name, top))
            elif isinstance(top, ast.ClassDef):
                for f in top.body:
                    if isinstance(f, ast.FunctionDef):
                        scopes.append((f"{top.name}.{f.name}", f))
            for nm, fn in scopes:
                for n in ast.walk(fn):
                    ref = None
                    if isinstance(n, ast.Name) and n.id in kernels and isinstance(n.ctx, ast.Load):
                        ref = n.id
                    elif isinstance(n, ast.Attribute) and isinstance(n.value, ast.Name) and n.value.id == "ops" and n.attr in kernels:
                        ref = n.attr
                    if ref and ref != nm:
                        refs[ref].add(nm)
    return refs


def rooted_kernels(repo: Repo, kernels: Dict[str, Kernel]) -> Set[str]:
    """Kernels that are public, or referenced by a public kernel / an accessor (transitively)."""
    refs = callers_in_package(repo, kernels)
    rooted = {k for k in kernels if not k.startswith("_")}
    rooted |= {k for k, who in refs.items() if any("." in w for w in who)}  # accessor methods
    changed = True
    while changed:
        changed = False
        for k, who in refs.items():
            if k not in rooted and any(w in rooted for w in who):
                rooted.add(k)
                changed = True
    return rooted


def divguard(rep: Report, repo: Repo, kernels: Dict[str, Kernel], names: Optional[Iterable[str]] = None,
             flavours=("scalar", "scale"), rule="R-DIVGUARD") -> List[Division]:
    rooted = rooted_kernels(repo, kernels)
    out: List[Division] = []
    counts: Dict[str, int] = {}
    for name in (names if names is not None else sorted(kernels)):
        if name not in kernels:
            raise AnalysisError(f"missing anchor: kernel {name}")
        k = kernels[name]
        da = DivAnalysis(k.node, k.file, array_params_of(k))
        for d in da.run():
            out.append(d)
            counts[d.klass] = counts.get(d.klass, 0) + 1
            desc = f"{d.op} by `{ast.unparse(d.den)}`"
            why = "; ".join(f"{f[0][:60]}: {f[1]} ({f[3][:120]})" for f in d.factors) or d.reason
            if d.flavour not in flavours or not d.obligation or name not in rooted:
                tag = "unrooted private helper" if name not in rooted else d.klass
                rep.note(f"division {k.file}:{d.line} {name}: {desc} [{d.flavour}/{tag}] {why[:200]}")
                continue
            role = ("robust scale is guarded" if d.flavour == "scale" else "scalar denominator cannot be zero")
            rep.ob(rule, k.file, name, f"{role}: {ast.unparse(d.den)[:50]}", d.ok,
                   ("" if d.ok else f"{desc}: ") + why, d.stmt, line=d.line, kind=d.klass, flavour=d.flavour)
    rep.analysed.setdefault("divisions_classified", {}).update(counts)
    return out


# ------------------------------------------------------------------------------- R-BIND


def r_bind(rep: Report, site, k: Kernel, afile="hdc/algo/accessors.py", rule="R-BIND"):
    """Arguments bind to the kernel's parameters in order and by name; core-dim ranks match the
    gufunc layout; number of output_core_dims == number of outputs; dask mode is `parallelized`
    without allow_rechunk (a chunked core dimension is then refused by xarray)."""
    from .sites import const_list
    where = site.where()
    args = [ast.unparse(a) for a in site.args]
    params = k.inputs
    n_pos = len(site.args)
    kw_names = list(site.kwargs)
    tag = f"{site.mode}:{k.name}"

    def ob(role, ok, detail="", stmt=None):
        rep.ob(rule, afile, where, f"{tag}: {role}", ok, detail, stmt if stmt is not None else f"{tag} {role}", line=site.line)

    # arity
    required = [p for i, p in enumerate(params) if i >= n_pos]
    defaults = len(k.node.args.defaults)
    n_required = len(params) - defaults if k.kind != "guvectorize" else len(params)
    ok_arity = n_pos <= len(params) and all(kw in params for kw in kw_names) and \
        (n_pos + len([kw for kw in kw_names if kw in params[n_pos:]]) >= n_required)
    ob("argument count matches the kernel's inputs", ok_arity,
       f"{n_pos} positional + kwargs {kw_names} for inputs {params}")
    # by-name position
    for i, a in enumerate(site.args):
        if isinstance(a, ast.Name) and a.id in params and params.index(a.id) != i:
            ob(f"argument `{a.id}` sits in the position of the parameter of the same name", False,
               f"`{a.id}` is passed as argument #{i} but the kernel's `{a.id}` is parameter #{params.index(a.id)} (inputs {params})",
               f"{tag} arg {i} = {a.id}")
    named = [(i, a.id) for i, a in enumerate(site.args) if isinstance(a, ast.Name) and a.id in params]
    ob("same-named arguments are in their parameter's position", all(params.index(n) == i for i, n in named),
       f"positional names {args} vs parameters {params}", f"{tag} positional order")
    for kw, val in site.kwargs.items():
        if isinstance(val, ast.Name) and val.id in params and val.id != kw and not (kw, val.id) in ALLOWED_KW_RENAMES:
            ob(f"keyword `{kw}` is not fed from the variable of another parameter", False,
               f"{kw}={val.id}", f"{tag} {kw}={val.id}")
    if site.mode != "apply_ufunc":
        return
    icd = const_list(site.opts.get("input_core_dims"))
    ocd = const_list(site.opts.get("output_core_dims"))
    ok_icd = isinstance(icd, list) and len(icd) == n_pos
    ob("one input_core_dims entry per argument", ok_icd, f"input_core_dims = {icd} for {n_pos} arguments")
    if k.kind == "guvectorize" and ok_icd:
        ranks = [len(d) if isinstance(d, list) else None for d in icd]
        want = [len(d) for d in k.in_dims]
        ob("core-dimension ranks match the gufunc layout", ranks == want[:n_pos],
           f"input_core_dims ranks {ranks} vs layout `{k.layout}` ranks {want}")
        # arguments sharing a layout symbol must share the dimension name only if the accessor names them equal (informational)
        n_out = len(k.out_dims)
        if ocd is None:
            ob("output_core_dims default (one scalar output) matches the layout", n_out == 1 and k.out_dims[0] == (),
               f"layout `{k.layout}` has outputs {k.out_dims} but the site declares none")
        else:
            oranks = [len(d) if isinstance(d, list) else None for d in ocd]
            ob("number and ranks of output_core_dims match the layout", len(ocd) == n_out and oranks == [len(d) for d in k.out_dims],
               f"output_core_dims = {ocd} vs layout outputs {k.out_dims}")
    dask = site.opts.get("dask")
    ob("dask mode is 'parallelized'", isinstance(dask, ast.Constant) and dask.value == "parallelized",
       f"dask = {ast.unparse(dask) if dask is not None else None}")
    dgk = site.opts.get("dask_gufunc_kwargs")
    allow = dgk is not None and "allow_rechunk" in ast.unparse(dgk)
    ob("a chunked core dimension is refused (no allow_rechunk)", not allow and "allow_rechunk" not in site.opts,
       "allow_rechunk lets dask compute the kernel per chunk of the core dimension")


ALLOWED_KW_RENAMES = {("cal_start", "calstart_ix"), ("cal_stop", "calstop_ix"), ("out_dtype", "dtype")}


# ------------------------------------------------------------------------------- R-TOKEN


def r_token(rep: Report, repo: Repo, method: ast.FunctionDef, site, where: str, afile="hdc/algo/accessors.py"):
    """A user-supplied dask task name must be made unique by a token of *every* array the block function receives:
    two lazy results computed in one graph share task keys otherwise and one silently replaces the other."""
    name_kw = site.opts.get("name")
    if name_kw is None:
        return
    toks = [c for c in ast.walk(method) if isinstance(c, ast.Call) and ast.unparse(c.func).split(".")[-1] == "tokenize"]
    arrays = [ast.unparse(a) for a in site.args if ast.unparse(a).endswith(".data")]
    ok = False
    detail = "no tokenize(...) call feeds the task name"
    if toks:
        targs = {ast.unparse(a) for t in toks for a in t.args}
        missing = [a for a in arrays if a not in targs]
        ok = not missing
        detail = f"tokenize arguments {sorted(targs)}; arrays passed to the block function {arrays}; not covered: {missing}"
    rep.ob("R-TOKEN", afile, where, "the dask task name is tokenised over every array passed to the block function", ok, detail,
           toks[0] if toks else "dask_name", line=site.line)


# ------------------------------------------------------------------------------- R-NOEXIT


def no_early_exit(rep: Report, sc, file: str, fn: str, what: str, loops=None, allowed=()):
    """Loops that must visit every element have no break / continue / return other than the listed (kind, last-guard) pairs."""
    def inside(region, L):
        r = region
        while r is not None:
            if r is L:
                return True
            r = r.parent
        return False
    Ls = loops if loops is not None else [r for r in sc.regions if r.kind == "loop"]
    bad = []
    for e in sc.exits:
        if e.kind == "return" and e.region.kind == "line" and e.region.parent is None:
            continue
        if not any(inside(e.region, L) for L in Ls):
            continue
        key = (e.kind, e.guards[-1] if e.guards else "")
        if key in allowed:
            continue
        bad.append(e)
    rep.ob("R-NOEXIT", file, fn, f"{what}: every element is visited (no early exit from the loop)", not bad,
           f"`{norm_stmt(bad[0].stmt)}` under {list(bad[0].guards)[-1:]} leaves or skips part of the loop" if bad else "",
           bad[0].stmt if bad else f"{fn}: exits of {what}")


def input_writes(k: Kernel) -> List[ast.AST]:
    """Statements of kernel `k` that store into an input array (or a slice view / alias of one).

    A store is accepted when the name was re-bound to a fresh array (`y = np.where(...)`, `x = x.astype(...)`) on an
    earlier line: from there on the name no longer denotes the caller's buffer."""
    ins = set(k.inputs) & array_params_of(k)
    alias: Dict[str, str] = {}
    for st in ast.walk(k.node):
        if isinstance(st, ast.Assign) and isinstance(st.targets[0], ast.Name):
            v = st.value
            if isinstance(v, ast.Name) and v.id in ins:
                alias[st.targets[0].id] = v.id
            if isinstance(v, ast.Subscript) and isinstance(v.value, ast.Name) and v.value.id in ins:
                sl = v.slice
                parts = sl.elts if isinstance(sl, ast.Tuple) else [sl]
                if any(isinstance(p_, ast.Slice) for p_ in parts):
                    alias[st.targets[0].id] = v.value.id
    rebinds: Dict[str, int] = {}
    for st in ast.walk(k.node):
        if isinstance(st, ast.Assign) and isinstance(st.targets[0], ast.Name) and st.targets[0].id in ins and isinstance(st.value, ast.Call):
            rebinds[st.targets[0].id] = min(rebinds.get(st.targets[0].id, 10 ** 9), st.lineno)
    bad: List[ast.AST] = []
    for st in ast.walk(k.node):
        tg = []
        if isinstance(st, ast.Assign):
            tg = st.targets
        elif isinstance(st, ast.AugAssign):
            tg = [st.target]
        for t in tg:
            for tt in (t.elts if isinstance(t, ast.Tuple) else [t]):
                if isinstance(tt, ast.Subscript) and isinstance(tt.value, ast.Name) and (tt.value.id in ins or tt.value.id in alias) \
                        and not rebinds.get(tt.value.id, 10 ** 9) < st.lineno:
                    bad.append(st)
        if isinstance(st, ast.Call) and ast.unparse(st.func).split(".")[-1] == "round" and len(st.args) == 3 and isinstance(st.args[2], ast.Name) \
                and (st.args[2].id in ins or st.args[2].id in alias) and not rebinds.get(st.args[2].id, 10 ** 9) < st.lineno:
            bad.append(st)
    return bad

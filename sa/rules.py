"""Shared rule implementations (DESIGN.md section 3)."""
from __future__ import annotations

import ast
from typing import Dict, Iterable, List, Optional, Set

from .core import AnalysisError, Report, Repo, norm_stmt
from .divs import DivAnalysis, Division
from .kernels import Kernel


def array_params_of(k: Kernel) -> Set[str]:
    """Parameters that hold arrays: declared ndim > 0, or subscripted / .shape / iterated in the body."""
    out: Set[str] = set()
    if k.kind == "guvectorize" and k.sigs:
        for i, p in enumerate(k.params):
            if any(sig[i][1] > 0 for sig in k.sigs):
                out.add(p)
        return out
    params = set(k.params)
    for n in ast.walk(k.node):
        if isinstance(n, ast.Subscript) and isinstance(n.value, ast.Name) and n.value.id in params:
            out.add(n.value.id)
        elif isinstance(n, ast.Attribute) and isinstance(n.value, ast.Name) and n.value.id in params and n.attr in (
                "shape", "size", "ndim", "dtype", "sum", "copy", "flatten", "any"):
            out.add(n.value.id)
        elif isinstance(n, ast.For) and isinstance(n.iter, ast.Name) and n.iter.id in params:
            out.add(n.iter.id)
        elif isinstance(n, ast.Call) and ast.unparse(n.func) in ("len", "np.unique", "np.nanmedian", "np.median") and n.args \
                and isinstance(n.args[0], ast.Name) and n.args[0].id in params:
            out.add(n.args[0].id)
    return out


def callers_in_package(repo: Repo, kernels: Dict[str, Kernel]) -> Dict[str, Set[str]]:
    """kernel name -> set of functions (kernels or accessor methods) that reference it."""
    refs: Dict[str, Set[str]] = {k: set() for k in kernels}
    for dotted, m in repo.modules.items():
        if dotted == "hdc.algo.ops.whit":
            continue
        for top in m.tree.body:
            scopes = []
            if isinstance(top, ast.FunctionDef):
                scopes.append((top.name, top))
            elif isinstance(top, ast.ClassDef):
                for f in top.body:
                    if isinstance(f, ast.FunctionDef):
                        scopes.append((f"{top.name}.{f.name}", f))
            for nm, fn in scopes:
                for n in ast.walk(fn):
                    ref = None
                    if isinstance(n, ast.Name) and n.id in kernels and isinstance(n.ctx, ast.Load):
                        ref = n.id
                    elif isinstance(n, ast.Attribute) and isinstance(n.value, ast.Name) and n.value.id == "ops" and n.attr in kernels:
                        ref = n.attr
                    if ref and ref != nm:
                        refs[ref].add(nm)
    return refs


def rooted_kernels(repo: Repo, kernels: Dict[str, Kernel]) -> Set[str]:
    """Kernels that are public, or referenced by a public kernel / an accessor (transitively)."""
    refs = callers_in_package(repo, kernels)
    rooted = {k for k in kernels if not k.startswith("_")}
    rooted |= {k for k, who in refs.items() if any("." in w for w in who)}  # accessor methods
    changed = True
    while changed:
        changed = False
        for k, who in refs.items():
            if k not in rooted and any(w in rooted for w in who):
                rooted.add(k)
                changed = True
    return rooted


def divguard(rep: Report, repo: Repo, kernels: Dict[str, Kernel], names: Optional[Iterable[str]] = None,
             flavours=("scalar", "scale"), rule="R-DIVGUARD") -> List[Division]:
    rooted = rooted_kernels(repo, kernels)
    out: List[Division] = []
    counts: Dict[str, int] = {}
    for name in (names if names is not None else sorted(kernels)):
        if name not in kernels:
            raise AnalysisError(f"missing anchor: kernel {name}")
        k = kernels[name]
        da = DivAnalysis(k.node, k.file, array_params_of(k))
        for d in da.run():
            out.append(d)
            counts[d.klass] = counts.get(d.klass, 0) + 1
            desc = f"{d.op} by `{ast.unparse(d.den)}`"
            why = "; ".join(f"{f[0][:60]}: {f[1]} ({f[3][:120]})" for f in d.factors) or d.reason
            if d.flavour not in flavours or not d.obligation or name not in rooted:
                tag = "unrooted private helper" if name not in rooted else d.klass
                rep.note(f"division {k.file}:{d.line} {name}: {desc} [{d.flavour}/{tag}] {why[:200]}")
                continue
            role = ("robust scale is guarded" if d.flavour == "scale" else "scalar denominator cannot be zero")
            rep.ob(rule, k.file, name, f"{role}: {ast.unparse(d.den)[:50]}", d.ok,
                   ("" if d.ok else f"{desc}: ") + why, d.stmt, line=d.line, kind=d.klass, flavour=d.flavour)
    rep.analysed.setdefault("divisions_classified", {}).update(counts)
    return out

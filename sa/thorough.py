"""Thorough tier: the property's rules plus
  (a) its slice of the sensitivity corpus (selftest/corpus_*.py) applied to scratch copies of /repo/hdc: every
      `fire` variant must be reported (and name the edited construct), every `silent` twin must stay silent;
  (b) cross-checks between the engine's AST approximations and Numba's typed IR (array-valued names);
  (c) the sibling cross-check over all smoother copies.
A miss is SELFTEST-MISS / SELFTEST-FALSE-ALARM and makes the run exit 2 (the checker, not the repository, is broken).
"""
from __future__ import annotations

import json
import os
import sys
from pathlib import Path
from typing import Dict, List

from . import core

HERE = Path(__file__).resolve().parent
VERIF = HERE.parent


def run_corpus(pid: str, repo_root: Path) -> Dict:
    sys.path.insert(0, str(VERIF / "selftest"))
    import importlib
    run = importlib.import_module("run")
    run.REPO = Path(repo_root)
    corpus = [v for v in run.load_corpus() if pid in (v["prop"] if isinstance(v["prop"], list) else [v["prop"]])]
    # a variant that concerns several properties (the benign refactorings concern all of them) is judged here by this property's check only
    corpus = [dict(v, prop=[pid]) if isinstance(v["prop"], list) else v for v in corpus]
    import concurrent.futures as cf
    res = []
    env_tier = os.environ.pop("VERIF_TIER", None)
    try:
        with cf.ThreadPoolExecutor(16) as ex:
            for v, status, out in ex.map(run.run_variant, corpus):
                res.append((v, status, out))
    finally:
        if env_tier is not None:
            os.environ["VERIF_TIER"] = env_tier
    bad = [(v, st, out) for v, st, out in res if st != "OK"]
    return {
        "variants": len(res),
        "fire_expected": sum(1 for v, _, _ in res if v["expect"] == "fire"),
        "silent_expected": sum(1 for v, _, _ in res if v["expect"] == "silent"),
        "unexpected": [{"id": v["id"], "status": st, "tail": out.strip().splitlines()[-3:]} for v, st, out in bad],
        "ids": [v["id"] for v, _, _ in res],
    }


def run_compositions(pid: str, repo_root: Path) -> Dict:
    """Detection under refactoring noise: every stored behaviour-preserving refactoring that this property's check leaves silent is composed with every
    stored breaking change of this property that touches the same file; the check must still report the break."""
    import concurrent.futures as cf
    import importlib.util
    spec = importlib.util.spec_from_file_location("compose_check", VERIF / "tools" / "compose_check.py")
    cc = importlib.util.module_from_spec(spec)
    spec.loader.exec_module(cc)
    cc.REPO = Path(repo_root)
    lim = json.loads((VERIF / "benign" / "known_limitations.json").read_text()) if (VERIF / "benign" / "known_limitations.json").exists() else {}
    benign = [p for p in sorted((VERIF / "benign").glob("*/p*.diff")) if f"{p.parent.name}/{p.name}" not in lim]
    items = []
    for d in sorted((VERIF / "seeded").glob("*/meta.json")):
        m = json.loads(d.read_text())
        if m.get("property") != pid:
            continue
        s_ = d.parent / "patch.diff"
        fs = cc.files_of(s_)
        for b in benign:
            if cc.files_of(b) & fs:
                items.append((b, s_, pid, bool(m.get("allow_error"))))
    stats = {"fire": 0, "noapply": 0, "MISS": 0, "error": 0}
    bad = []
    env_tier = os.environ.pop("VERIF_TIER", None)
    try:
        with cf.ThreadPoolExecutor(16) as ex:
            for (b, s_, _, _), st, tail in ex.map(cc.run, items):
                stats[st] += 1
                if st in ("MISS", "error"):
                    bad.append(f"{b.parent.name}/{b.stem} + {s_.parent.name}: {st} {tail}")
    finally:
        if env_tier is not None:
            os.environ["VERIF_TIER"] = env_tier
    return {"pairs": len(items), **stats, "disagreements": bad}


def crosscheck_arrays(repo: core.Repo, kernels, names: List[str]) -> Dict:
    """AST array-ness inference vs typed IR: a name the AST calls an array must be typed as an array (or list/tuple) by Numba and vice versa."""
    from .arrays import array_names
    from .rules import array_params_of
    from .typedir import typed_facts
    facts = typed_facts(repo.root, names)
    by: Dict[str, Dict[str, set]] = {}
    for f in facts:
        if not f["ok"]:
            continue
        d = by.setdefault(f["kernel"], {})
        for var, tys in f["vars"].items():
            d.setdefault(var, set()).update(tys)
    disagreements = []
    checked = 0
    for kname, vars_ in by.items():
        k = kernels.get(kname)
        if k is None:
            continue
        arr, _ = array_names(k.node, array_params_of(k))
        # only names the rules reason about: subscripted, or operands of a division / power
        relevant = set()
        import ast as _ast
        for n in _ast.walk(k.node):
            if isinstance(n, _ast.Subscript) and isinstance(n.value, _ast.Name):
                relevant.add(n.value.id)
            if isinstance(n, _ast.BinOp) and isinstance(n.op, (_ast.Div, _ast.FloorDiv, _ast.Mod, _ast.Pow)):
                relevant |= {x.id for x in _ast.walk(n) if isinstance(x, _ast.Name)}
        for var, tys in vars_.items():
            if var not in relevant:
                continue
            if var in ("arg",):
                continue
            typed_arr = any(t.startswith("array(") for t in tys)
            typed_scalar = any(t in ("float64", "float32", "int64", "int32", "int16", "uint8", "bool") or t.startswith("Literal") for t in tys)
            checked += 1
            if var in arr and not typed_arr and typed_scalar:
                disagreements.append(f"{kname}.{var}: AST says array, typed IR says {sorted(tys)}")
            if var not in arr and typed_arr and not typed_scalar and not var.startswith("_"):
                disagreements.append(f"{kname}.{var}: AST says scalar, typed IR says {sorted(tys)}")
    return {"names_checked": checked, "disagreements": disagreements}

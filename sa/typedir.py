"""E7 — dtype facts from Numba's typed IR (type inference only; nothing is lowered or run).

The repository's own interpreter translates a kernel's bytecode to Numba IR and runs
type inference for each declared signature; a capture pass inserted right after
``NopythonTypeInference`` copies the typed IR and aborts compilation.  Importing the
``hdc.algo.ops`` modules executes their top level (decorator application, the vendored
``_init_extension()``); no kernel is compiled or called.

Run as a worker:  python typedir.py <repo_root> <out.json> [kernel ...]
"""
from __future__ import annotations

import json
import os
import subprocess
import sys
import tempfile
import time
from pathlib import Path
from typing import Any, Dict, List, Optional

HERE = Path(__file__).resolve().parent

# entry signatures of njit entry points that carry no declared signature: the argument
# types with which the accessors (or the documented API) call them.  (name -> list of arg specs)
ENTRY_TABLE = {
    "autocorr": [["int16[:,:,:]A", "float64"], ["int16[:,:,:]A", "int64"], ["float32[:,:,:]A", "none"], ["float64[:,:,:]A", "none"]],
    "autocorr_tyx": [["int16[:,:,:]A", "float64"], ["int16[:,:,:]A", "int64"], ["float32[:,:,:]A", "none"], ["float64[:,:,:]A", "none"]],
    "do_mean": [["int16[:,:,:]A", "int16[:,:]A", "int64", "int64", "int64", "class(float32)"],
                ["float32[:,:,:]A", "int32[:,:]A", "int64", "float64", "int64", "class(float32)"],
                ["float64[:,:,:]A", "int64[:,:]A", "int64", "float64", "int64", "class(float64)"],
                ["int16[:,:,:]A", "uint8[:,:]A", "int64", "int64", "int64", "class(float64)"]],
    "gammastd_yxt": [["int16[:,:,:]A", "float64", "int64", "int64"], ["float32[:,:,:]A", "float64", "int64", "int64"],
                     ["float64[:,:,:]A", "int64", "int64", "int64"], ["int16[:,:,:]A", "int64", "omitted(None)", "omitted(None)"]],
    "ws2doptvplc_tyx": [["int16[:,:,:]C", "float64", "float64"], ["int16[:,:,:]C", "float64", "int64"]],
    "mann_kendall_trend_yxt": [["int16[:,:,:]A"], ["float32[:,:,:]A"]],
    "mann_kendall_trend_1d": [],
}


def _setup_imports(repo_root: str):
    """Make `hdc.algo.ops.*` importable from repo_root without executing hdc/algo/__init__.py."""
    import types as pytypes
    import warnings
    warnings.filterwarnings("ignore")
    root = Path(repo_root)
    sys.path.insert(0, str(root))
    for name, sub in (("hdc", "hdc"), ("hdc.algo", "hdc/algo")):
        m = pytypes.ModuleType(name)
        m.__path__ = [str(root / sub)]
        m.__package__ = name
        sys.modules[name] = m
    sys.modules["hdc"].algo = sys.modules["hdc.algo"]


def _parse_spec(spec: str):
    from numba import types
    spec = spec.strip()
    if spec == "none":
        return types.none
    if spec.startswith("omitted("):
        return types.Omitted(None)
    if spec.startswith("class("):
        return types.NumberClass(getattr(types, spec[6:-1]))
    layout = "A"
    if spec[-1] in "AC" and "]" in spec:
        layout = spec[-1]
        spec = spec[:-1]
    if "[" in spec:
        base, rest = spec.split("[", 1)
        nd = rest.count(":")
        return types.Array(getattr(types, base), nd, layout)
    return getattr(types, spec)


def _tname(t) -> str:
    return str(t)


def worker(repo_root: str, out_path: str, only: List[str]):
    t_start = time.time()
    _setup_imports(repo_root)
    import importlib
    import numba
    from numba import types
    from numba.core import ir as nir
    from numba.core.compiler import CompilerBase, DefaultPassBuilder, Flags, compile_extra
    from numba.core.compiler_machinery import FunctionPass, register_pass
    from numba.core.registry import cpu_target
    from numba.core.typed_passes import NopythonTypeInference

    sys.path.insert(0, str(HERE.parent))
    from sa.core import Repo
    from sa.kernels import load_kernels

    class Stop(Exception):
        pass

    cap: Dict[str, Any] = {}

    @register_pass(mutates_CFG=False, analysis_only=True)
    class Capture(FunctionPass):
        _name = "capture_typed_ir"

        def __init__(self):
            FunctionPass.__init__(self)

        def run_pass(self, state):
            cap["ir"] = state.func_ir
            cap["typemap"] = dict(state.typemap)
            cap["calltypes"] = dict(state.calltypes)
            cap["return_type"] = state.return_type
            raise Stop()

    class TI(CompilerBase):
        def define_pipelines(self):
            pm = DefaultPassBuilder.define_nopython_pipeline(self.state)
            pm.add_pass_after(Capture, NopythonTypeInference)
            pm.finalize()
            return [pm]

    def infer(pyf, args, parallel=False):
        flags = Flags()
        flags.nrt = True
        if parallel:
            flags.auto_parallel = numba.core.cpu.ParallelOptions(True)
        cap.clear()
        try:
            compile_extra(cpu_target.typing_context, cpu_target.target_context, pyf, args, None, flags, {},
                          pipeline_class=TI)
        except Stop:
            pass
        except Exception as exc:  # noqa: BLE001
            if "ir" not in cap:
                return None, f"{type(exc).__name__}: {str(exc)[:400]}"
        return dict(cap), None

    repo = Repo(Path(repo_root))
    kernels = load_kernels(repo)
    mods = {}

    def pyfunc_of(k):
        if k.module not in mods:
            mods[k.module] = importlib.import_module(k.module)
        obj = getattr(mods[k.module], k.name)
        if hasattr(obj, "__wrapped__"):
            return obj.__wrapped__
        if hasattr(obj, "py_func"):
            return obj.py_func
        return obj

    results: List[dict] = []
    done = set()
    queue: List[tuple] = []

    for name, k in kernels.items():
        if only and name not in only:
            continue
        if k.kind == "guvectorize":
            for sig in k.sigs:
                specs = [f"{d}[{','.join(':' * 1 for _ in range(nd))}]A" if nd else d for d, nd in sig]
                queue.append((name, tuple(specs), "declared"))
        for specs in ENTRY_TABLE.get(name, []):
            queue.append((name, tuple(specs), "entry-table"))

    def describe(name, argtys, origin, res):
        fir, tm, ct = res["ir"], res["typemap"], res["calltypes"]
        facts = dict(kernel=name, args=[_tname(a) for a in argtys], origin=origin, ok=True, error=None,
                     setitems=[], inplace=[], binops=[], calls=[], vars={}, casts=[], returns=_tname(res.get("return_type")),
                     getitems=[])
        for vn, ty in tm.items():
            base = vn.split(".")[0]
            if base.startswith("$") or base.startswith("arg."):
                continue
            facts["vars"].setdefault(base, [])
            s = _tname(ty)
            if s not in facts["vars"][base]:
                facts["vars"][base].append(s)
        callees = []
        for blk in fir.blocks.values():
            for st in blk.body:
                line = st.loc.line
                if isinstance(st, (nir.SetItem, nir.StaticSetItem)):
                    tt = tm[st.target.name]
                    vt = tm[st.value.name]
                    it = tm[st.index_var.name] if isinstance(st, nir.StaticSetItem) and st.index_var is not None else (
                        tm[st.index.name] if isinstance(st, nir.SetItem) else None)
                    vd = vt.dtype if isinstance(vt, types.Array) else vt
                    if isinstance(vd, types.Literal):
                        vd = vd.literal_type
                    facts["setitems"].append(dict(line=line, target=st.target.name.split(".")[0],
                                                  target_type=_tname(tt), target_dtype=_tname(getattr(tt, "dtype", tt)),
                                                  value_type=_tname(vt), value_dtype=_tname(vd), index_type=_tname(it)))
                if isinstance(st, nir.Assign) and not st.target.name.startswith("$"):
                    # implicit conversion on assignment (unification widening)
                    vty = None
                    if isinstance(st.value, nir.Var):
                        vty = tm.get(st.value.name)
                    elif isinstance(st.value, nir.Expr) and st.value.op in ("binop", "inplace_binop", "call", "getitem", "static_getitem"):
                        sg = ct.get(st.value)
                        vty = sg.return_type if sg is not None else None
                    elif isinstance(st.value, nir.Const):
                        vty = None
                    tty = tm.get(st.target.name)
                    if vty is not None and tty is not None:
                        v2 = vty.literal_type if isinstance(vty, types.Literal) else vty
                        if v2 != tty and isinstance(v2, (types.Integer, types.Float, types.Boolean)) and isinstance(tty, (types.Integer, types.Float)):
                            facts["casts"].append(dict(line=line, target=st.target.name.split(".")[0], target_type=_tname(tty),
                                                       value_type=_tname(v2)))
                if isinstance(st, nir.Assign) and isinstance(st.value, nir.Expr):
                    e = st.value
                    if e.op in ("binop", "inplace_binop"):
                        lt, rt = tm[e.lhs.name], tm[e.rhs.name]
                        rec = dict(line=line, fn=getattr(e.fn, "__name__", str(e.fn)), lhs=_tname(lt), rhs=_tname(rt),
                                   result=_tname(tm[st.target.name]), lhs_var=e.lhs.name.split(".")[0],
                                   rhs_var=e.rhs.name.split(".")[0], target=st.target.name.split(".")[0])
                        rec["lhs_lit"] = isinstance(lt, types.Literal) or e.lhs.name.startswith("$const")
                        rec["rhs_lit"] = isinstance(rt, types.Literal) or e.rhs.name.startswith("$const")
                        if isinstance(lt, types.Literal):
                            rec["lhs"] = _tname(lt.literal_type)
                        if isinstance(rt, types.Literal):
                            rec["rhs"] = _tname(rt.literal_type)
                        (facts["inplace"] if e.op == "inplace_binop" else facts["binops"]).append(rec)
                    elif e.op == "call":
                        fty = tm[e.func.name]
                        sig = ct.get(e)
                        cname = _tname(fty)
                        if isinstance(fty, types.Dispatcher):
                            pf = fty.dispatcher.py_func
                            cname = "dispatcher:" + pf.__name__
                            if sig is not None:
                                callees.append((pf.__name__, tuple(sig.args)))
                        elif isinstance(fty, types.Function):
                            key = getattr(fty, "typing_key", None)
                            cname = "function:" + getattr(key, "__name__", str(key))
                            mod = getattr(key, "__module__", "") or ""
                            if "scipy" in mod or "cython_special" in str(key):
                                cname = "scipy.special:" + getattr(key, "__name__", str(key))
                        elif isinstance(fty, types.BoundFunction):
                            cname = "method:" + str(fty.typing_key)
                        elif isinstance(fty, types.NumberClass):
                            cname = "cast:" + _tname(fty.instance_type)
                        facts["calls"].append(dict(line=line, callee=cname,
                                                   args=[_tname(a) for a in sig.args] if sig is not None else None,
                                                   ret=_tname(sig.return_type) if sig is not None else None,
                                                   target=st.target.name.split(".")[0]))
                    elif e.op in ("getitem", "static_getitem"):
                        vt = tm[e.value.name]
                        facts["getitems"].append(dict(line=line, base=e.value.name.split(".")[0], base_type=_tname(vt),
                                                      result=_tname(tm[st.target.name])))
        return facts, callees

    while queue:
        name, spec, origin = queue.pop(0)
        k = kernels.get(name)
        if k is None:
            continue
        if isinstance(spec[0] if spec else None, str) or not spec:
            argtys = tuple(_parse_spec(s) for s in spec)
        else:
            argtys = spec
        key = (name, tuple(_tname(a) for a in argtys))
        if key in done:
            continue
        done.add(key)
        t0 = time.time()
        try:
            pyf = pyfunc_of(k)
        except Exception as exc:  # noqa: BLE001
            results.append(dict(kernel=name, args=list(key[1]), origin=origin, ok=False,
                                error=f"import failed: {type(exc).__name__}: {str(exc)[:300]}"))
            continue
        res, err = infer(pyf, argtys, parallel=k.parallel)
        if res is None:
            results.append(dict(kernel=name, args=list(key[1]), origin=origin, ok=False, error=err))
            continue
        facts, callees = describe(name, argtys, origin, res)
        facts["wall_s"] = round(time.time() - t0, 3)
        results.append(facts)
        for cn, cargs in callees:
            if cn in kernels:
                queue.append((cn, cargs, f"call from {name}"))
    Path(out_path).write_text(json.dumps(dict(results=results, wall_s=round(time.time() - t_start, 2))))


# ------------------------------------------------------------------------------- driver


_CACHE: Dict[str, dict] = {}

GROUPS = [
    ["ws2dgu", "ws2dpgu", "ws2doptv"],
    ["ws2doptvp"],
    ["ws2doptvplc"],
    ["ws2doptvplc_tyx"],
    ["ws2dwcv"],
    ["ws2dwcvp"],
    ["gammastd_grp", "gammastd_yxt"],
    ["_mann_kendall_trend_gu_nd", "_mann_kendall_trend_gu", "mann_kendall_trend_yxt"],
    ["mean_grp", "rolling_sum", "lroo", "tinterpolate"],
    ["autocorr", "autocorr_tyx"],
    ["do_mean"],
]


def typed_facts(repo_root: Path, only: Optional[List[str]] = None) -> List[dict]:
    """Typed-IR facts for the kernels in `only` (default: all), computed in parallel worker processes."""
    from .core import AnalysisError
    want = set(only) if only else None
    groups = []
    for g in GROUPS:
        gg = [k for k in g if want is None or k in want]
        if gg:
            groups.append(gg)
    if want:
        covered = {k for g in groups for k in g}
        for k in sorted(want - covered):
            groups.append([k])
    key = str(repo_root) + "|" + ",".join(sorted(k for g in groups for k in g))
    if key in _CACHE:
        return _CACHE[key]["results"]
    # optional on-disk cache keyed by the content of every module the kernels live in (type inference sees nothing else of the repository);
    # purely an accelerator for the self-test corpus: absent or unreadable entries are recomputed
    import hashlib
    h = hashlib.sha256()
    for p_ in sorted((Path(repo_root) / "hdc" / "algo").rglob("*.py")):
        if p_.name in ("accessors.py", "dekad.py"):
            continue
        h.update(p_.name.encode())
        h.update(p_.read_bytes())
    h.update(Path(__file__).read_bytes())
    h.update(",".join(sorted(k for g in groups for k in g)).encode())
    cdir = Path(os.environ.get("VERIF_TIR_CACHE", Path(tempfile.gettempdir()) / "hdc_tir_cache"))
    cfile = cdir / (h.hexdigest()[:32] + ".json")
    if os.environ.get("VERIF_TIR_CACHE") != "off" and cfile.exists():
        try:
            results = json.loads(cfile.read_text())["results"]
            _apply_renames(repo_root, results)
            _CACHE[key] = dict(results=results)
            return results
        except Exception:  # noqa: BLE001
            pass
    tmpd = Path(tempfile.mkdtemp(prefix="hdc_tir_"))
    procs = []
    env = dict(os.environ, NUMBA_DISABLE_JIT="0", NUMBA_CACHE_DIR=str(tmpd / "nbcache"), PYTHONDONTWRITEBYTECODE="1")
    for i, g in enumerate(groups):
        out = tmpd / f"g{i}.json"
        p = subprocess.Popen([sys.executable, "-B", str(HERE / "typedir.py"), str(repo_root), str(out)] + g,
                             env=env, stdout=subprocess.PIPE, stderr=subprocess.STDOUT, text=True)
        procs.append((p, out, g))
    results: List[dict] = []
    try:
        for p, out, g in procs:
            so, _ = p.communicate(timeout=900)
            if p.returncode != 0 or not out.exists():
                raise AnalysisError(f"typed-IR worker failed for {g}: {so[-800:]}")
            results.extend(json.loads(out.read_text())["results"])
    finally:
        import shutil
        shutil.rmtree(tmpd, ignore_errors=True)
    if os.environ.get("VERIF_TIR_CACHE") != "off":
        try:
            cdir.mkdir(parents=True, exist_ok=True)
            tmpf = cdir / (cfile.name + f".{os.getpid()}.tmp")
            tmpf.write_text(json.dumps(dict(results=results)))
            os.replace(tmpf, cfile)
        except Exception:  # noqa: BLE001
            pass
    _apply_renames(repo_root, results)
    _CACHE[key] = dict(results=results)
    return results


_NAME_FIELDS = {"setitems": ("target",), "casts": ("target",), "binops": ("lhs_var", "rhs_var", "target"), "inplace": ("lhs_var", "rhs_var", "target"),
                "calls": ("target",), "getitems": ("base",)}


def _apply_renames(repo_root, results: List[dict]):
    """The typed IR is inferred on the real source; the syntax-tree side of the checks sees locals renamed to the reference names
    (sa/canon.py). Apply the same renaming to every variable name in the facts so that the two sides join."""
    from .core import Repo
    try:
        repo = Repo(Path(repo_root))
    except Exception:  # noqa: BLE001 - the caller reports loader problems itself
        return
    by_kernel: Dict[str, Dict[str, str]] = {}
    for dotted, fm in repo.renames.items():
        for q, m in fm.items():
            if "." not in q:
                by_kernel[q] = m
    for f in results:
        m = by_kernel.get(f.get("kernel"))
        if not m or not f.get("ok"):
            continue
        for fld, keys in _NAME_FIELDS.items():
            for rec in f.get(fld, []):
                for k in keys:
                    if rec.get(k) in m:
                        rec[k] = m[rec[k]]
        f["vars"] = {m.get(k, k): v for k, v in f.get("vars", {}).items()}


if __name__ == "__main__":
    worker(sys.argv[1], sys.argv[2], sys.argv[3:])

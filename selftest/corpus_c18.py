L = "hdc/algo/ops/lroo.py"
A = "hdc/algo/accessors.py"


def v(id, file, old, new, expect="fire", note="", nth=None, names=None):
    d = dict(id=id, prop="C18", file=file, old=old, new=new, expect=expect, note=note, nth=nth)
    if names:
        d["names"] = names
    return d


VARIANTS = [
    v("c18-gap-ge", L, "        if d == 1:", "        if d >= 1:", names="lroo"),
    v("c18-mr-gt0", L, "    if mr > 1:", "    if mr > 0:", names="lroo"),
    v("c18-reset0", L, "            cr = 1\n", "            cr = 0\n", names="lroo"),
    v("c18-ascending", A, 'self._obj.sortby("time", ascending=False)', 'self._obj.sortby("time", ascending=True)', names="croo"),
    v("c18-skipna", A, 'cumsum("time", skipna=False)', 'cumsum("time", skipna=True)', names="croo"),
    v("c18-latest", A, "x_crbt = xtemp + xsort.isel(time=0)", "x_crbt = xtemp + xsort.isel(time=-1)", names="croo"),
    v("c18-eq2", L, "np.where(data.flatten() == 1)[0]", "np.where(data.flatten() >= 1)[0]", names="lroo"),
    v("c18-range", L, "for ix in range(1, dots.size):", "for ix in range(2, dots.size):", names="lroo"),
    v("c18-decl", A, 'output_dtypes=["uint8"],', 'output_dtypes=["int8"],', names="R-DTYPE-DECL"),
    v("c18-second-narrow", L, "        out[0] = 0\n", "        out[0] = cr\n", names="R-NARROW", note="a different narrowing store than the known finding must still be reported"),
    v("c18-init", L, "    cr = 1\n    mr = 0\n", "    cr = 0\n    mr = 0\n", names="lroo"),
    # twin: widening the output is the repair; the known finding must disappear and nothing else fire
    dict(id="c18-twin-widen", prop="C18", expect="silent", edits=[
        dict(file=L, old='guvectorize("(uint8[:], uint8[:])"', new='guvectorize("(uint8[:], uint16[:])"'),
        dict(file=A, old='output_dtypes=["uint8"],', new='output_dtypes=["uint16"],')]),
    v("c18-twin-len", L, "for ix in range(1, dots.size):", "for ix in range(1, len(dots)):", expect="silent"),
]

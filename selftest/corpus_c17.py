S = "hdc/algo/ops/stats.py"
A = "hdc/algo/accessors.py"


def v(id, file, old, new, expect="fire", note="", nth=None, names=None):
    d = dict(id=id, prop="C17", file=file, old=old, new=new, expect=expect, note=note, nth=nth)
    if names:
        d["names"] = names
    return d


BREAK_SHAPE = ('''        n_valid = 0
        for jj in range(ii - window_size + 1, ii + 1):
            if xx[jj] == nodata:
                continue
            yy[ii] += xx[jj]
            n_valid += 1
        if n_valid == 0:
            yy[ii] = nodata
''', '''        for jj in range(ii - window_size + 1, ii + 1):
            if xx[jj] == nodata:
                yy[ii] = nodata
                break
            yy[ii] += xx[jj]
''')

VARIANTS = [
    dict(id="c17-revert-D13", prop="C17", patch="reverts/D13.patch", expect="fire", names="R-SENTINEL-ACC"),
    v("c17-trim", A, "xx = xx[..., window_size - 1 :]", "xx = xx[..., window_size:]", names="prefix"),
    v("c17-prefix", S, "if ii - window_size + 1 < 0:", "if ii - window_size < 0:", names="prefix"),
    v("c17-window", S, "for jj in range(ii - window_size + 1, ii + 1):", "for jj in range(ii - window_size + 1, ii):", names="rolling_sum"),
    v("c17-nvalid-dropped", S, "        if n_valid == 0:\n            yy[ii] = nodata\n", "", names="rolling_sum", note="all-nodata window gives 0"),
    v("c17-meangrp-n0", S, "        if n == 0:\n            avg = nodata\n        else:\n            avg = avg / n\n", "        avg = avg / max(n, 1)\n", names="mean_grp"),
    v("c17-meangrp-skip", S, "            if pixv == nodata:\n                continue\n            if n == 0:", "            if n == 0:", names="mean_grp"),
    v("c17-meangrp-scatter", S, "        yy[grp_ix] = avg\n", "        yy[groups >= grp] = avg\n", names="mean_grp"),
    v("c17-meangrp-range", S, "    for grp in range(num_groups):\n        grp_ix = groups == grp\n        pix = xx[grp_ix]\n        n = 0", "    for grp in range(num_groups - 1):\n        grp_ix = groups == grp\n        pix = xx[grp_ix]\n        n = 0", names="mean_grp"),
    v("c17-nodata-arith", S, "            yy[ii] += xx[jj]\n            n_valid += 1", "            yy[ii] += xx[jj] - nodata * 0\n            n_valid += 1", names="rolling_sum"),
    v("c17-bind-swap", A, "            rolling_sum,\n            self._obj,\n            window_size,\n            nodata,", "            rolling_sum,\n            self._obj,\n            nodata,\n            window_size,", names="R-BIND"),
    v("c17-count-twice", S, "            n += 1\n        if n == 0:", "            n += 2\n        if n == 0:", names="mean_grp"),
    v("c17-break-then-continue", S, BREAK_SHAPE[0], BREAK_SHAPE[1].replace("break", "continue"), names="R-SENTINEL-ACC"),
    # twins
    v("c17-twin-break", S, BREAK_SHAPE[0], BREAK_SHAPE[1], expect="silent", note="leave the window at the first nodata: allowed by the statement"),
    v("c17-twin-prefix", S, "if ii - window_size + 1 < 0:", "if ii < window_size - 1:", expect="silent"),
    v("c17-twin-ne", S, "            if xx[jj] == nodata:\n                continue\n            yy[ii] += xx[jj]\n            n_valid += 1",
      "            if xx[jj] != nodata:\n                yy[ii] += xx[jj]\n                n_valid += 1", expect="silent"),
]

VARIANTS += [
    v("c17-window-eq-len", S, "    n = xx.size\n    yy[:] = 0\n", "    n = xx.size\n    if window_size >= n:\n        yy[:] = nodata\n        return\n    yy[:] = 0\n", names="R-SENTINEL-ACC", note="seeded C17a: window == length loses the one complete window"),
    v("c17-twin-window-gt-len", S, "    n = xx.size\n    yy[:] = 0\n", "    n = xx.size\n    if window_size > n:\n        yy[:] = nodata\n        return\n    yy[:] = 0\n", expect="silent", note="window longer than the series: no complete window exists"),
]

VARIANTS += [
    v("c17-meangrp-int8", A, 'np.array(groups, dtype="int16")\n            if not isinstance(groups, np.ndarray)', 'np.array(groups, dtype="int8")\n            if not isinstance(groups, np.ndarray)', names="mean_grp"),
    v("c17-meangrp-numgroups", A, "num_groups = np.unique(groups).size", "num_groups = groups.max()", names="mean_grp", note="the last group is never processed"),
    v("c17-twin-numgroups", A, "num_groups = np.unique(groups).size", "num_groups = len(np.unique(groups))", expect="silent"),
    v("c17-precast", A, "            rolling_sum,\n            self._obj,\n", "            rolling_sum,\n            self._obj.astype(dtype),\n", names="provenance", note="float32 rounding before the nodata comparison"),
    v("c17-twin-alias", A, "        xx = xarray.apply_ufunc(\n            rolling_sum,\n            self._obj,\n", "        obj = self._obj\n        xx = xarray.apply_ufunc(\n            rolling_sum,\n            obj,\n", expect="silent"),
]

F = "hdc/algo/ops/ws2d.py"


def v(id, old, new, expect="fire", note="", nth=None, prop="C01", names="ws2d"):
    d = dict(id=id, prop=prop, file=F, old=old, new=new, expect=expect, note=note, nth=nth)
    if expect == "fire":
        d["names"] = names
    return d


VARIANTS = [
    v("c01-row1-diag", "w[1] + 5 * lmda", "w[1] + 6 * lmda", note="boundary coefficient 5 -> 6"),
    v("c01-row0-c", "c[0] = (-2 * lmda) / d[0]", "c[0] = (-4 * lmda) / d[0]"),
    v("c01-interior-sign", "c[i] = (-4 * lmda - d[i1] * c[i1] * e[i1]) / d[i]", "c[i] = (-4 * lmda + d[i1] * c[i1] * e[i1]) / d[i]"),
    v("c01-interior-offset", "        i2 = i - 2\n", "        i2 = i - 1\n"),
    v("c01-drop-term", "z[i] = w[i] * y[i] - c[i1] * z[i1] - e[i2] * z[i2]", "z[i] = w[i] * y[i] - c[i1] * z[i1]"),
    v("c01-loop-bound", "for i in range(2, m - 1):", "for i in range(2, m - 2):"),
    v("c01-back-bound", "for i in range(m - 2, -1, -1):", "for i in range(m - 2, 0, -1):"),
    v("c01-back-coef", "z[i] = z[i] / d[i] - c[i] * z[i + 1] - e[i] * z[i + 2]", "z[i] = z[i] / d[i] - c[i] * z[i + 1] - e[i] * z[i + 1]"),
    v("c01-last-row", "d[m] = w[m] + lmda -", "d[m] = w[m] + 2 * lmda -"),
    v("c01-m1-c", "c[m - 1] = (-2 * lmda", "c[m - 1] = (-4 * lmda"),
    v("c01-weight-dropped", "z[0] = w[0] * y[0]", "z[0] = y[0]"),
    v("c01-write-input", "    z[m - 1] = z[m - 1] / d[m - 1] - c[m - 1] * z[m]\n", "    z[m - 1] = z[m - 1] / d[m - 1] - c[m - 1] * z[m]\n    y[0] = z[0]\n"),
    v("c01-e1-coef", "e[1] = lmda / d[1]", "e[1] = 2 * lmda / d[1]"),
    # silent twins
    v("c01-twin-square", "d[1] = w[1] + 5 * lmda - d[0] * (c[0] * c[0])", "d[1] = w[1] + 5 * lmda - d[0] * c[0] ** 2", expect="silent"),
    v("c01-twin-hoist", "    d[0] = w[0] + lmda\n", "    d[0] = lmda + w[0]\n", expect="silent"),
    v("c01-twin-n2", "    i1 = m - 2\n    i2 = m - 3\n", "    i1 = n - 3\n    i2 = n - 4\n", expect="silent"),
    v("c01-twin-rename", "for i in range(m - 2, -1, -1):\n        z[i] = z[i] / d[i] - c[i] * z[i + 1] - e[i] * z[i + 2]", "for k in range(n - 3, -1, -1):\n        z[k] = z[k] / d[k] - z[k + 1] * c[k] - z[k + 2] * e[k]", expect="silent"),
    v("c01-twin-comment", "    n = y.shape[0]\n", "    # length of the series\n\n    n = len(y)\n", expect="silent"),
    v("c01-twin-factor", "c[i] = (-4 * lmda - d[i1] * c[i1] * e[i1]) / d[i]", "c[i] = -(4 * lmda + c[i1] * d[i1] * e[i1]) / d[i]", expect="silent"),
]

VARIANTS += [
    v("c01-alias", "    d = z.copy()\n", "    d = z\n", note="work arrays share memory"),
    v("c01-clamp", "    n = y.shape[0]\n    m = n - 1\n", "    n = y.shape[0]\n    m = n - 1\n    if lmda > 1e7:\n        lmda = 1e7\n", note="lambda silently clamped"),
    v("c01-special-case", "    z[0] = w[0] * y[0]\n", "    z[0] = w[0] * y[0]\n    if w[1] == 0.0:\n        d[0] = d[0] + 1e-9\n", note="special-casing a zero weight"),
    v("c01-float32", "    z = zeros(n)\n", "    z = zeros(n, dtype=float32)\n", note="narrow work array"),
]

VARIANTS += [
    v("c01-early-return", "    z = zeros(n)\n", "    z = zeros(n)\n    if w.sum() <= 1:\n        z[:] = y\n        return z\n", names="R-STRAIGHT", note="seeded C01a: weights of small total mass return the input"),
]

S = "hdc/algo/ops/stats.py"
A = "hdc/algo/ops/autocorr.py"
V = "hdc/algo/vendor/numba_scipy/special/signatures.py"


def v(id, file, old, new, expect="fire", note="", nth=None, names=None):
    d = dict(id=id, prop="C13", file=file, old=old, new=new, expect=expect, note=note, nth=nth)
    if names:
        d["names"] = names
    return d


VARIANTS = [
    dict(id="c13-revert-D9", prop="C13", patch="reverts/D9.patch", expect="fire", names="NB-PROMOTE"),
    dict(id="c13-revert-D10", prop="C13", patch="reverts/D10.patch", expect="fire", names="NB-UNIFY"),
    dict(id="c13-revert-D16", prop="C13", patch="reverts/D16.patch", expect="fire", names="NB-PROMOTE"),
    dict(id="c13-revert-D6", prop="C13", patch="reverts/D6.patch", expect="fire", names="R-DIVGUARD"),
    v("c13-vendor-double", V, "'double': numba.types.float64", "'double': numba.types.float32", names="R-VENDOR", note="table disagreement"),
    v("c13-vendor-ctypes", V, "numba.types.float64: ctypes.c_double", "numba.types.float64: ctypes.c_float", names="R-VENDOR"),
    v("c13-acc-init", A, "        x = int64(xx[i])\n", "        x = xx[i]\n", names="NB-PROMOTE"),
    v("c13-meangrp-guard", S, "        if n == 0:\n            avg = nodata\n        else:\n            avg = avg / n\n",
      "        avg = avg / n\n", names="R-DIVGUARD", note="count guard dropped"),
    v("c13-gammafit-guard", S, "    if n == 0:\n        return (0, 0)\n\n    xtsbar", "    xtsbar", names="R-DIVGUARD"),
    v("c13-sig-broken", S, '"(int16[:], float64, float32[:], float32[:], float32[:], int8[:])"', '"(int16[:], float64, float32[:], float32[:], float32[:], int8[:,:])"',
      names="NB-TYPES", note="declared signature no longer types"),
    # twins
    v("c13-twin-widen", A, "        x = int64(xx[i])\n", "        x = float64(xx[i])\n", expect="silent"),
    v("c13-twin-guard", S, "    if n == 0:\n        return (0, 0)\n\n    xtsbar", "    if n < 1:\n        return (0, 0)\n\n    xtsbar", expect="silent"),
]

VARIANTS += [
    v("c13-fastmath", A, "@njit\ndef autocorr_1d_float(data):", "@njit(fastmath={\"reassoc\", \"contract\"})\ndef autocorr_1d_float(data):", names="NB-FLAGS", note="seeded C13a"),
    v("c13-error-model", S, "@njit\ndef gammafit(x):", "@njit(error_model=\"numpy\")\ndef gammafit(x):", names="NB-FLAGS"),
    v("c13-twin-cache", S, "@njit\ndef gammafit(x):", "@njit(cache=False)\ndef gammafit(x):", expect="silent"),
]

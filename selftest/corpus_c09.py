U = "hdc/algo/utils.py"
A = "hdc/algo/accessors.py"
S = "hdc/algo/ops/stats.py"


def v(id, file, old, new, expect="fire", note="", nth=None, names=None, **kw):
    d = dict(id=id, prop="C09", file=file, old=old, new=new, expect=expect, note=note, nth=nth, **kw)
    if names:
        d["names"] = names
    return d


VARIANTS = [
    v("c09-end-left", U, '_get_ix(time.values, end, "right")', '_get_ix(time.values, end, "left")', names="get_calibration_indices"),
    v("c09-grp-end-left", U, '_get_ix(time[groups == ix].values, end, "right")', '_get_ix(time[groups == ix].values, end, "left")', names="get_calibration_indices"),
    v("c09-begin-right", U, '_get_ix(time.values, begin, "left")', '_get_ix(time.values, begin, "right")', names="get_calibration_indices"),
    v("c09-unfiltered", U, '_get_ix(time[groups == ix].values, begin, "left")', '_get_ix(time.values, begin, "left")', names="get_calibration_indices"),
    v("c09-attr-gt", A, "tix[tix >= calibration_begin][0]", "tix[tix > calibration_begin][0]", names="spi"),
    v("c09-attr-last", A, "tix[tix <= calibration_end][-1]", "tix[tix <= calibration_end][0]", names="spi"),
    v("c09-short", A, "if abs(calstop_ix - calstart_ix) <= 1:", "if abs(calstop_ix - calstart_ix) < 1:", names="spi"),
    v("c09-any-dropped", A, "if np.any(np.diff(cal_indices, axis=1) <= 1):", "if np.all(np.diff(cal_indices, axis=1) <= 1):", names="spi"),
    v("c09-reversed-dropped", A, "            if calstart_ix >= calstop_ix:\n                raise ValueError(\"calibration_begin < calibration_end!\")\n\n", "", names="spi"),
    v("c09-scatter", S, "        yy[grp_ix] = res[:]\n", "        yy[groups >= grp] = res[:]\n", names="gammastd_grp", allow_error=True),
    v("c09-range", S, "    for grp in range(num_groups):\n        grp_ix = groups == grp\n\n        cal_start", "    for grp in range(num_groups - 1):\n        grp_ix = groups == grp\n\n        cal_start", names="gammastd_grp"),
    v("c09-cal-row", S, "cal_stop = cal_indices[grp, 1]", "cal_stop = cal_indices[0, 1]", names="gammastd_grp"),
    v("c09-numgroups", A, "            num_groups = len(keys)\n", "            num_groups = len(groups)\n", names="spi"),
    v("c09-nostr", A, 'to_linspace(np.array(groups, dtype="str"))', "to_linspace(np.array(groups))", names="spi", note="'10' < '2' ordering no longer by string: partition still same, but type-dependent"),
    v("c09-len-check", A, "            if len(groups) != len(self._obj.time):\n                raise ValueError(\"Need array of groups same length as time dimension!\")\n\n", "", names="spi"),
    v("c09-valueerror", A, '                raise ValueError("calibration_begin < calibration_end!")\n\n            if abs(', '                raise IndexError("calibration_begin < calibration_end!")\n\n            if abs(', names="spi"),
    # twins
    v("c09-twin-cmp", A, "if calstart_ix >= calstop_ix:", "if calstop_ix <= calstart_ix:", expect="silent"),
    v("c09-twin-short", A, "if abs(calstop_ix - calstart_ix) <= 1:", "if calstop_ix - calstart_ix < 2:", expect="silent"),
]

VARIANTS += [
    v("c09-grp-int8", A, 'groups = groups.astype("int16")', 'groups = groups.astype("int8")', names="spi", note="more than 127 groups (daily climatology) wrap"),
    v("c09-nodata-or", A, '        if nodata is None:\n            if (nodata := self._obj.attrs.get("nodata")) is None:\n                raise ValueError(\n                    "Need nodata attribute defined, or nodata argument provided."\n                )\n\n        # pylint: disable=import-outside-toplevel\n        from .ops.stats import (\n            gammastd_yxt,',
      '        nodata = nodata or self._obj.attrs.get("nodata")\n        if nodata is None:\n            raise ValueError(\n                "Need nodata attribute defined, or nodata argument provided."\n            )\n\n        # pylint: disable=import-outside-toplevel\n        from .ops.stats import (\n            gammastd_yxt,', names="R-TRUTHY"),
]

S = "hdc/algo/ops/stats.py"


def v(id, old, new, expect="fire", note="", nth=None, names=None, **kw):
    d = dict(id=id, prop="C08", file=S, old=old, new=new, expect=expect, note=note, nth=nth, **kw)
    if names:
        d["names"] = names
    return d


VARIANTS = [
    dict(id="c08-revert-D5", prop="C08", patch="reverts/D5.patch", expect="fire", names="R-NARROW"),
    dict(id="c08-revert-D6", prop="C08", patch="reverts/D6.patch", expect="fire", names="R-DIVGUARD"),
    v("c08-clip-one-sided", "s[ti] = min(max(s[ti] * 1000, -32768.0), 32767.0)", "s[ti] = max(s[ti] * 1000, -32768.0)", names="R-NARROW"),
    v("c08-clip-wide", "np.clip(res[valid_ix] * 1000, -32768.0, 32767.0)", "np.clip(res[valid_ix] * 1000, -65536.0, 65535.0)", names="R-NARROW"),
    v("c08-pzero-return", "    if p_zero > 0.9:\n        return np.full_like(x, nodata, dtype=\"float64\")\n\n", "", names="gammastd"),
    v("c08-pzero-cell", "    p_zero = n_zero / n_valid\n", "    p_zero = n_zero / n_valid\n    p0 = p_zero\n", expect="silent"),
    v("c08-assert", "    t = len(x)\n\n    n_zero = 0", "    t = len(x)\n    assert t > 2\n\n    n_zero = 0", names="R-NORAISE"),
    v("c08-cell-dependent", "            y[ix] = sc.ndtri(y[ix])\n", "            y[ix] = sc.ndtri(y[ix])\n            p_zero = p_zero * 0.999\n", names="R-LOOPINV", allow_error=True),
    v("c08-nofit-arm", "    if alpha == 0 or beta == 0:\n        return np.full_like(x, nodata, dtype=\"float64\")\n", "    if alpha == 0:\n        return np.full_like(x, nodata, dtype=\"float64\")\n", names="gammastd"),
    v("c08-s0", "    if s == 0:\n        return (0, 0)\n\n", "", names="R-DIVGUARD"),
    v("c08-twin-npclip", "                for ti in range(t):\n                    if s[ti] == nodata:\n                        continue\n                    # saturate at the int16 range instead of wrapping\n                    s[ti] = min(max(s[ti] * 1000, -32768.0), 32767.0)\n",
      "                valid = s != nodata\n                s[valid] = np.clip(s[valid] * 1000, -32768.0, 32767.0)\n", expect="silent"),
    v("c08-twin-bounds", "np.clip(res[valid_ix] * 1000, -32768.0, 32767.0)", "np.clip(res[valid_ix] * 1000, -32767.0, 32767.0)", expect="silent"),
]

Z = "hdc/algo/ops/zonal.py"
A = "hdc/algo/accessors.py"


def v(id, file, old, new, expect="fire", note="", nth=None, names=None):
    d = dict(id=id, prop="C16", file=file, old=old, new=new, expect=expect, note=note, nth=nth)
    if names:
        d["names"] = names
    return d


VARIANTS = [
    dict(id="c16-revert-D12", prop="C16", patch="reverts/D12.patch", expect="fire", names="R-ACC"),
    v("c16-acc-outdtype", Z, "sums = np.zeros(num_zones, dtype=np.float64)", "sums = np.zeros(num_zones, dtype=out_dtype)", names="R-ACC"),
    v("c16-count-f32", Z, "counts = np.zeros(num_zones, dtype=np.int64)", "counts = np.zeros(num_zones, dtype=np.float32)", names="R-ACC"),
    v("c16-or", Z, "if (pix != nodata) and (z_idx != z_nodata):", "if (pix != nodata) or (z_idx != z_nodata):", names="do_mean"),
    v("c16-ge0", Z, "if counts[idx] > 0:", "if counts[idx] >= 0:", names="do_mean"),
    v("c16-no-reset", Z, "        sums[:] = 0\n", "", names="R-LOOPCARRY"),
    v("c16-wrong-zone", Z, "z_idx = z_pixels[rw, cl]", "z_idx = z_pixels[cl, rw]", names="do_mean"),
    v("c16-count-2", Z, "counts[z_idx] += 1", "counts[z_idx] += 2", names="do_mean"),
    v("c16-zones-1", Z, "for idx in range(result.shape[1]):", "for idx in range(result.shape[1] - 1):", names="R-COVER"),
    v("c16-nan-subst", A, "        xx = xx.where(xx.notnull(), xx.nodata)\n", "", names="ZonalStatistics.mean"),
    v("c16-swapped-nodata", A, "                xx.nodata,\n                zones.nodata,\n                drop_axis", "                zones.nodata,\n                xx.nodata,\n                drop_axis", names="R-BIND"),
    v("c16-extra-guard", Z, "if (pix != nodata) and (z_idx != z_nodata):", "if (pix != nodata) and (z_idx != z_nodata) and (pix > 0):", names="do_mean"),
    v("c16-mean-of-count", Z, "result[tix, idx, 0] = sums[idx] / counts[idx]", "result[tix, idx, 0] = sums[idx] / (counts[idx] + 1)", names="do_mean"),
    # twins
    v("c16-twin-ne", Z, "if (pix != nodata) and (z_idx != z_nodata):", "if (z_idx != z_nodata) and (nodata != pix):", expect="silent"),
    v("c16-twin-alloc-in-loop", Z, "        sums[:] = 0\n        counts[:] = 0\n", "        sums = np.zeros(num_zones, dtype=np.float64)\n        counts = np.zeros(num_zones, dtype=np.int64)\n", expect="silent"),
    v("c16-twin-numzones", Z, "for idx in range(result.shape[1]):", "for idx in range(num_zones):", expect="silent"),
]

VARIANTS += [
    v("c16-token", A, 'dask_name = f"{name}-{tokenize(xx.data, zones.data, dtype)}"', 'dask_name = f"{name}-{tokenize(xx.data, xx.nodata, zones.nodata, num_zones, dtype)}"', names="R-TOKEN", note="seeded C16a"),
]

VARIANTS += [
    v("c16-nan-subst-floatonly", A, "        xx = xx.where(xx.notnull(), xx.nodata)\n", "        if np.issubdtype(xx.dtype, float):\n            xx = xx.where(xx.notnull(), xx.nodata)\n", names="mean",
      note="np.issubdtype(float32, float) is False: float32 NaN pixels reach the kernel"),
]

S = "hdc/algo/ops/stats.py"
A = "hdc/algo/accessors.py"
V = "hdc/algo/vendor/numba_scipy/special/signatures.py"


def v(id, file, old, new, expect="fire", note="", nth=None, names=None, **kw):
    d = dict(id=id, prop="C07", file=file, old=old, new=new, expect=expect, note=note, nth=nth, **kw)
    if names:
        d["names"] = names
    return d


VARIANTS = [
    v("c07-x-times-beta", S, "x[ix] / beta", "x[ix] * beta", names="gammastd"),
    v("c07-gammaincc", S, "sc.gammainc(alpha, x[ix] / beta)", "sc.gammaincc(alpha, x[ix] / beta)", names="gammastd"),
    v("c07-1-p0-dropped", S, "(1 - p_zero)\n                * sc.gammainc", "1\n                * sc.gammainc", names="gammastd"),
    v("c07-nvalid-gt", S, "        if val >= 0:\n            n_valid += 1", "        if val > 0:\n            n_valid += 1", names="gammastd"),
    v("c07-fit-ge", S, "        if xx > 0:\n            xts += xx", "        if xx >= 0:\n            xts += xx", names="gammafit", allow_error=True),
    v("c07-bracket", S, "xb = a_est * (1 + 0.4)", "xb = a_est * (1 + 0.5)", names="gammafit"),
    v("c07-thom", S, "sqrt((s - 3) ** 2 + 24 * s)", "sqrt((s - 3) ** 2 + 12 * s)", names="gammafit"),
    v("c07-round-before-scale", S, "                    s[ti] = min(max(s[ti] * 1000, -32768.0), 32767.0)\n                np.round(s, 0, s)\n",
      "                np.round(s, 0, s)\n                for ti in range(t):\n                    if s[ti] == nodata:\n                        continue\n                    s[ti] = min(max(s[ti] * 1000, -32768.0), 32767.0)\n", names="gammastd_yxt", allow_error=True),
    v("c07-calstop", S, "gammafit(x[cal_start:cal_stop])", "gammafit(x[cal_start : cal_stop - 1])", names="gammastd"),
    v("c07-fit-whole", S, "gammafit(x[cal_start:cal_stop])", "gammafit(x)", names="gammastd"),
    v("c07-beta", S, "    b = xtsbar / a\n", "    b = a / xtsbar\n", names="gammafit"),
    v("c07-rootfn", S, "func = lambda a: log(a) - sc.digamma(a) - s", "func = lambda a: log(a) - sc.digamma(a) + s", names="brentq"),
    v("c07-scale", S, "res[valid_ix] = np.clip(res[valid_ix] * 1000, -32768.0, 32767.0)", "res[valid_ix] = np.clip(res[valid_ix] * 100, -32768.0, 32767.0)", names="gammastd_grp", allow_error=True),
    v("c07-s-sign", S, "s = log(xtsbar) - (logs / n)", "s = (logs / n) - log(xtsbar)", names="gammafit"),
    v("c07-nodata-kw", A, '"cal_start": calstart_ix,', '"cal_start": calstop_ix,', names="R-BIND"),
    v("c07-ge-cell", S, "        if x[ix] >= 0:\n            y[ix] = p_zero", "        if x[ix] > 0:\n            y[ix] = p_zero", names="gammastd"),
    v("c07-nzero-before-skip", S, "        if val == nodata:\n            continue\n        if val == 0:\n            n_zero += 1",
      "        if val == 0:\n            n_zero += 1\n        if val == nodata:\n            continue", names="gammastd", note="a nodata of 0 would be counted as zero"),
    # twins
    v("c07-twin-p0", S, "            y[ix] = p_zero + (\n                (1 - p_zero)\n                * sc.gammainc(alpha, x[ix] / beta)  # pylint: disable=no-member\n            )",
      "            g = sc.gammainc(alpha, x[ix] / beta)\n            y[ix] = g + p_zero * (1 - g)", expect="silent"),
    v("c07-twin-bracket", S, "xa = a_est * (1 - 0.4)", "xa = 0.6 * a_est", expect="silent"),
    v("c07-twin-s", S, "s = log(xtsbar) - (logs / n)", "s = log(xts / n) - logs / n", expect="silent"),
    v("c07-twin-names", S, "    n_zero = 0\n    n_valid = 0\n\n    for val in x:\n        if val == nodata:\n            continue\n        if val == 0:\n            n_zero += 1\n        if val >= 0:\n            n_valid += 1\n\n    if n_valid == 0:\n        return np.full_like(x, nodata, dtype=\"float64\")\n\n    p_zero = n_zero / n_valid",
      "    nz = 0\n    nv = 0\n\n    for val in x:\n        if val == nodata:\n            continue\n        if val == 0:\n            nz += 1\n        if val >= 0:\n            nv += 1\n\n    if nv == 0:\n        return np.full_like(x, nodata, dtype=\"float64\")\n\n    p_zero = nz / nv", expect="silent"),
]

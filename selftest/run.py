"""Sensitivity corpus runner: applies single edits to scratch copies of /repo/hdc and
asserts that the property's check fires (and names the edited function) or stays silent.

Usage: selftest/run.py [--prop C01] [--jobs 16] [--only id-substring] [-v]
Exit 0 when every variant behaves as expected; 2 on SELFTEST-MISS / SELFTEST-FALSE-ALARM.
"""
import argparse
import concurrent.futures as cf
import os
import shutil
import subprocess
import sys
import tempfile
from pathlib import Path

HERE = Path(__file__).resolve().parent
VERIF = HERE.parent
sys.path.insert(0, str(HERE))
REPO = Path(os.environ.get("HDC_REPO", "/repo"))


def load_corpus():
    import importlib.util
    out = []
    for p in sorted(HERE.glob("corpus_*.py")):
        spec = importlib.util.spec_from_file_location(p.stem, p)
        m = importlib.util.module_from_spec(spec)
        spec.loader.exec_module(m)
        out.extend(m.VARIANTS)
    # the breaking changes written by independent sub-agents (seeded/<id>/) must be reported by their property's check
    import json
    for d in sorted((VERIF / "seeded").glob("*/meta.json")):
        meta = json.loads(d.read_text())
        if meta.get("property") and (d.parent / "patch.diff").exists():
            out.append(dict(id="seed-" + meta["seed_id"], prop=meta["property"], patch=str(d.parent / "patch.diff"), expect="fire",
                            allow_error=bool(meta.get("allow_error")), note="seeded: " + (meta.get("summary") or "")[:100]))
    # behaviour-preserving refactorings written by independent sub-agents (benign/<id>/pK.diff): no check may alarm on them
    lim = json.loads((VERIF / "benign" / "known_limitations.json").read_text()) if (VERIF / "benign" / "known_limitations.json").exists() else {}
    allp = [f"C{i:02d}" for i in range(1, 21)]
    for d in sorted((VERIF / "benign").glob("*/p*.diff")):
        key = f"{d.parent.name}/{d.name}"
        if key in lim:
            continue
        out.append(dict(id=f"benign-{d.parent.name}-{d.stem}", prop=allp, patch=str(d), expect="silent", note="benign refactoring"))
    return out


def apply_edit(root: Path, v):
    if v.get("patch"):
        pth = Path(v["patch"])
        r = subprocess.run(["patch", "-p1", "-s", "-d", str(root), "-i", str(pth if pth.is_absolute() else HERE / pth)],
                           capture_output=True, text=True)
        if r.returncode != 0:
            return "patch does not apply: " + (r.stdout + r.stderr)[-300:]
        return None
    edits = v.get("edits") or [dict(file=v["file"], old=v["old"], new=v["new"], nth=v.get("nth"))]
    for e in edits:
        f = root / e["file"]
        s = f.read_text()
        cnt = s.count(e["old"])
        nth = e.get("nth")
        if cnt == 0:
            return f"edit does not apply: {e['old']!r} not in {e['file']}"
        if nth is None:
            if cnt != 1:
                return f"edit ambiguous: {e['old']!r} occurs {cnt}x in {e['file']} (give nth)"
            s = s.replace(e["old"], e["new"])
        elif nth == "all":
            s = s.replace(e["old"], e["new"])
        else:
            pos = -1
            for _ in range(nth + 1):
                pos = s.find(e["old"], pos + 1)
                if pos < 0:
                    return f"edit nth={nth} out of range in {e['file']}"
            s = s[:pos] + e["new"] + s[pos + len(e["old"]):]
        f.write_text(s)
    return None


def run_variant(v):
    tmp = Path(tempfile.mkdtemp(prefix="hdcvar_"))
    try:
        shutil.copytree(REPO / "hdc", tmp / "hdc", ignore=shutil.ignore_patterns("__pycache__"))
        err = apply_edit(tmp, v)
        if err:
            return v, "BROKEN", err
        # the variant must still be valid Python
        for e in ([] if v.get("patch") else (v.get("edits") or [v])):
            try:
                compile((tmp / e["file"]).read_text(), e["file"], "exec")
            except SyntaxError as exc:
                return v, "BROKEN", f"variant does not compile: {exc}"
        env = dict(os.environ, HDC_REPO=str(tmp), VERIF_EVIDENCE_DIR=str(tmp / "ev"))
        props = v["prop"] if isinstance(v["prop"], list) else [v["prop"]]
        outs = []
        status = "OK"
        for pid in props:
            r = subprocess.run([str(VERIF / "check"), pid, "--repo", str(tmp)], env=env,
                               capture_output=True, text=True, timeout=600)
            outs.append(r.stdout + r.stderr)
            if v["expect"] == "fire":
                if r.returncode == 0:
                    status = "SELFTEST-MISS"
                elif r.returncode == 2 and not v.get("allow_error"):
                    status = "SELFTEST-ERROR"
                elif v.get("names") and v["names"] not in r.stdout:
                    status = "SELFTEST-MISNAMED"
            else:
                if r.returncode != 0:
                    status = "SELFTEST-FALSE-ALARM"
        return v, status, "\n".join(outs)
    finally:
        shutil.rmtree(tmp, ignore_errors=True)


def main():
    ap = argparse.ArgumentParser()
    ap.add_argument("--prop")
    ap.add_argument("--only")
    ap.add_argument("--jobs", type=int, default=16)
    ap.add_argument("-v", action="store_true")
    a = ap.parse_args()
    corpus = load_corpus()
    if a.prop:
        corpus = [v for v in corpus if a.prop in (v["prop"] if isinstance(v["prop"], list) else [v["prop"]])]
        corpus = [dict(v, prop=[a.prop]) if isinstance(v["prop"], list) else v for v in corpus]
    if a.only:
        corpus = [v for v in corpus if a.only in v["id"]]
    bad = 0
    with cf.ThreadPoolExecutor(a.jobs) as ex:
        for v, status, out in ex.map(run_variant, corpus):
            if status != "OK":
                bad += 1
                print(f"{status} {v['id']} (expect {v['expect']}): {v.get('note', '')}")
                print("    " + "\n    ".join(out.strip().splitlines()[-8:]))
            elif a.v:
                print(f"ok   {v['id']} ({v['expect']})")
    print(f"selftest: {len(corpus)} variants, {bad} unexpected")
    return 2 if bad else 0


if __name__ == "__main__":
    sys.exit(main())

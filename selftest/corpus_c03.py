G = "hdc/algo/ops/ws2dgu.py"
P = "hdc/algo/ops/ws2dpgu.py"
A = "hdc/algo/accessors.py"


def v(id, file, old, new, expect="fire", note="", nth=None, names=None, **kw):
    d = dict(id=id, prop="C03", file=file, old=old, new=new, expect=expect, note=note, nth=nth, **kw)
    if names:
        d["names"] = names
    return d


VARIANTS = [
    v("c03-range", P, "for _ in range(10):", "for _ in range(5):", names="ws2dpgu"),
    v("c03-swap-p", P, "                wa[envelope] = p\n                wa[~envelope] = p1\n", "                wa[envelope] = p1\n                wa[~envelope] = p\n", names="ws2dpgu"),
    v("c03-ge", P, "envelope = y > z", "envelope = y >= z", names="ws2dpgu"),
    v("c03-start-y", P, "            z = np.zeros(m)\n            znew", "            z = y.copy()\n            znew", names="ws2dpgu"),
    v("c03-truncate", G, "            np.round(z, 0, out)\n", "            out[:] = z\n", names="ws2dgu"),
    v("c03-floor", G, "            np.round(z, 0, out)\n", "            np.floor(z, out)\n", names="ws2dgu"),
    v("c03-10sg", A, "lmda = 10**sg if sg is not None else s", "lmda = 10 * sg if sg is not None else s", names="whits"),
    v("c03-inverted", A, "lmda = 10**sg if sg is not None else s", "lmda = s if sg is not None else 10**sg", names="whits"),
    v("c03-args", A, "                ops.ws2dpgu,\n                self._obj,\n                lmda,\n                nodata,\n                p,", "                ops.ws2dpgu,\n                self._obj,\n                lmda,\n                p,\n                nodata,", names="R-BIND"),
    v("c03-unmasked", P, "                ww = w * wa\n", "                ww = wa\n", names="ws2dpgu"),
    v("c03-no-final", P, "            z = ws2d(y, lmda, ww)\n            np.round(z, 0, out)", "            np.round(z, 0, out)", names="ws2dpgu"),
    v("c03-tol", P, "                if z_tmp == 0.0:", "                if z_tmp < 1.0:", names="ws2dpgu"),
    v("c03-lmda0", G, "    if lmda != 0.0:", "    if lmda > 1.0:", names="ws2dgu"),
    v("c03-n1", G, "        if n > 1:", "        if n > 0:", names="ws2dgu"),
    v("c03-carry-before", P, "                z_tmp = np.sum(np.abs(znew - z))\n                if z_tmp == 0.0:\n                    break\n\n                z[:] = znew[:]\n",
      "                z[:] = znew[:]\n                z_tmp = np.sum(np.abs(znew - z))\n                if z_tmp == 0.0:\n                    break\n", names="ws2dpgu"),
    v("c03-weight-sq", G, "            z = ws2d(y, lmda, w)\n", "            z = ws2d(y, lmda, w * 2)\n", names="ws2dgu", allow_error=True),
    v("c03-select", A, "        if p is not None:\n            xout = xarray.apply_ufunc(\n                ops.ws2dpgu,", "        if p:\n            xout = xarray.apply_ufunc(\n                ops.ws2dpgu,", names="whits", note="p = 0 handling differs: spec says p given"),
    # twins
    v("c03-twin-p1", P, "                wa[~envelope] = p1\n", "                wa[~envelope] = 1 - p\n", expect="silent"),
    v("c03-twin-cmp", P, "envelope = y > z", "envelope = z < y", expect="silent"),
    v("c03-twin-lam", A, "lmda = 10**sg if sg is not None else s", "lmda = s if sg is None else 10.0**sg", expect="silent"),
    v("c03-twin-neq", G, "    if lmda != 0.0:", "    if lmda != 0:", expect="silent"),
]

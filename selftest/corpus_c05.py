W = "hdc/algo/ops/ws2dwcv.py"
WP = "hdc/algo/ops/ws2dwcvp.py"
A = "hdc/algo/accessors.py"


def v(id, file, old, new, expect="fire", note="", nth=None, names=None, **kw):
    d = dict(id=id, prop="C05", file=file, old=old, new=new, expect=expect, note=note, nth=nth, **kw)
    if names:
        d["names"] = names
    return d


VARIANTS = [
    dict(id="c05-revert-D4", prop="C05", patch="reverts/D4.patch", expect="fire", names="R-DIVGUARD"),
    dict(id="c05-revert-D2", prop="C05", edits=[
        dict(file=W, old="r_sel = r_arr[(r_weights != 0) & (w != 0)]", new="r_sel = r_arr[r_weights != 0]"),
        dict(file=WP, old="r_sel = r_arr[(r_weights != 0) & (w != 0)]", new="r_sel = r_arr[r_weights != 0]", nth="all")], expect="fire", names="R-MASK"),
    v("c05-mad-guard-one", WP, "                if mad > 0:\n", "                if mad >= 0:\n", names="R-DIVGUARD"),
    v("c05-range", W, "lambda_range = 10**llas", "lambda_range = llas", names="ws2dwcv"),
    v("c05-flip", W, "if gcv[0] < gcv_temp[0]:", "if gcv[0] > gcv_temp[0]:", names="ws2dwcv"),
    v("c05-curve-not-updated", W, "                    gcv_temp = gcv\n                    y_temp = z\n", "                    gcv_temp = gcv\n", names="ws2dwcv", allow_error=True),
    v("c05-default-srange", A, "srange = np.arange(-1.8, 4.2, 0.2)\n", "srange = np.arange(-1.8, 4.0, 0.2)\n", names="whitswcv"),
    v("c05-score-den", W, "denominator = w_temp.sum() * (1 - (tr_H / (w_temp.sum()))) ** 2", "denominator = w_temp.sum() * (1 - (tr_H / (w_temp.sum())))", names="ws2dwcv"),
    v("c05-unmasked-band", W, "            robust_weights = w * r_weights\n", "            robust_weights = r_weights\n", names="ws2dwcv"),
    v("c05-bisquare", WP, "r_weights = (1 - (u_arr / 4.685) ** 2) ** 2", "r_weights = (1 - (u_arr / 4.685) ** 2)", nth=0, names="ws2dwcvp"),
    v("c05-lopt-index", W, "            lopt[0] = robust_gcv[1, 1]\n", "            lopt[0] = robust_gcv[1, 0]\n", names="ws2dwcv"),
    v("c05-eigs", W, "d_eigs = -2 + 2 * np.cos(np.arange(m) * np.pi / m)", "d_eigs = -2 + 2 * np.cos(np.arange(m) * np.pi / (m - 1))", names="ws2dwcv"),
    v("c05-robust-default", A, "        robust: bool = True,\n    ) -> xarray.Dataset:", "        robust: bool = False,\n    ) -> xarray.Dataset:", names="whitswcv"),
    v("c05-helper-guard", WP, "            gamma = w_temp / (w_temp + s * ((-1 * d_eigs) ** 2))\n            r_arr = y - y_temp\n\n            # residuals of valid cells only: masked cells hold placeholders\n            r_sel = r_arr[(r_weights != 0) & (w != 0)]\n            mad = np.median(np.abs(r_sel - np.median(r_sel)))\n            # a zero MAD (more than half of the residuals equal) carries no\n            # scale information: keep the current weights instead of dividing by it\n            if mad > 0:\n",
      "            gamma = w_temp / (w_temp + s * ((-1 * d_eigs) ** 2))\n            r_arr = y - y_temp\n\n            r_sel = r_arr[(r_weights != 0) & (w != 0)]\n            mad = np.median(np.abs(r_sel - np.median(r_sel)))\n            if True:\n", names="_ws2dwcvp", allow_error=True),
    v("c05-p-band-final", WP, "        z = ws2d(y, lopt[0], ww)\n        np.round(z, 0, out)", "        z = ws2d(y, lopt[0], robust_weights)\n        np.round(z, 0, out)", names="ws2dwcvp"),
    v("c05-wsse-unweighted", W, "wsse = (((w_temp**0.5) * (y - z)) ** 2).sum()", "wsse = ((y - z) ** 2).sum()", names="ws2dwcv"),
    # twins
    v("c05-twin-mad", W, "                if mad > 0:\n", "                if mad > 0.0:\n", expect="silent"),
    v("c05-twin-wsse", W, "wsse = (((w_temp**0.5) * (y - z)) ** 2).sum()", "wsse = (w_temp * (y - z) ** 2).sum()", expect="silent"),
    v("c05-twin-le", W, "if gcv[0] < gcv_temp[0]:", "if gcv[0] <= gcv_temp[0]:", expect="silent"),
]

VARIANTS += [
    v("c05-p-half", A, "        if p:\n            if srange is None:\n                srange = np.arange(-1.8, 4.2, 0.2, dtype=np.float64)", "        if p and p != 0.5:\n            if srange is None:\n                srange = np.arange(-1.8, 4.2, 0.2, dtype=np.float64)", names="kernel selection"),
]

VARIANTS += [
    v("c05-early-break", W, "                if gcv[0] < gcv_temp[0]:\n                    gcv_temp = gcv\n                    y_temp = z\n", "                if gcv[0] < gcv_temp[0]:\n                    gcv_temp = gcv\n                    y_temp = z\n                elif it == 0 and gcv[0] > 1.5 * gcv_temp[0]:\n                    break\n", names="R-ARGMIN", note="seeded C05a"),
]

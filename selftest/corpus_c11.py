F = "hdc/algo/dekad.py"
A = "hdc/algo/accessors.py"


def v(id, old, new, expect="fire", note="", nth=None, file=F, names=None):
    d = dict(id=id, prop="C11", file=file, old=old, new=new, expect=expect, note=note, nth=nth)
    if names:
        d["names"] = names
    return d


VARIANTS = [
    v("c11-day-floor", "min(2, (d.day - 1) // 10)", "min(2, d.day // 10)", names="__init__"),
    v("c11-min-dropped", "min(2, (d.day - 1) // 10)", "(d.day - 1) // 10", names="__init__"),
    v("c11-mod12", "return 1 + (self._dkd % 36) // 3", "return 1 + (self._dkd % 12) // 3", names="month"),
    v("c11-idx", "return 1 + (self._dkd % 3)\n", "return 1 + (self._dkd % 4)\n", names="idx"),
    v("c11-day", "return 1 + (self._dkd % 3) * 10", "return (self._dkd % 3) * 10", names="day"),
    v("c11-lt-le", "return self._dkd < other._dkd", "return self._dkd <= other._dkd", names="__lt__"),
    v("c11-ge-gt", "return self._dkd >= other._dkd", "return self._dkd > other._dkd", names="__ge__"),
    v("c11-hash", "return hash(self._dkd)", "return hash(str(self))", names="__hash__"),
    v("c11-seconds", "return (self + 1).start_date - timedelta(microseconds=1)", "return (self + 1).start_date - timedelta(seconds=1)", names="end_date"),
    v("c11-slice", "int(dekad[4:6])", "int(dekad[4:5])", names="__init__"),
    v("c11-ndays-acc", "self._period_cls(x).ndays", "self._period_cls(x).idx", file=A, names="Period.ndays"),
    v("c11-sub", "return Dekad(self._dkd - other)", "return Dekad(self._dkd - other - 1)", names="__sub__"),
    v("c11-radd", "        return Dekad(self._dkd + n)\n\n    def __add__", "        return Dekad(n - self._dkd)\n\n    def __add__", names="__radd__"),
    v("c11-year-fmt", "{self.year:04d}", "{self.year:d}", names="__str__"),
    v("c11-coerce", "    def __le__(self, other: Union[str, int, datetime, date, \"Dekad\"]) -> bool:\n        \"\"\"Check for less than or equal inequality with other Dekad, string or int.\"\"\"\n        if isinstance(other, (str, int, datetime, date)):",
      "    def __le__(self, other: Union[str, int, datetime, date, \"Dekad\"]) -> bool:\n        \"\"\"Check for less than or equal inequality with other Dekad, string or int.\"\"\"\n        if isinstance(other, (str, int)):", names="__le__"),
    v("c11-yidx", "return 3 * (self.month - 1) + self.idx", "return 3 * self.month + self.idx", names="yidx"),
    v("c11-linspace", "return self.yidx - 1", "return self.yidx", file=A, names="linspace"),
    v("c11-enc-str", "self._dkd = 36 * year + 3 * (month - 1) + (idx - 1)", "self._dkd = 36 * year + 3 * month + (idx - 1)", names="__init__"),
    # silent twins
    v("c11-twin-month", "return 1 + (self._dkd % 36) // 3", "return (self._dkd // 3) % 12 + 1", expect="silent"),
    v("c11-twin-cmp", "return self._dkd > other._dkd", "return other._dkd < self._dkd", expect="silent"),
    v("c11-twin-enc", "self._dkd = 36 * year + 3 * (month - 1) + (idx - 1)", "self._dkd = 36 * year + 3 * month + idx - 4", expect="silent"),
    v("c11-twin-yidx", "return 3 * (self.month - 1) + self.idx", "return self._dkd % 36 + 1", expect="silent"),
    v("c11-twin-day", "return 1 + (self._dkd % 3) * 10", "return 10 * self.idx - 9", expect="silent"),
]

VARIANTS += [
    v("c11-ndays-table", "        return (self.end_date - self.start_date + timedelta(microseconds=1)).days\n",
      "        if self.idx < 3:\n            return 10\n        if self.month == 2:\n            return 9 if self.year % 4 == 0 else 8\n        return 11 if self.month in (1, 3, 5, 7, 8, 10, 12) else 10\n", names="ndays", note="seeded C11a: Julian leap rule in a closed-form table"),
]

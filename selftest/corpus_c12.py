A = "hdc/algo/accessors.py"
H = "hdc/algo/ops/_helper.py"
LC = "hdc/algo/ops/ws2doptvplc.py"
S = "hdc/algo/ops/stats.py"
Z = "hdc/algo/ops/zonal.py"
G = "hdc/algo/ops/ws2dgu.py"


def v(id, file, old, new, expect="fire", note="", nth=None, names=None, **kw):
    d = dict(id=id, prop="C12", file=file, old=old, new=new, expect=expect, note=note, nth=nth, **kw)
    if names:
        d["names"] = names
    return d


VARIANTS = [
    dict(id="c12-revert-D7", prop="C12", patch="reverts/D7.patch", expect="fire", names="R-DTYPE-DECL"),
    v("c12-hoist-scratch", LC, "    for rr in numba.prange(nr):  # pylint: disable=not-an-iterable\n        # needs to be here so that each thread gets it's own version\n        xx_raw = np.zeros(nt, dtype=tyx.dtype)\n        xx = np.zeros(nt, dtype=float64)\n        ww = np.zeros(nt, dtype=float64)\n",
      "    xx_raw = np.zeros(nt, dtype=tyx.dtype)\n    xx = np.zeros(nt, dtype=float64)\n    ww = np.zeros(nt, dtype=float64)\n    for rr in numba.prange(nr):  # pylint: disable=not-an-iterable\n", names="R-PRANGE"),
    v("c12-allow-rechunk", A, '            dask="parallelized",\n            output_dtypes=["uint8"],', '            dask="parallelized",\n            dask_gufunc_kwargs={"allow_rechunk": True},\n            output_dtypes=["uint8"],', names="allow_rechunk"),
    v("c12-no-rechunk", A, "                if len(xx.chunks[0]) != 1:\n                    xx = xx.chunk({\"time\": -1})\n", "", names="R-CHUNK"),
    v("c12-reset-cell", H, "            return inner_decorated(*args, **kwds)\n", "            result = inner_decorated(*args, **kwds)\n            inner_decorated = None\n            return result\n", names="R-PUBLISH"),
    v("c12-decl-u16", A, 'output_dtypes=["uint8"],', 'output_dtypes=["uint16"],', names="R-DTYPE-DECL"),
    v("c12-write-input", G, "            z = ws2d(y, lmda, w)\n", "            y[0] = y[1]\n            z = ws2d(y, lmda, w)\n", names="R-READONLY", note="y was rebound to a copy on this path: in-place write after the rebind is on the copy", expect="silent"),
    v("c12-write-input2", S, "    n = xx.size\n    yy[:] = 0\n", "    n = xx.size\n    yy[:] = 0\n    xx[0] = 0\n", names="R-READONLY"),
    v("c12-module-state", Z, "    t, nr, nc = pixels.shape\n", "    t, nr, nc = pixels.shape\n    last = _LAST[0]\n", names="R-PURE"),
    v("c12-carry-trend", S, "            trend = 0\n            if h:\n                if z > 0:", "            if h:\n                trend = 0\n                if z > 0:", names="R-LOOPCARRY", note="flag of the previous pixel leaks when h is false"),
    v("c12-dask-forbidden", A, '                dask="parallelized",\n                keep_attrs=True,\n            )\n\n        else:\n            xout', '                dask="allowed",\n                keep_attrs=True,\n            )\n\n        else:\n            xout', names="parallelized"),
    v("c12-core-dim", A, 'input_core_dims=[["time"], [], []],\n                output_core_dims=[["time"]],\n                dask="parallelized",\n                keep_attrs=True,\n            )\n\n        return xout',
      'input_core_dims=[["y"], [], []],\n                output_core_dims=[["y"]],\n                dask="parallelized",\n                keep_attrs=True,\n            )\n\n        return xout', names="R-CHUNK"),
    v("c12-partial-scratch", LC, "            for i in range(nt):\n                v = xx_raw[i]\n                if v == nodata:\n                    xx[i] = 0  # really should be nan, but ws2d doesn't like them\n                    ww[i] = 0\n",
      "            for i in range(nt):\n                v = xx_raw[i]\n                if v == nodata:\n                    ww[i] = 0\n", names="R-LOOPCARRY", note="xx keeps the previous pixel's value at masked cells"),
    v("c12-twin-wraps", H, "    def _lazycompile(f):\n        inner_decorated = None\n", "    def _lazycompile(f):\n        # filled on first use\n        inner_decorated = None\n", expect="silent"),
]

VARIANTS += [
    v("c12-token-name", A, 'dask_name = f"{name}-{tokenize(xx.data, zones.data, dtype)}"', 'dask_name = f"{name}-{tokenize(xx.data, zones.name, dtype)}"', names="R-TOKEN", note="seeded C12a"),
]

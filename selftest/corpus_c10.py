S = "hdc/algo/ops/stats.py"
A = "hdc/algo/accessors.py"


def v(id, old, new, expect="fire", note="", nth=None, names=None, file=S, **kw):
    d = dict(id=id, prop="C10", file=file, old=old, new=new, expect=expect, note=note, nth=nth, **kw)
    if names:
        d["names"] = names
    return d


VARIANTS = [
    v("c10-z-swap", "        return (s - 1) / sqrt(vs)\n", "        return (s + 1) / sqrt(vs)\n", names="mk_z_score"),
    v("c10-var-9", "    return ((n * (n - 1) * (2 * n + 5)) - tp) / 18", "    return ((n * (n - 1) * (2 * n + 5)) - tp) / 9", names="mk_variance_s"),
    v("c10-tie-term", "tp += _tp * (_tp - 1) * (2 * _tp + 5)", "tp += _tp * (_tp - 1) * (2 * _tp - 5)", names="mk_variance_s"),
    v("c10-pairs", "        for kk in range(k + 1, n):\n            if x[kk] > x[k]:", "        for kk in range(k, n):\n            if x[kk] > x[k]:", names="mk_score"),
    v("c10-ge", "            if x[kk] > x[k]:\n                _s1 += 1", "            if x[kk] >= x[k]:\n                _s1 += 1", names="mk_score"),
    v("c10-alpha", "sc.ndtri(1 - alpha / 2)", "sc.ndtri(1 - alpha)", names="mk_p_value"),
    v("c10-trend-both", "    elif z < 0:\n        trend = -1\n", "    elif z < 0:\n        trend = 1\n", names="mann_kendall_trend_1d"),
    v("c10-nd-flag", "        trend[0] = -2\n", "        trend[0] = 0\n", names="_mann_kendall_trend_gu_nd"),
    v("c10-tau-den", "tau = s / (0.5 * n * (n - 1))", "tau = s / (0.5 * n * (n + 1))", names="mk_score"),
    v("c10-slope-den", "/ (j - i)", "/ (j - i + 1)", names="mk_sens_slope"),
    v("c10-value-use", "            if x[kk] > x[k]:\n                _s1 += 1", "            if x[kk] > x[k] + 1:\n                _s1 += 1", names="mk_score", note="no longer invariant under monotone maps"),
    v("c10-yxt-flag", "                if z < 0:\n                    trend = -1", "                if z < 0:\n                    trend = 0", names="mann_kendall_trend_yxt"),
    v("c10-decl", 'output_dtypes=["float32", "float32", "float32", "int8"],\n                dask="parallelized",\n                keep_attrs=True,\n            )\n        else:',
      'output_dtypes=["float32", "float32", "float32", "int16"],\n                dask="parallelized",\n                keep_attrs=True,\n            )\n        else:', file=A, names="R-DTYPE-DECL"),
    v("c10-names", '["tau", "pvalue", "slope", "trend"]', '["tau", "slope", "pvalue", "trend"]', file=A, names="mktrend"),
    v("c10-p-onesided", "p = 2 * (1 - (0.5 * (1.0 + erf(abs(z) * sqrt(0.5)))))", "p = (1 - (0.5 * (1.0 + erf(abs(z) * sqrt(0.5)))))", names="mk_p_value"),
    v("c10-nd-order", "        tau[0], p[0], slope[0], trend[0] = mann_kendall_trend_1d(x)\n\n    else:", "        p[0], tau[0], slope[0], trend[0] = mann_kendall_trend_1d(x)\n\n    else:", names="_mann_kendall_trend_gu_nd"),
    v("c10-default-alpha", "def mk_p_value(z, alpha=0.05):", "def mk_p_value(z, alpha=0.1):", names="mk_p_value"),
    # twins
    v("c10-twin-tau", "tau = s / (0.5 * n * (n - 1))", "tau = 2 * s / (n * (n - 1))", expect="silent"),
    v("c10-twin-p", "p = 2 * (1 - (0.5 * (1.0 + erf(abs(z) * sqrt(0.5)))))", "p = 1.0 - erf(abs(z) * sqrt(0.5))", expect="silent"),
    v("c10-twin-cmp", "            if x[kk] < x[k]:\n                _s2 += 1", "            if x[k] > x[kk]:\n                _s2 += 1", expect="silent"),
    v("c10-twin-var", "        return (n * (n - 1) * (2 * n + 5)) / 18\n", "        return n * (n - 1) * (2 * n + 5) / 18.0\n", expect="silent"),
]

VARIANTS += [
    v("c10-dispatch-truthy", 'nodata = self._obj.attrs.get("nodata", None)\n        if nodata is None:\n            warn("Calculating trend',
      'nodata = self._obj.attrs.get("nodata", None)\n        if not nodata:\n            warn("Calculating trend', file=A, names="mktrend", note="nodata = 0 goes to the kernel without nodata handling"),
    v("c10-twin-getnodata", 'nodata = self._obj.attrs.get("nodata", None)\n        if nodata is None:\n            warn("Calculating trend',
      'nodata = self._obj.attrs.get("nodata")\n        if nodata is None:\n            warn("Calculating trend', file=A, expect="silent"),
]

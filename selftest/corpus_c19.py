A = "hdc/algo/accessors.py"


def v(id, old, new, expect="fire", note="", nth=None, names="_iteragg"):
    d = dict(id=id, prop="C19", file=A, old=old, new=new, expect=expect, note=note, nth=nth)
    if expect == "fire":
        d["names"] = names
    return d


VARIANTS = [
    dict(id="c19-revert-D15", prop="C19", patch="reverts/D15.patch", expect="fire", names="R-APISENTINEL",
         note="original tree: get_indexer sentinel unchecked"),
    v("c19-plus1", "_index.get_indexer([begin], method=method) + 1", "_index.get_indexer([begin], method=method)",
      note="also makes the sentinel test wrong"),
    v("c19-stop", "if ii <= end_ix:", "if ii < end_ix:"),
    v("c19-jj", "if jj >= 0 and (ii - jj) == n:", "if jj > 0 and (ii - jj) == n:"),
    v("c19-stop-label", '"agg_stop": str(_index[ii - 1])', '"agg_stop": str(_index[ii])'),
    v("c19-reducers", "yield from self._iteragg(np.nansum, n, dim, begin, end, method)", "yield from self._iteragg(np.nanmean, n, dim, begin, end, method)", names="sum"),
    v("c19-nan", "yield from self._iteragg(np.nanmean, n, dim, begin, end, method)", "yield from self._iteragg(np.mean, n, dim, begin, end, method)", names="mean"),
    v("c19-end-sentinel", "            if end_ix == -1:\n", "            if end_ix == -2:\n"),
    v("c19-begin-sentinel-only-warn", "            if begin_ix == 0:\n                raise ValueError(", "            if begin_ix == 0:\n                warn(", note="failing arm no longer raises"),
    v("c19-stamp", "self._obj.time[ii - 1].values", "self._obj.time[jj].values"),
    v("c19-range", "for ii in range(begin_ix, 0, -1):", "for ii in range(begin_ix, 1, -1):"),
    v("c19-default-end", "            end_ix = 0\n", "            end_ix = 1\n"),
    v("c19-slice", "region = {dim: slice(jj, ii)}", "region = {dim: slice(jj, ii - 1)}"),
    v("c19-swap-args", "yield from self._iteragg(None, n, dim, begin, end, method)", "yield from self._iteragg(None, n, dim, end, begin, method)", names="full"),
    # twins
    v("c19-twin-lt", "            if begin_ix == 0:\n", "            if begin_ix < 1:\n", expect="silent"),
    v("c19-twin-stop", "if ii <= end_ix:", "if end_ix >= ii:", expect="silent"),
    v("c19-twin-jj", "if jj >= 0 and (ii - jj) == n:", "if ii >= n:", expect="silent"),
    v("c19-twin-neg", "            if end_ix == -1:\n", "            if end_ix < 0:\n", expect="silent"),
]

VARIANTS += [
    v("c19-begin-truthy", "        if begin is not None:\n            try:", "        if begin:\n            try:", note="label 0 of a numeric axis is treated as not given"),
    v("c19-end-truthy", "        if end is not None:\n            try:", "        if end:\n            try:"),
]

# batch 10 (two cooperating sites): an axis position is never tested for truth
VARIANTS += [
    v("c19-position-truthy", "        for ii in range(begin_ix, 0, -1):", "        end_ix = end_ix or 1\n        for ii in range(begin_ix, 0, -1):",
      note="position 0 (the first step) replaced by a default", names="R-TRUTHY"),
    v("c19-position-not", "            if ii <= end_ix:", "            if not end_ix or ii <= end_ix:", names="R-TRUTHY"),
]

D = "hdc/algo/ops/ws2d.py"
V = "hdc/algo/ops/ws2doptv.py"
W = "hdc/algo/ops/ws2dwcv.py"


def v(id, file, old, new, expect="fire", note="", nth=None, names=None, **kw):
    d = dict(id=id, prop="C06", file=file, old=old, new=new, expect=expect, note=note, nth=nth, **kw)
    if names:
        d["names"] = names
    return d


VARIANTS = [
    v("c06-boundary", D, "d[1] = w[1] + 5 * lmda", "d[1] = w[1] + 6 * lmda", names="R-BAND"),
    v("c06-last", D, "d[m] = w[m] + lmda -", "d[m] = w[m] + 2 * lmda -", names="R-BAND"),
    v("c06-off1", D, "c[m - 1] = (-2 * lmda", "c[m - 1] = (-4 * lmda", names="R-BAND"),
    v("c06-raw-y", V, "fits[lix] += pow(w_tmp * (y_tmp - z_tmp), 2)", "fits[lix] += pow(w_tmp * (y_tmp - z_tmp), 2) + 1e-9 * y_tmp", names="R-USESHAPE", allow_error=True),
    v("c06-raw-y-gcv", W, "wsse = (((w_temp**0.5) * (y - z)) ** 2).sum()", "wsse = (((w_temp**0.5) * (y - z)) ** 2).sum() + 1e-12 * (w_temp * y).sum()", names="R-USESHAPE", allow_error=True),
    v("c06-pens-short", V, "            for i in range(m2):\n                z_tmp = diff1[i]", "            for i in range(m2 - 1):\n                z_tmp = diff1[i]", names="R-REVERSAL"),
    v("c06-fits-half", V, "            for i in range(m):\n                w_tmp = w[i]", "            for i in range(m // 2):\n                w_tmp = w[i]", names="R-REVERSAL", allow_error=True),
    v("c06-weight-2", D, "    d[0] = w[0] + lmda\n", "    d[0] = 2 * w[0] + lmda\n", names="R-BAND"),
    v("c06-twin", D, "d[1] = w[1] + 5 * lmda - d[0] * (c[0] * c[0])", "d[1] = 5 * lmda + w[1] - c[0] ** 2 * d[0]", expect="silent"),
    v("c06-twin-res", V, "fits[lix] += pow(w_tmp * (y_tmp - z_tmp), 2)", "fits[lix] += pow(w_tmp * (z_tmp - y_tmp), 2)", expect="silent"),
]

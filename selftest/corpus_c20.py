F = "hdc/algo/ops/tinterpolate.py"
A = "hdc/algo/accessors.py"


def v(id, old, new, expect="fire", note="", nth=None, names=None, file=F, **kw):
    d = dict(id=id, prop="C20", file=file, old=old, new=new, expect=expect, note=note, nth=nth, **kw)
    if names:
        d["names"] = names
    return d


VARIANTS = [
    v("c20-write-template", "    temp = template.copy()\n", "    temp = template\n", names="R-READONLY"),
    v("c20-lambda", "ws2d(temp, 0.00001, w)", "ws2d(temp, 0.0001, w)", names="tinterpolate"),
    v("c20-w-temp", "ws2d(temp, 0.00001, w)", "ws2d(temp, 0.00001, temp)", names="tinterpolate"),
    v("c20-no-flush", "\n    out[kk] = round(v / jj)\n", "\n", nth=0, names="tinterpolate", note="final flush removed"),
    v("c20-int", "            out[kk] = round(v / jj)\n", "            out[kk] = int(v / jj)\n", names="tinterpolate"),
    v("c20-reset", "            jj = 1\n            v = z[ii]\n", "            jj = 1\n            v = 0.0\n", names="tinterpolate"),
    v("c20-jj-reset0", "            kk += 1\n            jj = 1\n", "            kk += 1\n            jj = 0\n", names="tinterpolate"),
    v("c20-prev", "        if ll == labels[ii - 1]:", "        if ll == labels[ii]:", names="tinterpolate"),
    v("c20-cursor", "        if tt != 0:\n            temp[ii] = x[jj]\n            jj += 1\n        ii += 1", "        if tt != 0:\n            temp[ii] = x[jj]\n            jj += 1\n            ii += 1", names="tinterpolate"),
    v("c20-int16", '        if self._obj.dtype != "int16":\n            raise NotImplementedError(\n                "Temporal interpolation works currently only with int16 input!"\n            )\n\n', "", file=A, names="whitint"),
    v("c20-size", 'np.zeros(np.unique(labels_daily).size, dtype="u1")', 'np.zeros(labels_daily.size, dtype="u1")', file=A, names="whitint"),
    v("c20-args", "            template,\n            labels_daily,\n            template_out,\n            input_core_dims", "            labels_daily,\n            template,\n            template_out,\n            input_core_dims", file=A, names="R-BIND"),
    v("c20-write-labels", "    ii = 1\n    jj = 1\n    kk = 0\n", "    ii = 1\n    jj = 1\n    kk = 0\n    labels[0] = labels[1]\n", names="R-READONLY"),
    # twins
    v("c20-twin-lambda", "ws2d(temp, 0.00001, w)", "ws2d(temp, 1e-5, w)", expect="silent"),
    # (c20-twin-w `w = np.copy(template)` removed: the module does not import numpy, the variant does not type under Numba - not a twin)
]

VARIANTS += [
    v("c20-contig-template", "[(int16[:], float64[:], int32[:], uint8[:], int16[:])]", "[(int16[:], float64[::1], int32[:], uint8[:], int16[:])]", names="R-LAYOUT",
      note="a strided template view is read as if packed"),
]

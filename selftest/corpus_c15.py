F = "hdc/algo/ops/autocorr.py"
A = "hdc/algo/accessors.py"


def v(id, old, new, expect="fire", note="", nth=None, names=None, file=F, **kw):
    d = dict(id=id, prop="C15", file=file, old=old, new=new, expect=expect, note=note, nth=nth, **kw)
    if names:
        d["names"] = names
    return d


FIXED_INT = ('''    A = nxy * float64(Sxy) - float64(Sx_) * float64(Sy_)
''', '''    mx = float64(Sx) / nx
    my = float64(Sy) / ny
    A = (float64(Sxy) - mx * float64(Sy_) - my * float64(Sx_) + nxy * mx * my) * (nx * ny) / N
''')
FIXED_FLOAT = ('''    A = nxy * Sxy - Sx_ * Sy_
''', '''    mx = Sx / nx
    my = Sy / ny
    A = (Sxy - mx * Sy_ - my * Sx_ + nxy * mx * my) * (nx * ny) / N
''')

VARIANTS = [
    v("c15-wrong-guard", "        if y != nodata:\n            Sy += y\n            Syy += y * y\n            ny += 1", "        if y != nodata:\n            Sy += y\n            Syy += y * y\n        if x != nodata:\n            ny += 1", names="autocorr_1d_int"),
    v("c15-nx-ny", "    var_X = var_X * nx / N\n    var_Y = var_Y * ny / N\n\n    if var_X < 1e-8 or var_Y < 1e-8:\n        return result\n\n    result = A * (var_X**-0.5) * (var_Y**-0.5)\n    return result\n\n\n@njit\ndef autocorr_1d(",
      "    var_X = var_X * ny / N\n    var_Y = var_Y * nx / N\n\n    if var_X < 1e-8 or var_Y < 1e-8:\n        return result\n\n    result = A * (var_X**-0.5) * (var_Y**-0.5)\n    return result\n\n\n@njit\ndef autocorr_1d(", names="autocorr_1d_int",
      note="a different wrong formula than the known finding must be reported"),
    v("c15-sign", "    A = nxy * Sxy - Sx_ * Sy_\n", "    A = Sx_ * Sy_ - nxy * Sxy\n", names="autocorr_1d_float"),
    v("c15-drift", "            Sxx += x * x\n            nx += 1\n\n        if y_ok:", "            Sxx += x * x * 1.0001\n            nx += 1\n\n        if y_ok:", names="autocorr_1d_float"),
    v("c15-layout", "data = tyx[:, rr, cc]", "data = tyx[:, cc, rr]", names="autocorr_tyx"),
    v("c15-nxy-guard", "    if nxy == 0:\n        return result\n\n    A = nxy * float64(Sxy)", "    A = nxy * float64(Sxy)", names="autocorr_1d_int"),
    v("c15-var-guard", "    if var_X < 1e-8 or var_Y < 1e-8:\n        return result\n\n    result = A * (var_X**-0.5) * (var_Y**-0.5)\n    return result\n\n\n@njit\ndef autocorr_1d_int", "    result = A * (var_X**-0.5) * (var_Y**-0.5)\n    return result\n\n\n@njit\ndef autocorr_1d_int", names="autocorr_1d_float"),
    v("c15-dispatch", "    if nodata is None:\n        result = autocorr_1d_float(data)", "    if nodata is not None:\n        result = autocorr_1d_float(data)", names="autocorr_1d"),
    v("c15-decl", 'output_dtypes=["float32"],\n        )\n\n    def mktrend', 'output_dtypes=["float64"],\n        )\n\n    def mktrend', file=A, names="R-DTYPE-DECL"),
    v("c15-yy", "    yy = data[1:]\n\n    N = xx.shape[0]\n\n    #   ((X - X.mean())", "    yy = data[2:]\n\n    N = xx.shape[0]\n\n    #   ((X - X.mean())", names="autocorr_1d_int", allow_error=True),
    # repaired formula: the known finding disappears and nothing fires
    dict(id="c15-twin-repaired", prop="C15", expect="silent", edits=[dict(file=F, old=FIXED_INT[0], new=FIXED_INT[1]), dict(file=F, old=FIXED_FLOAT[0], new=FIXED_FLOAT[1])]),
    v("c15-twin-sq", "            Sxx += x * x\n            nx += 1\n\n        if y_ok:", "            Sxx += x**2\n            nx += 1\n\n        if y_ok:", expect="silent"),
]

VARIANTS += [
    v("c15-f32-products", "        x = float64(xx[i])\n        y = float64(yy[i])\n", "        x = xx[i]\n        y = yy[i]\n", names="R-ACC", note="seeded C15a: float32 squares"),
]

VARIANTS += [
    v("c15-dims-reversed", "dims=xx.dims[1:], coords=coords", "dims=xx.dims[:0:-1], coords=coords", file=A, names="autocorr", note="y/x labels swapped on the time-first arm"),
    v("c15-coords-all", "coords = {k: c for k, c in xx.coords.items() if k != \"time\"}", "coords = {k: c for k, c in xx.coords.items() if k in xx.dims[1:]}", file=A, names="autocorr",
      note="non-index coordinates are dropped"),
    v("c15-twin-coordvars", "coords = {k: c for k, c in xx.coords.items() if k != \"time\"}", "coords = {name: co for name, co in xx.coords.items() if name != \"time\"}", file=A, expect="silent"),
    v("c15-nodata-truthy", 'if (nodata := xx.attrs.get("nodata", None)) is None:\n            warn(', 'nodata = xx.attrs.get("nodata", None)\n        if not nodata:\n            nodata = None\n            warn(', file=A, names="R-TRUTHY"),
]

V = "hdc/algo/ops/ws2doptv.py"
VP = "hdc/algo/ops/ws2doptvp.py"
LC = "hdc/algo/ops/ws2doptvplc.py"
A = "hdc/algo/accessors.py"


def v(id, file, old, new, expect="fire", note="", nth=None, names=None, **kw):
    d = dict(id=id, prop="C04", file=file, old=old, new=new, expect=expect, note=note, nth=nth, **kw)
    if names:
        d["names"] = names
    return d


VARIANTS = [
    v("c04-no-reset", VP, "        z[:] = 0.0\n\n        for i in range(10):", "        for i in range(10):", names="ws2doptvp", note="final IRLS no longer starts from the zero curve"),
    v("c04-lamids", V, "            lamids[i] = (l1 + l2) / 2\n", "            lamids[i] = l1\n", names="ws2doptv"),
    v("c04-argmin-range", V, "        for i in range(1, nl1):\n            if v[i] < vmin:", "        for i in range(1, nl1 - 1):\n            if v[i] < vmin:", names="ws2doptv"),
    v("c04-vmin-forgot", V, "            if v[i] < vmin:\n                vmin = v[i]\n                k = i\n", "            if v[i] < vmin:\n                k = i\n", names="ws2doptv"),
    v("c04-log", VP, "        lopt[0] = pow(10, lamids[k])\n", "        lopt[0] = pow(2.718281828, lamids[k])\n", names="ws2doptvp", allow_error=True),
    v("c04-f16", A, '        ds_out = ds_out.to_dataset(name=(ds_out.name or "band"))\n        ds_out["sgrid"] = np.log10(sgrid).astype("float32")\n\n        return ds_out\n\n    def whitswcv',
      '        ds_out = ds_out.to_dataset(name=(ds_out.name or "band"))\n        ds_out["sgrid"] = np.log10(sgrid).astype("float16")\n\n        return ds_out\n\n    def whitswcv', names="whitsvc"),
    v("c04-grid-const", LC, "            llas = np.arange(0, 3.2, 0.2, dtype=float64)\n", "            llas = np.arange(0, 3.4, 0.2, dtype=float64)\n", names="ws2doptvplc"),
    v("c04-grid-tyx", LC, "        np.arange(0, 3.2, 0.2, dtype=float64),\n    )  # lc <= 0.5", "        np.arange(0, 2.2, 0.2, dtype=float64),\n    )  # lc <= 0.5", names="ws2doptvplc_tyx"),
    v("c04-threshold", LC, "        if lc > 0.5:\n            llas = np.arange(-2, 1.2, 0.2, dtype=float64)\n        elif lc <= 0.5:", "        if lc > 0.6:\n            llas = np.arange(-2, 1.2, 0.2, dtype=float64)\n        elif lc <= 0.6:", names="ws2doptvplc"),
    v("c04-pens-range", V, "            for i in range(m2):\n                z_tmp = diff1[i]", "            for i in range(m2 - 1):\n                z_tmp = diff1[i]", names="ws2doptv"),
    v("c04-fits-noweight", VP, "                fits[lix] += pow(w_tmp * (y_tmp - z_tmp), 2)\n            fits[lix] = log(fits[lix])\n\n            for i in range(m1):\n                z_tmp = z[i]\n                z2 = z[i + 1]\n                diff1[i] = z2 - z_tmp\n            for i in range(m2):\n                z_tmp = diff1[i]\n                z2 = diff1[i + 1]\n                pens[lix] += pow(z2 - z_tmp, 2)\n            pens[lix] = log(pens[lix])\n\n        # Construct v-curve\n        llastep = llas[1] - llas[0]\n\n        for i in range(nl1):\n            l1 = llas[i]\n            l2 = llas[i + 1]\n            fit1 = fits[i]\n            fit2 = fits[i + 1]\n            pen1 = pens[i]\n            pen2 = pens[i + 1]\n            v[i] = sqrt(pow(fit2 - fit1, 2) + pow(pen2 - pen1, 2)) / (log(10) * llastep)\n            lamids[i] = (l1 + l2) / 2\n\n        vmin = v[k]\n        for i in range(1, nl1):\n            if v[i] < vmin:\n                vmin = v[i]\n                k = i\n\n        lopt[0] = pow(10, lamids[k])",
      "                fits[lix] += pow(y_tmp - z_tmp, 2)\n            fits[lix] = log(fits[lix])\n\n            for i in range(m1):\n                z_tmp = z[i]\n                z2 = z[i + 1]\n                diff1[i] = z2 - z_tmp\n            for i in range(m2):\n                z_tmp = diff1[i]\n                z2 = diff1[i + 1]\n                pens[lix] += pow(z2 - z_tmp, 2)\n            pens[lix] = log(pens[lix])\n\n        # Construct v-curve\n        llastep = llas[1] - llas[0]\n\n        for i in range(nl1):\n            l1 = llas[i]\n            l2 = llas[i + 1]\n            fit1 = fits[i]\n            fit2 = fits[i + 1]\n            pen1 = pens[i]\n            pen2 = pens[i + 1]\n            v[i] = sqrt(pow(fit2 - fit1, 2) + pow(pen2 - pen1, 2)) / (log(10) * llastep)\n            lamids[i] = (l1 + l2) / 2\n\n        vmin = v[k]\n        for i in range(1, nl1):\n            if v[i] < vmin:\n                vmin = v[i]\n                k = i\n\n        lopt[0] = pow(10, lamids[k])",
      names="ws2doptvp", note="masked cells enter the fit criterion"),
    v("c04-final-lambda", V, "        z = ws2d(y, lopt[0], w)\n        np.round(z, 0, out)", "        z = ws2d(y, pow(10, llas[k]), w)\n        np.round(z, 0, out)", names="ws2doptv", note="band not at the reported lambda"),
    v("c04-band-name", A, 'ds_out = ds_out.to_dataset(name=(ds_out.name or "band"))\n        ds_out["sgrid"] = np.log10(sgrid).astype("float32")\n\n        return ds_out\n\n    def whitswcv', 'ds_out = ds_out.to_dataset(name="band")\n        ds_out["sgrid"] = np.log10(sgrid).astype("float32")\n\n        return ds_out\n\n    def whitswcv', names="whitsvc"),
    v("c04-helper-drift", VP, "    lopt = pow(10, lamids[k])\n", "    lopt = pow(10, lamids[k] + 0.1)\n", names="_ws2doptvp"),
    v("c04-lc-needs-p", A, "            if p is None:\n                raise ValueError(\n                    \"If lc is set, a p value needs to be specified as well.\"\n                )\n\n", "", names="whitsvc"),
    # twins
    v("c04-twin-le", V, "            if v[i] < vmin:", "            if v[i] <= vmin:", expect="silent", note="ties are free"),
    v("c04-twin-hypot", V, "v[i] = sqrt(pow(f2 - f1, 2) + pow(p2 - p1, 2)) / (log(10) * llastep)", "v[i] = sqrt((f2 - f1) ** 2 + (p1 - p2) ** 2) / (llastep * log(10))", expect="silent"),
    v("c04-twin-mid", V, "            lamids[i] = (l1 + l2) / 2\n", "            lamids[i] = 0.5 * l1 + 0.5 * l2\n", expect="silent"),
    # repairing D3 removes the known finding without any new alarm
    v("c04-twin-fix-d3", LC, "        elif lc <= 0.5:\n            llas = np.arange(0, 3.2, 0.2, dtype=float64)\n        else:\n            llas = np.arange(-1, 1.2, 0.2, dtype=float64)\n", "        else:\n            llas = np.arange(0, 3.2, 0.2, dtype=float64)\n", expect="silent"),
]

VARIANTS += [
    v("c04-p-half", A, "            if p:\n                ds_out, sgrid = xarray.apply_ufunc(\n                    ops.ws2doptvp,", "            if p and p != 0.5:\n                ds_out, sgrid = xarray.apply_ufunc(\n                    ops.ws2doptvp,", names="kernel selection", note="seeded C04a"),
    v("c04-twin-p-notnone", A, "            if p:\n                ds_out, sgrid = xarray.apply_ufunc(\n                    ops.ws2doptvp,", "            if p is not None:\n                ds_out, sgrid = xarray.apply_ufunc(\n                    ops.ws2doptvp,", expect="silent"),
]

VARIANTS += [
    v("c04-early-break", V, "            if v[i] < vmin:\n                vmin = v[i]\n                k = i\n", "            if v[i] < vmin:\n                vmin = v[i]\n                k = i\n            elif v[i] > 2 * vmin:\n                break\n", names="R-ARGMIN"),
]

G = "hdc/algo/ops/ws2dgu.py"
P = "hdc/algo/ops/ws2dpgu.py"
V = "hdc/algo/ops/ws2doptv.py"
VP = "hdc/algo/ops/ws2doptvp.py"
LC = "hdc/algo/ops/ws2doptvplc.py"
W = "hdc/algo/ops/ws2dwcv.py"
WP = "hdc/algo/ops/ws2dwcvp.py"


def v(id, file, old, new, expect="fire", note="", nth=None, names=None, **kw):
    d = dict(id=id, prop="C02", file=file, old=old, new=new, expect=expect, note=note, nth=nth, **kw)
    if names:
        d["names"] = names
    return d


VARIANTS = [
    dict(id="c02-revert-D1", prop="C02", patch="reverts/D1.patch", expect="fire", names="R-TAINT"),
    dict(id="c02-revert-D1-D2", prop="C02", expect="fire", names="R-TAINT", edits=[
        dict(file=W, old="        # masked cells may hold nan/inf: 0 * nan would poison the solve\n        y = np.where(w > 0, y, 0.0)\n", new=""),
        dict(file=W, old="r_sel = r_arr[(r_weights != 0) & (w != 0)]", new="r_sel = r_arr[r_weights != 0]")]),
    v("c02-wa-only", VP, "                    ww[j] = w[j] * wa[j]\n\n                znew[:] = ws2d(y, lmda, ww)", "                    ww[j] = wa[j]\n\n                znew[:] = ws2d(y, lmda, ww)", names="ws2doptvp"),
    v("c02-fits-unmasked", V, "fits[lix] += pow(w_tmp * (y_tmp - z_tmp), 2)", "fits[lix] += pow(y_tmp - z_tmp, 2)", names="R-TAINT"),
    v("c02-isinf", G, "[((x == nodata) or np.isnan(x) or np.isinf(x)) for x in y]", "[((x == nodata) or np.isnan(x)) for x in y]", names="ws2dgu"),
    v("c02-n4", W, "    if n > 4:\n", "    if n > 3:\n", names="R-GUARD"),
    v("c02-mask-half", V, "    for ii in range(m):\n        if y[ii] == nodata:", "    for ii in range(m - 1):\n        if y[ii] == nodata:", names="ws2doptv", allow_error=True),
    v("c02-envelope-leak", P, "                ww = w * wa\n", "                ww = w * wa + 1e-12 * wa\n", names="ws2dpgu", allow_error=True),
    v("c02-passthrough-lopt", VP, "    else:\n        out[:] = y[:]\n        lopt[0] = 0.0\n\n\n@jit", "    else:\n        out[:] = y[:]\n        lopt[0] = 1.0\n\n\n@jit", names="R-GUARD"),
    v("c02-tyx-value", LC, "                    xx[i] = 0  # really should be nan, but ws2d doesn't like them\n", "                    xx[i] = v\n", names="ws2doptvplc_tyx", allow_error=True),
    v("c02-robust-raw", WP, "            robust_weights = w * r_weights\n\n            robust_gcv.append(best_gcv)\n\n        robust_gcv = np.array(robust_gcv)\n\n        if robust:\n            lopt[0]", "            robust_weights = r_weights\n\n            robust_gcv.append(best_gcv)\n\n        robust_gcv = np.array(robust_gcv)\n\n        if robust:\n            lopt[0]", names="ws2dwcvp"),
    v("c02-sum-y", V, "    if n > 1:\n        m1 = m - 1", "    if n > 1 and y.sum() != 0:\n        m1 = m - 1", names="ws2doptv", allow_error=True, note="guard depends on the placeholder"),
    # twins
    v("c02-twin-loopmask", G, "        w = 1 - np.array(\n            [((x == nodata) or np.isnan(x) or np.isinf(x)) for x in y], dtype=float64\n        )\n",
      "        w = np.zeros(y.shape[0])\n        for ii in range(y.shape[0]):\n            if (y[ii] == nodata) or np.isnan(y[ii]) or np.isinf(y[ii]):\n                w[ii] = 0\n            else:\n                w[ii] = 1\n", expect="silent", allow_error=True),
    v("c02-twin-where", VP, "    if n > 1:\n        m1 = m - 1", "    if n > 1:\n        y = np.where(w > 0, y, 0.0)\n        m1 = m - 1", expect="silent"),
]

A_ = "hdc/algo/accessors.py"
VARIANTS += [
    v("c02-twin-nodata-fallback", A_, '        if not self._check_for_timedim():\n            raise MissingTimeError("Whittaker filter requires a time dimension!")\n        if sg is None and s is None:',
      '        if not self._check_for_timedim():\n            raise MissingTimeError("Whittaker filter requires a time dimension!")\n        if nodata is None:\n            nodata = self._obj.attrs.get("nodata")\n        if sg is None and s is None:',
      expect="silent", note="a fallback that only replaces None is not a violation"),
    v("c02-nodata-attr-override", A_, '        if not self._check_for_timedim():\n            raise MissingTimeError("Whittaker filter requires a time dimension!")\n        if sg is None and s is None:',
      '        if not self._check_for_timedim():\n            raise MissingTimeError("Whittaker filter requires a time dimension!")\n        nodata = self._obj.attrs.get("nodata", nodata)\n        if sg is None and s is None:',
      names="R-TRUTHY", note="the attribute silently overrides an explicit argument"),
]

D = "hdc/algo/ops/ws2d.py"
V = "hdc/algo/ops/ws2doptv.py"
S = "hdc/algo/ops/stats.py"
T = "hdc/algo/ops/tinterpolate.py"
Z = "hdc/algo/ops/zonal.py"
L = "hdc/algo/ops/lroo.py"
W = "hdc/algo/ops/ws2dwcv.py"
A = "hdc/algo/ops/autocorr.py"
LC = "hdc/algo/ops/ws2doptvplc.py"


def v(id, file, old, new, expect="fire", note="", nth=None, names=None, **kw):
    d = dict(id=id, prop="C14", file=file, old=old, new=new, expect=expect, note=note, nth=nth, **kw)
    if names:
        d["names"] = names
    return d


VARIANTS = [
    v("c14-back-loop", D, "for i in range(m - 2, -1, -1):", "for i in range(m - 1, -1, -1):", names="ws2d"),
    v("c14-diff1-alloc", V, "diff1 = np.zeros(m1)", "diff1 = np.zeros(m2)", names="ws2doptv"),
    v("c14-m1-m", V, "            for i in range(m1):\n                z_tmp = z[i]", "            for i in range(m):\n                z_tmp = z[i]", names="ws2doptv"),
    v("c14-nd", S, "nd = int(n * (n - 1) / 2)", "nd = int(n * (n - 1) / 2) - 1", names="mk_sens_slope"),
    v("c14-labels", T, "        if ll == labels[ii - 1]:", "        if ll == labels[ii + 1]:", names="tinterpolate"),
    v("c14-prefix-continue", S, "        if ii - window_size + 1 < 0:\n            yy[ii] = nodata\n            continue\n", "        if ii - window_size + 1 < 0:\n            yy[ii] = nodata\n", names="rolling_sum"),
    v("c14-yy-init", S, "    n = xx.size\n    yy[:] = 0\n", "    n = xx.size\n", names="R-MUSTWRITE"),
    v("c14-lopt-forgot", V, "        out[:] = y[:]\n        lopt[0] = 0.0\n", "        out[:] = y[:]\n", names="R-MUSTWRITE"),
    v("c14-inner-range", S, "        for kk in range(k + 1, n):", "        for kk in range(k + 1, n + 1):", names="mk_score"),
    v("c14-fwd-loop", D, "for i in range(2, m - 1):", "for i in range(2, m + 2):", names="ws2d"),
    v("c14-zones", Z, "        for idx in range(result.shape[1]):", "        for idx in range(result.shape[1] + 1):", names="do_mean"),
    v("c14-dots", L, "for ix in range(1, dots.size):", "for ix in range(0, dots.size + 1):", names="lroo"),
    v("c14-eigs", W, "    d_eigs[0] = 1e-15\n", "    d_eigs[m] = 1e-15\n", names="ws2dwcv"),
    v("c14-autocorr-n", A, "    N = xx.shape[0]\n\n    # ((X-X.mean())", "    N = data.shape[0]\n\n    # ((X-X.mean())", names="autocorr_1d_float"),
    v("c14-tyx-time", LC, "            for i in range(nt):\n                v = xx_raw[i]", "            for i in range(nt + 1):\n                v = xx_raw[i]", names="ws2doptvplc_tyx"),
    v("c14-empty", A, '    z = zeros((r, c), dtype="float32")', '    z = np.empty((r, c), dtype="float32")', names="R-MUSTWRITE", allow_error=True),
    v("c14-window-hi", S, "for jj in range(ii - window_size + 1, ii + 1):", "for jj in range(ii - window_size + 1, ii + 2):", names="rolling_sum"),
    v("c14-cal-col", S, "        cal_stop = cal_indices[grp, 1]\n", "        cal_stop = cal_indices[grp, 2]\n", names="gammastd_grp"),
    v("c14-ws2d-arg", V, "            z[:] = ws2d(y, lmda, w)\n", "            z[:] = ws2d(y, lmda, diff1)\n", names="R-BOUNDS(call)"),
    v("c14-mk-arm", S, "        slope[0] = nodata\n        trend[0] = -2\n", "        trend[0] = -2\n", names="R-MUSTWRITE"),
    v("c14-temp-last", T, "    temp[-1] = x[-1]\n", "    temp[-1] = x[jj]\n", names="tinterpolate", expect="silent", note="x[jj] is contract-discharged (as many marks as observations) - stays silent by the frozen table"),
    # twins
    v("c14-twin-n2", D, "    d[m - 1] = w[m - 1] + 5 * lmda", "    d[n - 2] = w[n - 2] + 5 * lmda", expect="silent"),
    v("c14-twin-rename", V, "            for i in range(m1):\n                z_tmp = z[i]\n                z2 = z[i + 1]\n                diff1[i] = z2 - z_tmp", "            for q in range(m1):\n                z_tmp = z[q]\n                z2 = z[q + 1]\n                diff1[q] = z2 - z_tmp", expect="silent"),
    v("c14-twin-len", S, "    n = xx.size\n    yy[:] = 0\n", "    n = len(xx)\n    yy[:] = 0\n", expect="silent"),
    v("c14-twin-loopwrite", S, "    n = xx.size\n    yy[:] = 0\n    for ii in range(n):\n", "    n = xx.size\n    for ii in range(n):\n        yy[ii] = 0\n", expect="silent", note="per-cell initialisation instead of the full-slice store"),
]

VARIANTS += [
    v("c14-empty-work", D, "    d = z.copy()\n    c = z.copy()\n    e = z.copy()\n", "    d = empty(n)\n    c = empty(n)\n    e = empty(n)\n", names="R-INIT", note="seeded C14a: wrapped index at n = 3 reads uninitialised cells"),
]

"""Record the local-variable names (in binding order, with binding fingerprints) of every function of hdc.algo: ref/names.json.

Regenerate ONLY together with a review of the rules that mention local names (sa/canon.py explains how the file is used)."""
import ast
import json
import sys
from pathlib import Path

V = Path(__file__).resolve().parent.parent
sys.path.insert(0, str(V))
from sa import canon  # noqa: E402

root = Path(sys.argv[1] if len(sys.argv) > 1 else "/repo")
out = {}
for p in sorted((root / "hdc").rglob("*.py")):
    rel = p.relative_to(root).as_posix()
    dotted = rel[:-3].replace("/", ".")
    if dotted.endswith(".__init__"):
        dotted = dotted[: -len(".__init__")]
    out[dotted] = canon.snapshot(ast.parse(p.read_text()), dotted, p.name == "__init__.py")
(V / "ref" / "names.json").write_text(json.dumps(out, indent=0, sort_keys=True))
print(sum(len(v) for v in out.values()), "functions")

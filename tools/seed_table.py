"""Print the markdown table of seeded changes for DESIGN.md from seeded/*/meta.json."""
import json
from pathlib import Path
V = Path(__file__).resolve().parent.parent
print("| seed | property | change (needs) | first run | now caught by | strengthening |")
print("|------|----------|----------------|-----------|---------------|---------------|")
for d in sorted((V / "seeded").iterdir()):
    mp = d / "meta.json"
    if not mp.exists():
        continue
    m = json.loads(mp.read_text())
    now = ", ".join(f"{k}{'' if v.get('exit') == 1 else ' (exit 2)'}" for k, v in sorted(m.get("checks_firing", {}).items()) if isinstance(v, dict))
    summ = (m.get("summary") or "").replace("|", "/")[:150]
    needs = (m.get("needs") or "").replace("|", "/")[:110]
    print(f"| {m['seed_id']} | {m.get('property')} | {summ} ({needs}) | {m.get('first_run', '')} | {now} | {m.get('strengthening_after', '')} |")

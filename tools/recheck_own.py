"""Quick regression run: every stored seeded change must be reported (exit 1) by the check of the property it was written against.
usage: tools/recheck_own.py [seed-id ...]   (prints one line per seed that is NOT reported at exit 1, then a summary)"""
import concurrent.futures as cf
import json
import os
import shutil
import subprocess
import sys
import tempfile
from pathlib import Path

V = Path(__file__).resolve().parent.parent
KEEP_EXIT2 = {"C18e"}   # recorded in DESIGN.md 9.6: rewritten kernel the descriptor cannot read, exit 2 is the honest verdict


def one(sid):
    d = V / "seeded" / sid
    pid = json.loads((d / "meta.json").read_text()).get("property") or sid[:3]
    tmp = Path(tempfile.mkdtemp(prefix="own_"))
    try:
        shutil.copytree("/repo/hdc", tmp / "hdc", ignore=shutil.ignore_patterns("__pycache__"))
        r = subprocess.run(["patch", "-p1", "-s", "-d", str(tmp), "-i", str(d / "patch.diff")], capture_output=True, text=True)
        if r.returncode != 0:
            return sid, pid, 9, "patch does not apply"
        c = subprocess.run([str(V / "check"), pid, "--repo", str(tmp)], capture_output=True, text=True, cwd=V,
                           env=dict(os.environ, VERIF_EVIDENCE_DIR=str(tmp / "ev")))
        lines = [l.strip() for l in c.stdout.splitlines() if ("[R-" in l or "[NB" in l or "ANALYSIS" in l) and "KNOWN-FINDING" not in l]
        return sid, pid, c.returncode, (lines[0][:200] if lines else "")
    finally:
        shutil.rmtree(tmp, ignore_errors=True)


def main():
    ids = [a for a in sys.argv[1:]] or sorted(p.name for p in (V / "seeded").iterdir() if (p / "patch.diff").exists())
    bad = 0
    with cf.ThreadPoolExecutor(int(os.environ.get("JOBS", "14"))) as ex:
        for sid, pid, rc, line in ex.map(one, ids):
            if rc != 1 and not (rc == 2 and sid in KEEP_EXIT2):
                bad += 1
                print(f"NOT-REPORTED {sid} by {pid}: exit {rc} {line}", flush=True)
    print(f"{len(ids)} seeds, {bad} not reported by their own check")
    return 1 if bad else 0


if __name__ == "__main__":
    sys.exit(main())

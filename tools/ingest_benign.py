"""Ingest behaviour-preserving refactorings written by a sub-agent: tools/ingest_benign.py <agent-worktree> <id> [--skip-tests]

For every SEED/pK.diff: fresh scratch worktree of /repo, apply, (full pytest), run every quick check with --repo.
Stores benign/<id>/{pK.diff, notes.json, results.json}. A check that does not exit 0 on one of these is a false alarm to be
triaged by reading the patch (or the patch is not behaviour-preserving after all: then it is dropped with the reason).
"""
import json
import os
import shutil
import subprocess
import sys
import tempfile
from pathlib import Path

V = Path(__file__).resolve().parent.parent
REPO = Path(os.environ.get("HDC_REPO", "/repo"))
PROPS = [f"C{i:02d}" for i in range(1, 21)]


def main():
    src, bid = Path(sys.argv[1]), sys.argv[2]
    skip = "--skip-tests" in sys.argv
    out = V / "benign" / bid
    out.mkdir(parents=True, exist_ok=True)
    notes = json.loads((src / "SEED" / "notes.json").read_text()) if (src / "SEED" / "notes.json").exists() else []
    (out / "notes.json").write_text(json.dumps(notes, indent=1))
    results = {}
    for p in sorted((src / "SEED").glob("p*.diff")):
        shutil.copy(p, out / p.name)
        wt = Path(tempfile.mkdtemp(prefix="benign_")) / "r"
        subprocess.run(["git", "-C", str(REPO), "worktree", "add", "-q", "--detach", str(wt), "HEAD"], check=True)
        try:
            r = subprocess.run(["git", "-C", str(wt), "apply", str(out / p.name)], capture_output=True, text=True)
            if r.returncode != 0:
                results[p.name] = {"applies": False, "error": r.stderr[-300:]}
                continue
            res = {"applies": True}
            if not skip:
                t = subprocess.run(["/venv/bin/python", "-m", "pytest", "-q", "-p", "no:cacheprovider", "--timeout=900", "-x"], cwd=wt,
                                   env=dict(os.environ, PYTHONPATH=str(wt)), capture_output=True, text=True)
                res["tests"] = t.stdout.strip().splitlines()[-1] if t.stdout.strip() else t.stderr[-200:]
                res["tests_ok"] = t.returncode == 0
            ev = tempfile.mkdtemp(prefix="benignev_")
            checks = {}
            for pid in PROPS:
                c = subprocess.run([str(V / "check"), pid, "--repo", str(wt)], capture_output=True, text=True, cwd=V, env=dict(os.environ, VERIF_EVIDENCE_DIR=ev))
                if c.returncode != 0:
                    lines = [l for l in c.stdout.splitlines() if "[R-" in l or "[NB" in l or "ANALYSIS" in l or "floor" in l and "<" in l]
                    checks[pid] = {"exit": c.returncode, "report": lines[:4]}
            shutil.rmtree(ev, ignore_errors=True)
            res["alarms"] = checks
            results[p.name] = res
        finally:
            subprocess.run(["git", "-C", str(REPO), "worktree", "remove", "--force", str(wt)])
            shutil.rmtree(wt.parent, ignore_errors=True)
    (out / "results.json").write_text(json.dumps(results, indent=1))
    for k, v in results.items():
        print(bid, k, "tests:", v.get("tests"), "alarms:", {p: a["exit"] for p, a in v.get("alarms", {}).items()})


if __name__ == "__main__":
    main()

"""Verify and store a seeded breaking change written by a sub-agent.

usage: tools/ingest_seed.py <agent-worktree> <seed-id> [--skip-tests]

Steps (all in a fresh scratch worktree of /repo under /tmp/seedverify, removed afterwards):
  1. apply SEED/patch.diff; 2. demo must exit != 0; 3. the full baseline test suite must pass;
  4. un-apply; demo must exit 0; 5. run every registered quick check with --repo <scratch+patch> and record which fire.
Result: /verif/seeded/<seed-id>/{patch.diff, demo.py, meta.json}.
"""
import json
import os
import shutil
import subprocess
import sys
import tempfile
from pathlib import Path

VERIF = Path(__file__).resolve().parent.parent
PY = "/venv/bin/python"


def sh(cmd, cwd=None, env=None, timeout=1800):
    r = subprocess.run(cmd, cwd=cwd, env=env, capture_output=True, text=True, timeout=timeout)
    return r.returncode, (r.stdout + r.stderr)


def main():
    wt = Path(sys.argv[1])
    sid = sys.argv[2]
    skip_tests = "--skip-tests" in sys.argv
    seed = wt / "SEED"
    patch = seed / "patch.diff"
    demo = seed / "demo.py"
    if not patch.exists() or not demo.exists():
        print("missing SEED/patch.diff or SEED/demo.py")
        return 2
    # SEED/patch.diff is the source of truth (agents' worktrees share one git stash and may have been disturbed);
    # fall back to the working-tree diff only when the file is empty
    patch_text = patch.read_text()
    if not patch_text.strip():
        rc, diff = sh(["git", "-C", str(wt), "diff", "--", "hdc"])
        patch_text = diff
    meta = {}
    if (seed / "meta.json").exists():
        try:
            meta = json.loads((seed / "meta.json").read_text())
        except Exception as exc:  # noqa: BLE001
            meta = {"agent_meta_unparseable": str(exc)}
    scratch = Path(tempfile.mkdtemp(prefix="seedverify_")) / sid
    rc, out = sh(["git", "-C", "/repo", "worktree", "add", "--detach", str(scratch), "HEAD", "-q"])
    if rc != 0:
        print("cannot create scratch worktree", out)
        return 2
    result = {"seed_id": sid}
    try:
        env = dict(os.environ, PYTHONPATH=str(scratch), PYTHONDONTWRITEBYTECODE="1")
        (scratch / "SEED").mkdir()
        shutil.copy(demo, scratch / "SEED" / "demo.py")
        for extra in seed.iterdir():
            if extra.name not in ("patch.diff", "demo.py", "meta.json") and extra.is_file():
                shutil.copy(extra, scratch / "SEED" / extra.name)
        pf = scratch / "SEED" / "patch.diff"
        pf.write_text(patch_text)
        # clean tree: demo passes
        rc0, out0 = sh([PY, "SEED/demo.py"], cwd=scratch, env=env)
        result["demo_without_change"] = {"exit": rc0, "tail": out0.strip().splitlines()[-3:]}
        rc, out = sh(["git", "-C", str(scratch), "apply", str(pf)])
        if rc != 0:
            print("patch does not apply:", out)
            result["patch_applies"] = False
            return 2
        result["patch_applies"] = True
        rc1, out1 = sh([PY, "SEED/demo.py"], cwd=scratch, env=env)
        result["demo_with_change"] = {"exit": rc1, "tail": out1.strip().splitlines()[-5:]}
        if not skip_tests:
            rct, outt = sh([PY, "-m", "pytest", "-q", "-p", "no:cacheprovider", "--timeout=900", "-x"], cwd=scratch, env=env, timeout=3000)
            result["tests_with_change"] = {"exit": rct, "tail": outt.strip().splitlines()[-2:]}
        # run the checks against the patched scratch tree
        man = json.loads((VERIF / "MANIFEST.json").read_text())
        evd = tempfile.mkdtemp(prefix="seedev_")
        det = {}
        cenv = dict(os.environ, VERIF_EVIDENCE_DIR=evd, HDC_REPO=str(scratch))
        cenv.pop("VERIF_TIER", None)
        import concurrent.futures as cf

        def one(c):
            pid = c["property_id"]
            rc_, o = sh([str(VERIF / "check"), pid, "--repo", str(scratch)], env=cenv, timeout=1200)
            lines = [l for l in o.splitlines() if l.strip().startswith(("hdc/", "VIOLATION", "ANALYSIS-ERROR"))]
            return pid, rc_, lines[:6]
        with cf.ThreadPoolExecutor(6) as ex:
            for pid, rc_, lines in ex.map(one, man["checks"]):
                if rc_ != 0:
                    det[pid] = {"exit": rc_, "report": lines}
        shutil.rmtree(evd, ignore_errors=True)
        result["checks_firing"] = det
        ok = (rc0 == 0 and rc1 != 0 and (skip_tests or result["tests_with_change"]["exit"] == 0))
        result["confirmed"] = ok
        out_dir = VERIF / "seeded" / sid
        out_dir.mkdir(parents=True, exist_ok=True)
        (out_dir / "patch.diff").write_text(patch_text)
        shutil.copy(demo, out_dir / "demo.py")
        for extra in seed.iterdir():
            if extra.name not in ("patch.diff", "demo.py", "meta.json") and extra.is_file() and extra.stat().st_size < 200000:
                shutil.copy(extra, out_dir / extra.name)
        meta_out = {
            "seed_id": sid,
            "property": meta.get("property"),
            "summary": meta.get("summary"),
            "needs": meta.get("needs"),
            "files_touched": meta.get("files_touched"),
            "agent_report": {k: meta.get(k) for k in ("tests", "demo_without_change", "demo_with_change") if k in meta},
            "verified_by_us": {
                "how": "fresh scratch worktree of /repo HEAD: demo on clean tree, git apply patch, demo, full baseline pytest, all quick checks with --repo <scratch>",
                "demo_without_change": result["demo_without_change"],
                "demo_with_change": result["demo_with_change"],
                "tests_with_change": result.get("tests_with_change"),
                "confirmed": ok,
            },
            "checks_firing": det,
            "detected": bool(det),
            "detected_by_own_property": bool(meta.get("property") in det and det[meta.get("property")]["exit"] == 1),
        }
        (out_dir / "meta.json").write_text(json.dumps(meta_out, indent=1) + "\n")
        print(json.dumps({"seed": sid, "confirmed": ok, "firing": {k: v["exit"] for k, v in det.items()},
                          "demo": (rc0, rc1), "tests": result.get("tests_with_change", {}).get("tail")}, indent=0))
        return 0
    finally:
        sh(["git", "-C", "/repo", "worktree", "remove", "--force", str(scratch)])
        shutil.rmtree(scratch.parent, ignore_errors=True)


if __name__ == "__main__":
    sys.exit(main())

"""Per-property claim table for MANIFEST.json."""
OTHER = "other"
CHECKS = {
    "C01": dict(
        category="proof",
        text="Closed set of proof obligations: every store of ws2d is compared (rational normal forms) with the LDL' identity of "
             "W + lambda D'D for its row class, rows are covered exactly once in the right order; decides the exact-arithmetic clause for all n >= 4.",
        note="Trusted: CPython ast; uniqueness of the LDL' factorisation of an SPD band matrix; positive definiteness for >= 2 positive "
             "weights and lambda > 0. The float64 error bound is NOT decided.",
        technique="static analysis: AST expression normal-form comparison against LDL' identities, affine loop coverage",
    ),
    "C11": dict(
        category="proof",
        text="Closed obligation set over dekad.py: the constructor arms are evaluated in an interval domain (day sub-intervals 1-10/11-20/21-31 "
             "map to single dekads) and the decoders in the exact domain a*q+t[r] for v=36q+r (digit extractions for every raw value, "
             "encode(decode(v))==v); label field layout writer==reader; six comparisons/hash/+/- are sibling-consistent operations on the raw "
             "integer with the translation identities checked on normal forms; end_date/ndays share one resolution delta; accessor properties "
             "apply the attribute of the same name.",
        note="Trusted: CPython ast; mixed-radix uniqueness lemma; datetime/timedelta arithmetic. dekad.py is never imported or executed.",
        technique="static analysis: abstract interpretation (interval + exact residue/affine domain) of expression ASTs, sibling descriptor comparison",
    ),
    "C13": dict(
        category=OTHER,
        text="Decides the ABSENCE OF FOUR ENUMERATED DIVERGENCE CLASSES between Numba and interpreter semantics, for every kernel and every declared "
             "signature, from Numba's typed IR (type inference only, nothing lowered or run) and the syntax tree: narrow-integer arithmetic (NB-PROMOTE), "
             "variables unified across numeric types and used in arithmetic (NB-UNIFY), unguarded scalar divisions (R-DIVGUARD), and disagreement of the "
             "vendored scipy.special binding tables / non-float64 overloads (R-VENDOR); also that every declared signature types. It does not decide value equality.",
        note="Trusted: Numba's type inference in /venv is the one the real build uses; NumPy NEP-50 scalar promotion; the frozen lemma/contract table of sa/divs.py "
             "(pivots, contract minimums, Brent port and GCV denominators are listed, not decided). The differential statement beyond the four classes is declined.",
        technique="static analysis: Numba typed-IR fact extraction (types of every binop/store/call per declared signature) + CFG dominance / reaching definitions for division guards",
    ),
    "C19": dict(
        category=OTHER,
        text="Static rule conformance on IterativeAggregation._iteragg: both Index.get_indexer results must pass a test for the -1 sentinel that raises ValueError on "
             "every CFG path before use (must-pass-through); the window index arithmetic (begin_ix = pos+1, end_ix = pos, descending range to 1, stop at ii <= end_ix, "
             "window [ii-n, ii) iff ii-n >= 0), the agg_* stamping and the reducer table are compared as integer normal forms.",
        note="Trusted: pandas contract that Index.get_indexer returns -1 for a missing label and does not raise; xarray reduce/expand_dims/assign_attrs semantics.",
        technique="static analysis: statement CFG must-pass-through + integer-comparison normal forms on the syntax tree",
    ),
}
NOT_APPLICABLE = {}

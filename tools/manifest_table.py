"""Per-property claim table for MANIFEST.json."""
OTHER = "other"
CHECKS = {
    "C01": dict(
        category="proof",
        text="Closed set of proof obligations: every store of ws2d is compared (rational normal forms) with the LDL' identity of "
             "W + lambda D'D for its row class, rows are covered exactly once in the right order; decides the exact-arithmetic clause for all n >= 4.",
        note="Trusted: CPython ast; uniqueness of the LDL' factorisation of an SPD band matrix; positive definiteness for >= 2 positive "
             "weights and lambda > 0. The float64 error bound is NOT decided.",
        technique="static analysis: AST expression normal-form comparison against LDL' identities, affine loop coverage",
    ),
    "C11": dict(
        category="proof",
        text="Closed obligation set over dekad.py: the constructor arms are evaluated in an interval domain (day sub-intervals 1-10/11-20/21-31 "
             "map to single dekads) and the decoders in the exact domain a*q+t[r] for v=36q+r (digit extractions for every raw value, "
             "encode(decode(v))==v); label field layout writer==reader; six comparisons/hash/+/- are sibling-consistent operations on the raw "
             "integer with the translation identities checked on normal forms; end_date/ndays share one resolution delta; accessor properties "
             "apply the attribute of the same name.",
        note="Trusted: CPython ast; mixed-radix uniqueness lemma; datetime/timedelta arithmetic. dekad.py is never imported or executed.",
        technique="static analysis: abstract interpretation (interval + exact residue/affine domain) of expression ASTs, sibling descriptor comparison",
    ),
}
NOT_APPLICABLE = {}

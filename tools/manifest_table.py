"""Per-property claim table for MANIFEST.json."""
OTHER = "other"
CHECKS = {
    "C01": dict(
        category="proof",
        text="Closed set of proof obligations: every store of ws2d is compared (rational normal forms) with the LDL' identity of "
             "W + lambda D'D for its row class, rows are covered exactly once in the right order; decides the exact-arithmetic clause for all n >= 4.",
        note="Trusted: CPython ast; uniqueness of the LDL' factorisation of an SPD band matrix; positive definiteness for >= 2 positive "
             "weights and lambda > 0. The float64 error bound is NOT decided.",
        technique="static analysis: AST expression normal-form comparison against LDL' identities, affine loop coverage",
    ),
}
NOT_APPLICABLE = {}

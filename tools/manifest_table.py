"""Per-property claim table for MANIFEST.json."""
OTHER = "other"
CHECKS = {
    "C01": dict(
        category="proof",
        text="Closed set of proof obligations: every store of ws2d is compared (rational normal forms) with the LDL' identity of "
             "W + lambda D'D for its row class, rows are covered exactly once in the right order; decides the exact-arithmetic clause for all n >= 4.",
        note="Trusted: CPython ast; uniqueness of the LDL' factorisation of an SPD band matrix; positive definiteness for >= 2 positive "
             "weights and lambda > 0. The float64 error bound is NOT decided.",
        technique="static analysis: AST expression normal-form comparison against LDL' identities, affine loop coverage",
    ),
    "C11": dict(
        category="proof",
        text="Closed obligation set over dekad.py: the constructor arms are evaluated in an interval domain (day sub-intervals 1-10/11-20/21-31 "
             "map to single dekads) and the decoders in the exact domain a*q+t[r] for v=36q+r (digit extractions for every raw value, "
             "encode(decode(v))==v); label field layout writer==reader; six comparisons/hash/+/- are sibling-consistent operations on the raw "
             "integer with the translation identities checked on normal forms; end_date/ndays share one resolution delta; accessor properties "
             "apply the attribute of the same name.",
        note="Trusted: CPython ast; mixed-radix uniqueness lemma; datetime/timedelta arithmetic. dekad.py is never imported or executed.",
        technique="static analysis: abstract interpretation (interval + exact residue/affine domain) of expression ASTs, sibling descriptor comparison",
    ),
    "C13": dict(
        category=OTHER,
        text="Decides the ABSENCE OF FOUR ENUMERATED DIVERGENCE CLASSES between Numba and interpreter semantics, for every kernel and every declared "
             "signature, from Numba's typed IR (type inference only, nothing lowered or run) and the syntax tree: narrow-integer arithmetic (NB-PROMOTE), "
             "variables unified across numeric types and used in arithmetic (NB-UNIFY), unguarded scalar divisions (R-DIVGUARD), and disagreement of the "
             "vendored scipy.special binding tables / non-float64 overloads (R-VENDOR); also that every declared signature types. It does not decide value equality.",
        note="Trusted: Numba's type inference in /venv is the one the real build uses; NumPy NEP-50 scalar promotion; the frozen lemma/contract table of sa/divs.py "
             "(pivots, contract minimums, Brent port and GCV denominators are listed, not decided). The differential statement beyond the four classes is declined.",
        technique="static analysis: Numba typed-IR fact extraction (types of every binop/store/call per declared signature) + CFG dominance / reaching definitions for division guards",
    ),
    "C19": dict(
        category=OTHER,
        text="Static rule conformance on IterativeAggregation._iteragg: both Index.get_indexer results must pass a test for the -1 sentinel that raises ValueError on "
             "every CFG path before use (must-pass-through); the window index arithmetic (begin_ix = pos+1, end_ix = pos, descending range to 1, stop at ii <= end_ix, "
             "window [ii-n, ii) iff ii-n >= 0), the agg_* stamping and the reducer table are compared as integer normal forms; the reduction is applied to every yielded window "
             "under the single condition func is not None (no bypass path).",
        note="Trusted: pandas contract that Index.get_indexer returns -1 for a missing label and does not raise; xarray reduce/expand_dims/assign_attrs semantics.",
        technique="static analysis: statement CFG must-pass-through + integer-comparison normal forms on the syntax tree",
    ),
    "C16": dict(
        category=OTHER,
        text="Static rule conformance on do_mean and its two accessor sites: the accumulation descriptor (a pixel adds its value / 1 to the slot of its own zone "
             "exactly under value != nodata and zone != zone-nodata), accumulator width read from Numba's typed IR for four entry signatures (64-bit whatever "
             "out_dtype is), per-time-step reset, finalisation mean = sum/count under count > 0 else NaN with the count stored, zone-loop coverage, NaN->nodata "
             "substitution, argument binding and dask shape agreement.",
        note="Trusted: Numba type inference; dask map_blocks drop_axis/new_axis/chunks contract. Floating-point rearrangement invariance beyond accumulator width is declined.",
        technique="static analysis: guard/def-use descriptors on the CFG + Numba typed-IR accumulator types",
    ),
    "C17": dict(
        category=OTHER,
        text="Typestate rule on rolling_sum's output cell (no CFG path of the same window adds to the cell after the sentinel was stored; the sentinel is stored only "
             "for an incomplete window, a nodata cell or a window without valid cells; an all-nodata window reaches a sentinel store), window bounds, agreement of the "
             "kernel's prefix with the accessor's trimming, mean_grp accumulation/finalisation descriptor (skip == nodata, count, n == 0 -> nodata else sum/n, scatter "
             "index == gather index, group coverage), sentinel never an arithmetic operand, argument binding, nodata resolution order.",
        note="Trusted: xarray apply_ufunc core-dimension contract; Numba type inference. Exactness of float32 sums for large magnitudes is declined.",
        technique="static analysis: typestate path queries on the statement CFG, guard-atom descriptors, integer normal forms, Numba typed IR (narrowing stores of computed values)",
    ),
    "C18": dict(
        category=OTHER,
        text="R-NARROW from Numba's typed IR (the run length, bounded only by the series length, must fit the output element type), descriptor of lroo's run logic "
             "(positions of ones, gap == 1 extends and updates the maximum, other gaps reset to 1, result mr if mr > 1 else 0), descriptor of croo's xarray chain "
             "(sort newest first, cumsum without NaN skipping, argmax + latest), site binding and declared == written dtype. Known finding D14 (uint8 output wraps).",
        note="Trusted: Numba type inference; xarray sortby/where/cumsum/argmax semantics; np.where returns ascending positions. Equality with a brute-force run counter is declined.",
        technique="static analysis: Numba typed-IR store types + guard/def-use descriptors on the CFG",
    ),
    "C07": dict(
        category=OTHER,
        text="Formula conformance: after reaching-definition substitution the code's expressions are compared as rational normal forms over uninterpreted "
             "special-function atoms with the formula of the statement: ndtri(p0 + (1-p0)*gammainc(alpha, x/beta)) under exactly `!= nodata and >= 0`, the p0 counting "
             "loop, the gamma MLE sums over values > 0, s = log(mean) - mean(log), Thom's estimate with the +-40% bracket, the Brent root function, beta = mean/alpha, "
             "the calibration slice, scale->round->store order of both drivers, float64 overloads of the special functions (typed IR), argument binding.",
        note="Trusted: Numba type inference; the meaning of scipy.special.gammainc/ndtri/digamma; np.round half-even. Agreement with SciPy to one unit (accuracy of the "
             "Brent port, float32 logarithms) is declined; the Brent iteration itself is not decided.",
        technique="static analysis: reaching-definition substitution + rational normal-form equality against the statement's formula, guard descriptors",
    ),
    "C08": dict(
        category=OTHER,
        text="R-NARROW: the float64->int16 array stores and any scalar narrowing store into the int16 output (located by Numba's typed IR) must be preceded on every "
             "path by a restriction of the scaled value to the int16 range, and no float->integer conversion (round/int typed float->int64) may be applied to an "
             "unclamped value; no raise/assert and no unguarded scalar division in the nopython call graph of the two drivers; the unfittable-pixel arms "
             "(no valid cell, >90% zeros, no fit) return all-nodata; p0/alpha/beta are loop-invariant in the per-cell expression (structural half of monotonicity).",
        note="Trusted: Numba type inference; composition of non-decreasing maps. Monotonicity of SciPy's special functions at the float64 resolution limit and the "
             "float differences inside the Brent port are declined (listed in the evidence).",
        technique="static analysis: typed-IR narrowing stores + clip recognition on normal forms, call-graph raise-freedom, CFG division guards",
    ),
    "C10": dict(
        category=OTHER,
        text="Pair coverage of mk_score / mk_sens_slope (affine), the formulas of S, tau, Var(S) with tie groups, continuity-corrected Z, two-sided p, h and Sen's slope "
             "as rational normal forms against the statement, the trend-flag decision table (identical in the 1-d and 3-d drivers), the use-shape rule (the series is read "
             "only through pairwise <, >, == of its own elements, unique and len => invariance under strictly increasing maps), oddness of Z and |Z|-dependence of p/h, "
             "the all-nodata arm (nodata x3, -2), output order, site binding and declared dtypes.",
        note="Trusted: a function that reads a sequence only through pairwise comparisons is invariant under strictly increasing maps; np.unique/np.nanmedian semantics. "
             "float32 rounding of stored statistics is declined.",
        technique="static analysis: normal-form equality against the statement's formulas, use-shape (syntactic context) rule, sibling decision tables",
    ),
    "C15": dict(
        category=OTHER,
        text="Accumulator roles of both encodings identified by (guard, addend); the returned expression is compared with the closed form of the mean-filled Pearson "
             "correlation derived from the statement (squared identity of rational normal forms with sqrt atoms + one sign-fixing point); zero cases and division guards; "
             "int/nodata vs float/NaN sibling agreement; both layouts call the same routine on their own time slice; dispatch on nodata is None; site binding and float32 "
             "declared/written. Known finding D11: the code's numerator differs from the statement's when the series has gaps.",
        note="Trusted: the closed form (N cancels; filled cells deviate by 0 from the mean); f^2 == g^2 => f == +-g. Range bound and affine invariance in floating point are declined.",
        technique="static analysis: (guard, addend) descriptors + rational normal-form identity against the statement's closed form, sibling comparison",
    ),
    "C09": dict(
        category=OTHER,
        text="Window convention (every searchsorted lookup of get_calibration_indices: array, value and side, on both arms; the helper passes `side` through), recorded "
             "attributes, ValueError validation dominating both kernel sites on the CFG of spi (reversed/empty, single step, out of range, label length), dense "
             "re-labelling pipeline (to_linspace -> num_groups -> cal_indices -> site arguments) and the grouped gather / per-group window / scatter descriptor of gammastd_grp.",
        note="Trusted: numpy searchsorted left/right semantics on a sorted axis; np.unique returns sorted distinct keys. Equality of grouped and per-group ungrouped "
             "results (two runs) and datetime comparison semantics are declined.",
        technique="static analysis: call-argument descriptors, CFG dominance of raising guards, integer-comparison normal forms",
    ),
    "C20": dict(
        category=OTHER,
        text="R-READONLY (no store into an input or a view of one; working arrays are copies), scatter descriptor (cursors), solver call (lambda = 1e-5 as an exact "
             "constant, weights = untouched template copy), run-length averaging descriptor (sum/count/index roles identified from the store, reset together, final "
             "flush, round half-even), division guard on the count (positive-counter lemma), accessor: int16 requirement, output length, declared dtype, binding.",
        note="Trusted: Python round() is half-even; Numba type inference; C01 for the solve and C14 for bounds. Exactness on constant/linear input is declined.",
        technique="static analysis: store/def descriptors with guards from the structured walk, alias analysis for views/copies, Numba typed IR (result type of the solver call per declared signature)",
    ),
    "C03": dict(
        category=OTHER,
        text="Composition, not numbers: whits computes lambda = 10**sg else s and selects the kernel on p; ws2dgu performs exactly one solve with the validity mask as "
             "weight under `lambda != 0 and >= 2 valid cells`, rounds half-even into the output and otherwise passes the input through; ws2dpgu's reweighting block "
             "descriptor equals the statement (<= 10 passes from the zero curve, strict y > z -> p else 1-p, weight = mask x asymmetric weight, stop at L1 change == 0 "
             "evaluated after the solve, carry after the test, final solve with the last weights, rounding); argument binding of both sites.",
        note="Trusted: np.round half-even; C01 for the solve. Numerical equality with the PLS/expectile curve and convergence within 10 passes are declined.",
        technique="static analysis: block descriptors (E8) located by content from a structured def/guard walk, compared with the reference descriptor of the statement",
    ),
    "C04": dict(
        category=OTHER,
        text="For each of the four V-curve copies: normal-form equality of the fit / roughness / v / midpoint expressions with the statement, coverage of the accumulation "
             "loops, arg-min structure (value and index updated together over every candidate), reported lambda = 10**midpoint, and self-consistency of the band "
             "(final solve resp. final reweighting block from the zero curve at exactly the reported lambda, same mask, rounded) as a sibling of the fixed-lambda smoothers; "
             "the lc grid choice evaluated over the abstract cases {lc > 0.5, lc <= 0.5, NaN} in both siblings; accessor binding, sgrid dtype/expression, naming. "
             "Known finding D3: the gufunc's third grid for NaN lc.",
        note="Trusted: np.arange grids as written; C03 reference descriptor. Numerical optimality of the winner and the warm start across grid values are declined.",
        technique="static analysis: rational normal-form equality, arg-min and IRLS descriptors, three-valued abstract evaluation of the lc branch structure",
    ),
    "C05": dict(
        category=OTHER,
        text="For each of the three GCV copies: candidate provenance (10**srange or the previously selected grid value), score formula as a normal form "
             "(wsse / (sum w (1 - trH/sum w)^2), gamma, eigenvalues), arg-min with score/lambda/curve updated together, reported-lambda table, band = final solve / "
             "reweighting block at the reported lambda with mask x robust weights, R-DIVGUARD of the scale flavour (the MAD must be tested positive before it divides), "
             "residual selection containing the validity mask, bisquare formulas; accessor defaults and binding.",
        note="Trusted: np.median/np.sum semantics. Numerical optimality and finiteness beyond the MAD guard (tiny non-zero MAD) are declined.",
        technique="static analysis: rational normal-form equality, CFG dominance of the scale guard, mask-factor resolution of solver weights",
    ),
    "C06": dict(
        category=OTHER,
        text="Three necessary structural clauses: (1) on the band coefficients extracted from ws2d's code every penalty row sums to zero and has zero first moment and "
             "the band is persymmetric (assembled for several n); (2) use-shape rule: in all nine smoother kernels every use of the input series is a mask test, the "
             "solver's first argument, a difference with or an order comparison against a solver output; (3) the V-curve criteria sum sign-even summands over the whole extent.",
        note="These are necessary conditions of the relational property, not the property: equality of two runs incl. rounding ties, and convergence of the reweighting "
             "from the zero curve (not offset-equivariant in its first pass) are declined.",
        technique="static analysis: invariants of extracted coefficients, syntactic use-shape rule over the syntax tree",
    ),
    "C12": dict(
        category=OTHER,
        text="Structural clauses behind laziness/chunking/threading independence: all 20 accessor->kernel sites bind by R-BIND with dask='parallelized', time as core "
             "dimension of the data and no allow_rechunk (a chunked time axis is refused); the time-first autocorr path rechunks time into one block before dropping it; "
             "10 dtype declarations equal the dtype the kernel writes (known finding D8: three parameter-dependent metas); all 35 kernels are pure (no global/nonlocal, no "
             "module-level mutable reads) and never store into an input array or a view of one; the six 3-D drivers carry no scalar or scratch-array content from one "
             "pixel to the next (reaching definitions + full-overwrite rule); the prange body writes only body-allocated arrays or through the prange index and assigns "
             "no outer scalar; lazycompile's cell is filled only while empty with the completed object, never reset, and the call goes through it.",
        note="Trusted: xarray refuses a chunked core dimension without allow_rechunk; Numba's compiler lock serialises racing first calls; dask map_blocks semantics. "
             "Value equality between schedulers is declined.",
        technique="static analysis: call-site table rules, reaching definitions on the CFG, alias/ownership (read-only, prange) rules over the syntax tree",
    ),
    "C14": dict(
        category="proof",
        text="Closed obligation set: for each of the ~500 subscripts of all 35 kernels, every index component is shown to lie in [-len, len) under the kernel's contract "
             "by the affine bound prover (loop-range substitution by coefficient sign, dominating conditions as additive certificates, flow-sensitive symbolic shapes "
             "incl. slices, boolean masks, merged branch shapes), three counter lemmas, or a frozen contract table whose entries name their clause; ws2d's precondition "
             "(equal lengths >= 2) is verified at each of its 24 call sites; every CFG path through each gufunc fully writes every output and returned arrays come from "
             "initialising constructors. Indices that are in bounds only through negative wrap-around (ws2d at n = 2, 3) are listed, not hidden.",
        note="Trusted: array arguments have the declared ranks; Numba wraps negative indices; the contract table of sa/props/c14.py (zone ids, group ids, marks == observations, "
             "contiguous labels, append-counters). The dynamic observable (IndexError under NUMBA_BOUNDSCHECK) is replaced by these obligations.",
        technique="static analysis: symbolic shape inference + affine bound proofs without a solver, CFG must-pass-through for output writes",
    ),
    "C02": dict(
        category=OTHER,
        text="(1) mask descriptor of the seven kernels and the driver: the zero set of the validity weight is exactly the declared predicate, over the whole series, in "
             "either dialect; (2) R-MASK: each of the 22+ solver calls passes a weight whose every reaching definition has the mask as a factor; (3) R-TAINT: forward "
             "abstract interpretation over the lattice Clean < AtMasked(P) < AtMasked(N) < Spread(P) < Spread(N) with a mask flag (mask x AtMasked(P) is clean, 0 x NaN "
             "is not, reductions spread, mask-derived selections and validity guards sanitise, ws2d summarised by its products w[i]*y[i]): no Spread taint reaches the "
             "output series or the reported lambda of any kernel/helper/driver - the static form of `the result is the same whatever placeholder marks the missing "
             "cells`; (4) every solve is dominated by the minimum-valid-count guard and the other arm passes the input through with lambda 0.",
        note="Trusted: the transfer functions of sa/taint.py; the ws2d summary (C01). The clause that the output at missing cells is the gap-filled curve value is a consequence, "
             "not separately decided; nothing numerical is decided.",
        technique="static analysis: taint/influence abstract interpretation to a fixpoint, def-use factor resolution, block descriptors",
    ),
}
NOT_APPLICABLE = {}

"""Re-run every registered quick check against each stored seeded change (scratch copy of /repo/hdc + patch) and
refresh `checks_firing` in seeded/<id>/meta.json.  usage: tools/recheck_seeds.py [seed-id ...]"""
import concurrent.futures as cf
import json
import os
import shutil
import subprocess
import sys
import tempfile
from pathlib import Path

VERIF = Path(__file__).resolve().parent.parent


def one_seed(sid: str):
    d = VERIF / "seeded" / sid
    tmp = Path(tempfile.mkdtemp(prefix="seedchk_"))
    try:
        shutil.copytree("/repo/hdc", tmp / "hdc", ignore=shutil.ignore_patterns("__pycache__"))
        r = subprocess.run(["patch", "-p1", "-s", "-d", str(tmp), "-i", str(d / "patch.diff")], capture_output=True, text=True)
        if r.returncode != 0:
            return sid, {"error": "patch does not apply: " + (r.stdout + r.stderr)[-200:]}
        man = json.loads((VERIF / "MANIFEST.json").read_text())
        env = dict(os.environ, VERIF_EVIDENCE_DIR=str(tmp / "ev"), HDC_REPO=str(tmp))
        env.pop("VERIF_TIER", None)
        det = {}
        for c in man["checks"]:
            pid = c["property_id"]
            rr = subprocess.run([str(VERIF / "check"), pid, "--repo", str(tmp)], env=env, capture_output=True, text=True, timeout=1200)
            if rr.returncode != 0:
                lines = [l for l in rr.stdout.splitlines() if l.strip().startswith(("hdc/", "VIOLATION", "ANALYSIS-ERROR"))]
                det[pid] = {"exit": rr.returncode, "report": [l[:400] for l in lines[:4]]}
        return sid, det
    finally:
        shutil.rmtree(tmp, ignore_errors=True)


def main():
    ids = sys.argv[1:] or sorted(p.name for p in (VERIF / "seeded").iterdir() if (p / "patch.diff").exists())
    with cf.ThreadPoolExecutor(6) as ex:
        for sid, det in ex.map(one_seed, ids):
            mp = VERIF / "seeded" / sid / "meta.json"
            meta = json.loads(mp.read_text())
            meta["checks_firing"] = det
            meta["detected"] = bool(det) and "error" not in det
            prop = meta.get("property")
            meta["detected_by_own_property"] = bool(prop in det and det[prop].get("exit") == 1)
            mp.write_text(json.dumps(meta, indent=1) + "\n")
            print(sid, prop, {k: v.get("exit") if isinstance(v, dict) else v for k, v in det.items()})


if __name__ == "__main__":
    main()

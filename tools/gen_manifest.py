"""Generate MANIFEST.json from the table below (keeps it schema-valid at all times)."""
import json
import sys
from pathlib import Path

V = Path(__file__).resolve().parent.parent
sys.path.insert(0, str(V))
from tools.manifest_table import CHECKS, NOT_APPLICABLE  # noqa: E402

props = [json.loads(l)["id"] for l in (V / "properties.jsonl").read_text().splitlines() if l.strip()]
# rules added after the seeded rounds (DESIGN.md section 9.6), appended to the level text of the properties that run them
TRUTHY = " Accessor level: the nodata value is tested with `is None`, never for truth, and an explicit argument is replaced only when it is None (R-TRUTHY); " \
         "the data argument of each site is the accessor's object through value-preserving steps only (R-BIND provenance); the accessor methods read no state " \
         "stored on the accessor besides `_obj` (R-STATELESS: xarray caches accessors per object)."
EXTRA = {
    "C02": TRUTHY + " The smoothers never store into their input series (R-READONLY).",
    "C03": TRUTHY, "C04": TRUTHY, "C05": TRUTHY + " The GCV kernels never store into their input series (R-READONLY); no placeholder at a masked cell can reach a GCV score, a robust weight, the reported lambda or the band (R-TAINT shared with C02).",
    "C06": " Every solver weight vanishes outside the validity mask (R-MASK: the sanitised placeholder does not shift with the series); ws2d is one straight-line algorithm; "
           "the asymmetric fixed-lambda smoother re-weights until the curve itself stops changing (IRLS descriptor shared with C03); the 3-d V-curve driver takes the lag-1 correlation from the raw series with its nodata marker.",
    "C07": TRUTHY + " The 90%-zeros test compares the ratio of counts itself with 0.9 (no float arithmetic on the compared side).",
    "C08": TRUTHY + " The 90%-zeros test compares the ratio itself with 0.9." + " Every pixel/group iteration of the SPI drivers leaves a defined value in the output (nodata-prefilled or must-write per iteration); inside the cell loop arrays are addressed at the current cell only (no neighbouring cell enters an index); only cells of the index buffer that differ from nodata are scaled.",
    "C09": TRUTHY + " Explicit casts of kernel arguments equal the element type the kernel declares.",
    "C10": TRUTHY + " The kernel without nodata handling is selected exactly when the nodata attribute is None.",
    "C11": " Ordering methods derived by functools.total_ordering are accepted: the written root method and __eq__ must satisfy the sibling obligations (same coerced operand types).",
    "C12": " No gufunc signature declares a contiguous layout (R-LAYOUT: strided views are passed to the inner loops).",
    "C13": " No gufunc signature declares a contiguous layout (NB-LAYOUT); prange iterations share no written state (NB-PRANGE); NB-PROMOTE also covers accumulators that start from an int literal and take narrow-integer operands.",
    "C15": TRUTHY + " The time-first arm labels its result with the remaining dims in order and every coordinate but time.",
    "C16": " The NaN->nodata substitution reaches both kernel sites unconditionally; the result is labelled (first dim and its coordinate, zone ids, [mean, valid]); R-STATELESS.",
    "C17": TRUTHY + " mean_grp accessor: group ids are converted to the kernel's declared element type, num_groups is the number of distinct ids, label length is validated; "
           "the value scattered for a group is defined in that group's own iteration (R-LOOPCARRY); rolling_sum: the cell (or the scalar accumulator stored into it) is reset per position and only ever added to; typed IR (all declared signatures, njit helpers followed): no computed value is stored into an integer element narrower than 64 bit (R-ACC).",
    "C19": " begin/end labels are tested with `is None`, never for truth (0 is a legitimate label) and looked up exactly as given; an axis position obtained from get_indexer (through helpers) is never tested for truth (position 0 is the first step); R-STATELESS (no cached index).",
    "C20": " The gufunc signature declares arbitrary strides for every array (R-LAYOUT); ws2d is one straight-line algorithm; R-STATELESS; typed IR: for every declared signature the ws2d solve of the daily series returns a float64 array (R-ACC).",
}
checks = []
for pid in props:
    if pid not in CHECKS:
        continue
    c = CHECKS[pid]
    if not (V / "sa" / "props" / f"{pid.lower()}.py").exists():
        continue
    checks.append({
        "property_id": pid,
        "quick_cmd": f"./check {pid} --tier quick",
        "thorough_cmd": f"./check {pid} --tier thorough",
        "evidence_file": f"evidence/{pid}.json",
        "replay_cmd_template": f"./check {pid} --replay {{path}}",
        "engine": "sa",
        "level_claimed": {"category": c["category"], "text": c["text"] + EXTRA.get(pid, ""), "design_ref": f"DESIGN.md section 4 {pid}"},
        "level_note": c["note"],
        "technique": c["technique"],
    })
claimed = {c["property_id"] for c in checks}
na = []
for pid in props:
    if pid in claimed:
        continue
    na.append({"property_id": pid, "reason": NOT_APPLICABLE.get(
        pid, "not claimed yet: the static check for this property is still under construction (planned clauses: DESIGN.md section 4)")})
man = {
    "version": 1,
    "setup_cmd": "/venv/bin/python -B sa/selfcheck.py",
    "hooks": {
        "guard": "HDC_ALGO_VERIF",
        "enable": "none needed: the checks read /repo's source (ast) and, for dtype facts, Numba's type inference on it; no instrumentation is compiled into hdc-algo",
        "baseline_off_cmd": "cd /repo && /venv/bin/python -m pytest -ra -q -p no:cacheprovider --timeout=900 --continue-on-collection-errors",
        "source_commits": [],
        "add_only": True,
    },
    "engines": [{
        "name": "sa", "path": "sa/", "serves_properties": sorted(claimed),
        "kind_free_text": "repository-specific static analysis over the Python syntax tree: expression normal forms, "
                          "statement CFG with dominators, affine bound prover, taint lattice, sibling descriptors, Numba typed IR (type inference only)",
    }],
    "checks": checks,
    "notes": "Static-analysis family only. Every check decides the structural clauses named in its level text and in DESIGN.md section 4; "
             "numerical clauses are declined per property (DESIGN.md section 8). Exit 2 + ANALYSIS-ERROR means the analysis could not interpret the tree.",
    "not_applicable": na,
}
(V / "MANIFEST.json").write_text(json.dumps(man, indent=1) + "\n")
print("claimed", sorted(claimed), "not_applicable", [x["property_id"] for x in na])

"""Detection under refactoring noise: apply a silent benign refactoring and then a seeded breaking change to the same file; the property's own
check must still report the break. tools/compose_check.py [--max N]"""
import concurrent.futures as cf
import json
import os
import re
import shutil
import subprocess
import sys
import tempfile
from pathlib import Path

V = Path(__file__).resolve().parent.parent
REPO = Path(os.environ.get("HDC_REPO", "/repo"))


def files_of(patch: Path):
    return set(re.findall(r"^\+\+\+ b/(\S+)", patch.read_text(), re.M))


def run(item):
    b, s, prop, allow_error = item
    tmp = Path(tempfile.mkdtemp(prefix="cmp_"))
    try:
        shutil.copytree(REPO / "hdc", tmp / "hdc", ignore=shutil.ignore_patterns("__pycache__"))
        for p in (b, s):
            r = subprocess.run(["patch", "-p1", "-s", "--no-backup-if-mismatch", "-F0", "-d", str(tmp), "-i", str(p)], capture_output=True, text=True)
            if r.returncode != 0:
                return item, "noapply", ""
        try:
            for f in files_of(b) | files_of(s):
                compile((tmp / f).read_text(), f, "exec")
        except SyntaxError:
            return item, "noapply", ""
        c = subprocess.run([str(V / "check"), prop, "--repo", str(tmp)], capture_output=True, text=True, cwd=V, env=dict(os.environ, VERIF_EVIDENCE_DIR=str(tmp / "ev")))
        if c.returncode == 1 or (c.returncode == 2 and allow_error):
            return item, "fire", ""
        tail = [l for l in c.stdout.splitlines() if "ANALYSIS" in l][:1]
        return item, "error" if c.returncode == 2 else "MISS", (tail[0][:200] if tail else "")
    finally:
        shutil.rmtree(tmp, ignore_errors=True)


def main():
    lim = json.loads((V / "benign" / "known_limitations.json").read_text())
    benign = [p for p in sorted((V / "benign").glob("*/p*.diff")) if f"{p.parent.name}/{p.name}" not in lim]
    seeds = []
    for d in sorted((V / "seeded").glob("*/meta.json")):
        m = json.loads(d.read_text())
        seeds.append((d.parent / "patch.diff", m["property"], bool(m.get("allow_error"))))
    items = []
    for b in benign:
        fb = files_of(b)
        for s, prop, ae in seeds:
            if fb & files_of(s):
                # --new BATCHES,SUFFIX : only pairs that involve a benign batch whose id starts with one of BATCHES or a seed id ending in SUFFIX
                if "--new" in sys.argv:
                    bsel, ssel = sys.argv[sys.argv.index("--new") + 1].split(":")
                    if not (b.parent.name.startswith(tuple(bsel.split(","))) or s.parent.name.endswith(ssel)):
                        continue
                items.append((b, s, prop, ae))
    print(len(items), "candidate compositions")
    stats = {"fire": 0, "noapply": 0, "MISS": 0, "error": 0}
    with cf.ThreadPoolExecutor(16) as ex:
        for (b, s, prop, ae), st, tail in ex.map(run, items):
            stats[st] += 1
            if st in ("MISS", "error"):
                print(st, f"{b.parent.name}/{b.stem} + {s.parent.name} [{prop}] {tail}")
    print(stats)


if __name__ == "__main__":
    main()

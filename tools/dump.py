"""Debug: dump the store table of a function. usage: tools/dump.py hdc.algo.ops.stats gammastd"""
import sys
from pathlib import Path
sys.path.insert(0, str(Path(__file__).resolve().parent.parent))
from sa.core import Repo
from sa.symb import StoreCollector
r = Repo()
fn = r.func(sys.argv[1], sys.argv[2])
sc = StoreCollector(fn, sys.argv[1], loop_atoms_by_name=True, strict=False).run()
for s in sc.stores:
    print(f"STORE L{s.line} {s.arr}[{s.idx_key}] {'+=' if s.aug else '='} {s.rhs.key()[:150]}   | {s.region.label()} | {list(s.guards)}")
for n, ds in sc.scalars.items():
    for d in ds:
        print(f"SCALAR L{d.stmt.lineno} {n} = {d.rhs.key()[:150]}  | {d.region.label()} | {list(d.guards)}")
for c in sc.calls:
    print(f"CALL L{c.stmt.lineno} {c.func}({c.args}) | {list(c.guards)}")
for e in sc.exits:
    print(f"EXIT L{e.stmt.lineno} {e.kind} {e.value.key()[:100] if e.value is not None else ''} | {list(e.guards)}")
print("allocs", {k: __import__('ast').unparse(v) for k, v in sc.allocs.items()})

"""Re-run the quick checks on the stored behaviour-preserving refactorings: tools/recheck_benign.py [Bnn[/pK] ...] [--all-props]"""
import concurrent.futures as cf
import json
import os
import shutil
import subprocess
import sys
import tempfile
from pathlib import Path

V = Path(__file__).resolve().parent.parent
REPO = Path(os.environ.get("HDC_REPO", "/repo"))
PROPS = [f"C{i:02d}" for i in range(1, 21)]


def run(item):
    bid, patch, props = item
    tmp = Path(tempfile.mkdtemp(prefix="rb_"))
    try:
        shutil.copytree(REPO / "hdc", tmp / "hdc", ignore=shutil.ignore_patterns("__pycache__"))
        r = subprocess.run(["patch", "-p1", "-s", "-d", str(tmp), "-i", str(patch)], capture_output=True, text=True)
        if r.returncode != 0:
            return bid, patch.name, {"patch": (9, r.stdout[-200:])}
        out = {}
        for pid in props:
            c = subprocess.run([str(V / "check"), pid, "--repo", str(tmp)], capture_output=True, text=True, cwd=V, env=dict(os.environ, VERIF_EVIDENCE_DIR=str(tmp / "ev")))
            if c.returncode != 0:
                lines = [l.strip() for l in c.stdout.splitlines() if ("[R-" in l or "[NB" in l or "ANALYSIS" in l) and "KNOWN-FINDING" not in l]
                out[pid] = (c.returncode, lines[:3])
        return bid, patch.name, out
    finally:
        shutil.rmtree(tmp, ignore_errors=True)


def main():
    args = [a for a in sys.argv[1:] if not a.startswith("-")]
    allp = "--all-props" in sys.argv
    items = []
    for d in sorted((V / "benign").iterdir()):
        res = json.loads((d / "results.json").read_text()) if (d / "results.json").exists() else {}
        for p in sorted(d.glob("p*.diff")):
            key = f"{d.name}/{p.stem}"
            if args and not any(a == d.name or a == key for a in args):
                continue
            prev = list(res.get(p.name, {}).get("alarms", {}))
            props = PROPS if allp or not prev else prev
            if not allp and not prev and not args:
                continue
            items.append((d.name, p, props))
    bad = 0
    with cf.ThreadPoolExecutor(16) as ex:
        for bid, name, out in ex.map(run, items):
            if out:
                bad += 1
                print(f"{bid}/{name}: ALARM {{{', '.join(f'{k}:{v[0]}' for k, v in out.items())}}}")
                if "-v" in sys.argv:
                    for k, v in out.items():
                        for l in v[1]:
                            print("     ", k, l[:300])
            else:
                print(f"{bid}/{name}: silent")
    print(f"{len(items)} patches, {bad} with alarms")


if __name__ == "__main__":
    main()
